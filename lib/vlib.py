"""Shared machinery of the /verif checks: scratch space, TLC runner, Go
builders, verdict bookkeeping (violations / known findings / inconclusive),
evidence writer.  Python 3 standard library only."""
import atexit
import json
import os
import re
import shutil
import signal
import subprocess
import sys
import tempfile
import threading
import time

VERIF = os.path.dirname(os.path.dirname(os.path.abspath(__file__)))
REPO = os.environ.get("VERIF_REPO", "/repo")
SPEC = os.path.join(VERIF, "spec")
HARNESS = os.path.join(VERIF, "harness")
GO_DEFAULT = "go"
GO_NEW = "go1.26.8"
LINKFLAGS = "-ldflags=-checklinkname=0"
NCPU = os.cpu_count() or 4

_scratch_root = None


_root_lock = threading.Lock()


def scratch_root():
    """One scratch directory per process, removed at exit."""
    global _scratch_root
    with _root_lock:
        if _scratch_root is None:
            base = os.environ.get("VERIF_TMP", tempfile.gettempdir())
            _scratch_root = tempfile.mkdtemp(prefix="verif-", dir=base)
            atexit.register(_cleanup)
    return _scratch_root


def _cleanup():
    if _scratch_root and os.environ.get("VERIF_KEEP") != "1":
        shutil.rmtree(_scratch_root, ignore_errors=True)


def scratch(name):
    d = os.path.join(scratch_root(), name)
    os.makedirs(d, exist_ok=True)
    return d


def goenv(extra=None):
    env = dict(os.environ)
    env.update({"GOFLAGS": "-mod=mod", "GOPROXY": "off", "GOSUMDB": "off",
                "GOTOOLCHAIN": "local", "CGO_ENABLED": env.get("CGO_ENABLED", "1")})
    if extra:
        env.update(extra)
    return env


class Inconclusive(Exception):
    pass


def run(cmd, cwd=None, env=None, timeout=None, stdin=None, check=False):
    """Run a command in its own process group; kill the group on timeout."""
    t0 = time.time()
    p = subprocess.Popen(cmd, cwd=cwd, env=env, stdin=subprocess.PIPE if stdin is not None else subprocess.DEVNULL,
                         stdout=subprocess.PIPE, stderr=subprocess.STDOUT, start_new_session=True)
    try:
        out, _ = p.communicate(stdin, timeout=timeout)
        timed_out = False
    except subprocess.TimeoutExpired:
        try:
            os.killpg(p.pid, signal.SIGKILL)
        except ProcessLookupError:
            pass
        out, _ = p.communicate()
        timed_out = True
    res = RunResult(p.returncode, out.decode("utf-8", "replace"), timed_out, time.time() - t0, cmd)
    if check and (res.rc != 0 or timed_out):
        raise Inconclusive("command failed (rc=%s timeout=%s): %s\n%s" % (res.rc, timed_out, " ".join(map(str, cmd)), res.out[-4000:]))
    return res


class RunResult:
    def __init__(self, rc, out, timed_out, wall, cmd):
        self.rc, self.out, self.timed_out, self.wall, self.cmd = rc, out, timed_out, wall, cmd


# --------------------------------------------------------------------------
# TLC

class TLCResult:
    def __init__(self):
        self.out = ""
        self.generated = 0
        self.distinct = 0
        self.depth = 0
        self.error = None      # None | 'invariant:Name' | 'deadlock' | 'temporal' | 'postcondition' | 'assumption' | 'other:...'
        self.prints = []       # decoded JSON objects printed through PrintT(ToJson(..))
        self.rawprints = []    # other quoted strings printed through PrintT
        self.wall = 0.0
        self.cmd = ""
        self.dir = ""
        self.coverage = {}     # action name -> (distinct, total) when -coverage was on
        self.trace = None      # counterexample states (list of dict) when dump_trace was requested


_tlc_seq = [0]
_seq_lock = __import__("threading").Lock()


def tlc(specdir, module, cfg, workers=None, timeout=900, simulate=None, depth=None, seed=None,
        files=None, deque=False, coverage=False, dump_dot=None, dump_trace=False, heap=None,
        must_finish=True, extra=None, keep_prints=True, nodeadlock=False):
    """Run TLC on a scratch copy of specdir.  files: {name: path-or-bytes} extra
    files copied next to the spec (trace inputs).  Returns TLCResult; raises
    Inconclusive when TLC itself fails (parse error, timeout, OOM, crash)."""
    with _seq_lock:
        _tlc_seq[0] += 1
        seq = _tlc_seq[0]
    d = scratch("tlc-%d-%s" % (seq, module))
    for f in os.listdir(specdir):
        if f.endswith((".tla", ".cfg")):
            shutil.copy(os.path.join(specdir, f), d)
    # shared modules
    common = os.path.join(SPEC, "common")
    if os.path.isdir(common):
        for f in os.listdir(common):
            if f.endswith(".tla") and not os.path.exists(os.path.join(d, f)):
                shutil.copy(os.path.join(common, f), d)
    for name, src in (files or {}).items():
        dst = os.path.join(d, name)
        if isinstance(src, bytes):
            with open(dst, "wb") as fh:
                fh.write(src)
        elif isinstance(src, str) and os.path.exists(src):
            shutil.copy(src, dst)
        else:
            with open(dst, "w") as fh:
                fh.write(src)
    if workers is None:
        workers = max(1, NCPU - 2)
    cmd = ["tlc", "-metadir", os.path.join(d, "meta"), "-workers", str(workers), "-config", cfg]
    if nodeadlock:
        cmd.append("-deadlock")
    if simulate is not None:
        cmd += ["-simulate", simulate]
    if depth is not None:
        cmd += ["-depth", str(depth)]
    if seed is not None:
        cmd += ["-seed", str(seed)]
    if coverage:
        cmd += ["-coverage", "1"]
    if dump_dot:
        cmd += ["-dump", "dot,actionlabels", dump_dot]
    if dump_trace:
        cmd += ["-dumpTrace", "json", os.path.join(d, "cex.json")]
    if extra:
        cmd += list(extra)
    cmd.append(module + ".tla")
    env = dict(os.environ)
    jtmp = os.path.join(d, "jtmp")     # TLC leaves an empty tlc-<n> directory per run in java.io.tmpdir
    os.makedirs(jtmp, exist_ok=True)
    jopts = ["-Xss64m", "-Djava.io.tmpdir=" + jtmp]
    if deque:
        jopts.append("-Dtlc2.tool.queue.IStateQueue=StateDeque")
    if heap:
        jopts.append("-Xmx%s" % heap)
    env["JAVA_TOOL_OPTIONS"] = (env.get("JAVA_TOOL_OPTIONS", "") + " " + " ".join(jopts)).strip()
    r = run(cmd, cwd=d, env=env, timeout=timeout)
    res = TLCResult()
    res.out, res.wall, res.cmd, res.dir = r.out, r.wall, " ".join(cmd[:1] + cmd[3:]), d
    m = None
    for m in re.finditer(r"(\d+) states generated, (\d+) distinct states found", r.out):
        pass
    if m:
        res.generated, res.distinct = int(m.group(1)), int(m.group(2))
    m = re.search(r"depth of the complete state graph search is (\d+)", r.out)
    if m:
        res.depth = int(m.group(1))
    if keep_prints:
        for line in r.out.splitlines():
            if line.startswith('"') and line.endswith('"'):
                try:
                    s = json.loads(line)
                except ValueError:
                    continue
                if s.startswith("{") or s.startswith("["):
                    try:
                        res.prints.append(json.loads(s))
                        continue
                    except ValueError:
                        pass
                res.rawprints.append(s)
    if coverage:
        for m in re.finditer(r"^<(\w+) line \d+, col \d+ to line \d+, col \d+ of module (\w+)>: (\d+):(\d+)", r.out, re.M):
            res.coverage[m.group(1)] = (int(m.group(3)), int(m.group(4)))
    if r.timed_out:
        if must_finish:
            raise Inconclusive("TLC timeout after %ss: %s" % (timeout, res.cmd))
        res.error = "timeout"
        return res
    o = r.out
    if "Invariant " in o and " is violated" in o:
        res.error = "invariant:" + re.search(r"Invariant (\S+) is violated", o).group(1)
    elif "Deadlock reached" in o:
        res.error = "deadlock"
    elif "Temporal properties were violated" in o or re.search(r"Temporal property \S+ was violated", o):
        res.error = "temporal"
    elif re.search(r"Action property \S+ .*is violated", o):
        res.error = "actionprop:" + re.search(r"Action property (\S+)", o).group(1)
    elif re.search(r"Postcondition \S+ .*is (false|violated)", o) or ("ostcondition" in o and "violated" in o):
        res.error = "postcondition"
    elif re.search(r"Assumption .* is false", o):
        res.error = "assumption"
    elif "Model checking completed. No error has been found." in o or (simulate is not None and "Finished in" in o and "Error:" not in o):
        res.error = None
    elif simulate is not None and r.rc in (0,) :
        res.error = None
    else:
        if "Error:" in o or r.rc != 0:
            # evaluation errors, parse errors, OOM...: not a verdict
            ls_ = o.splitlines()
            first = []
            for n_, l in enumerate(ls_):
                if l.startswith("Error:") or "Exception" in l:
                    first += ls_[n_:n_ + 8]
                    if len(first) > 30:
                        break
            raise Inconclusive("TLC failed (rc=%s): %s\n%s\n...\n%s" % (r.rc, res.cmd, "\n".join(first), o[-2000:]))
    if dump_trace and os.path.exists(os.path.join(d, "cex.json")):
        try:
            with open(os.path.join(d, "cex.json")) as fh:
                res.trace = json.load(fh)
        except ValueError:
            res.trace = None
    return res


def parse_dot(path):
    """Parse a `-dump dot,actionlabels` file into (nodes, edges, inits).
    nodes: id -> label text (TLA+ state, with \\n separators as written by TLC);
    edges: list of (src, dst, action-label); inits: set of ids with style=filled."""
    nodes, edges, inits = {}, [], set()
    node_re = re.compile(r'^(-?\d+) \[label="(.*)"(,style = filled)?\];?$')
    edge_re = re.compile(r'^(-?\d+) -> (-?\d+) \[label="((?:[^"\\]|\\.)*)"')
    with open(path) as fh:
        for line in fh:
            line = line.rstrip("\n")
            m = edge_re.match(line)
            if m:
                edges.append((m.group(1), m.group(2), m.group(3).replace('\\"', '"')))
                continue
            m = node_re.match(line)
            if m:
                nodes[m.group(1)] = m.group(2)
                if m.group(3):
                    inits.add(m.group(1))
    return nodes, edges, inits


# --------------------------------------------------------------------------
# Go

_setup_lock = threading.RLock()
_compile_lock = threading.Lock()
_compile_locks = {}     # output path -> lock (parts of one check build the same rig from several threads)
_compile_done = {}      # (package, files, output, tags, race, go, linkflag) -> test binary
_overlay_seq = [0]


def repo_modfile():
    """Copies of /repo's go.mod/go.sum so that -mod=mod never rewrites /repo."""
    d = scratch("modfile")
    mf = os.path.join(d, "go.mod")
    with _setup_lock:
        if not os.path.exists(mf):
            shutil.copy(os.path.join(REPO, "go.sum"), os.path.join(d, "go.sum"))
            shutil.copy(os.path.join(REPO, "go.mod"), mf + ".tmp")
            os.replace(mf + ".tmp", mf)
    return mf


def harness_copy():
    """Scratch copy of the external harness module, with /repo's go.sum."""
    d = os.path.join(scratch_root(), "harness")
    with _setup_lock:
        if not os.path.exists(d):
            t = d + ".tmp"
            shutil.copytree(HARNESS, t, ignore=shutil.ignore_patterns("inpkg"))
            shutil.copy(os.path.join(REPO, "go.sum"), os.path.join(t, "go.sum"))
            with open(os.path.join(t, "go.mod")) as fh:
                gm = fh.read()
            gm = gm.replace("=> /repo", "=> " + REPO)
            with open(os.path.join(t, "go.mod"), "w") as fh:
                fh.write(gm)
            os.rename(t, d)
    return d


def want_race(race):
    """VERIF_RACE=1 (set by the C20 check) turns every driver build into a -race build."""
    return bool(race) or os.environ.get("VERIF_RACE") == "1"


def go_build(pkg, out_name, tags="verif", race=False, go=GO_DEFAULT, timeout=900, linkflag=True):
    """Build harness command ./cmd/<pkg> against /repo's working tree."""
    d = harness_copy()
    race = want_race(race)
    out = os.path.join(scratch("bin"), out_name + ("-r" if race else ""))
    key = ("build", pkg, out, tags, race, go, linkflag)
    with _compile_lock:
        lock = _compile_locks.setdefault(out, threading.Lock())
    with lock:      # parts of one check may build the same driver from several threads
        if key in _compile_done and os.path.exists(out):
            return out
        cmd = [go, "build", "-tags", tags, "-o", out]
        if linkflag:
            cmd.append(LINKFLAGS)
        if race:
            cmd.append("-race")
        cmd.append(pkg)
        r = run(cmd, cwd=d, env=goenv(), timeout=timeout)
        if r.rc != 0 or r.timed_out:
            raise Inconclusive("go build %s failed:\n%s" % (pkg, r.out[-4000:]))
        _compile_done[key] = out
        return out


def go_test_inpkg(pkg_rel, files, run_regex, env=None, tags="verif", race=False, go=GO_DEFAULT,
                  timeout=900, linkflag=False, extra=None, count=True):
    """Run `go test` inside /repo/<pkg_rel> with harness files injected through
    -overlay (nothing is written into /repo).  files: list of paths under
    harness/inpkg/<...>; they appear in the package as <basename>."""
    race = want_race(race)
    ov = {"Replace": {}}
    for f in files:
        ov["Replace"][os.path.join(REPO, pkg_rel, os.path.basename(f))] = f
    ovf = _write_overlay(ov, "overlay-%s" % re.sub(r"\W", "_", pkg_rel + run_regex))
    cmd = [go, "test", "-modfile=" + repo_modfile(), "-overlay", ovf, "-vet=off", "-tags", tags,
           "-run", run_regex, "-timeout", "%ds" % max(60, int(timeout) - 20)]
    if count:
        cmd += ["-count=1"]
    if linkflag:
        cmd.append(LINKFLAGS)
    if race:
        cmd.append("-race")
    if extra:
        cmd += list(extra)
    cmd.append("./" + pkg_rel)
    return run(cmd, cwd=REPO, env=goenv(env), timeout=timeout)


# --------------------------------------------------------------------------
# Verdicts

def load_known():
    p = os.path.join(VERIF, "known_findings.json")
    if not os.path.exists(p):
        return []
    with open(p) as fh:
        return json.load(fh).get("findings", [])


class Check:
    def __init__(self, pid, tier, seed, level="model_checking"):
        self.pid, self.tier, self.seed, self.level = pid, tier, seed, level
        self.t0 = time.time()
        self.cov = {"evaluations": 0, "distinct_nontrivial": 0, "rule": "", "samples": [],
                    "states": 0, "transitions": 0, "traces_validated_against_impl": 0,
                    "checker_cmd": "", "exhaustive": False}
        self.assumptions = []
        self.violations = []   # (signature, what, replay path)
        self.known_seen = {}   # signature -> what
        self.inconclusive = []
        self.known = [k for k in load_known() if k.get("property") == pid]
        self.replay_dir = os.path.join(os.environ.get("VERIF_REPLAY_DIR") or os.path.join(VERIF, "replays"), pid)
        self._tlc_cmds = []

    # -- bookkeeping -------------------------------------------------------
    def add_tlc(self, res):
        self.cov["states"] += res.distinct
        self.cov["transitions"] += res.generated
        self._tlc_cmds.append(res.cmd)

    def sample(self, obj, limit=3):
        if len(self.cov["samples"]) < limit:
            self.cov["samples"].append(obj)

    def note(self, msg):
        print("[%s %6.1fs] %s" % (self.pid, time.time() - self.t0, msg), flush=True)

    def violation(self, signature, what, replay_obj):
        """Report a violation observed on the real code.  A signature listed
        as an open known finding prints KNOWN-FINDING (once) instead."""
        for k in self.known:
            if k.get("status") == "open" and k.get("key") == signature:
                if signature not in self.known_seen:
                    self.known_seen[signature] = k.get("what", what)
                    print("KNOWN-FINDING: property=%s %s [%s]" % (self.pid, k.get("what", what), signature), flush=True)
                return False
        for (s, _, _) in self.violations:
            if s == signature:
                return True   # one report per signature
        os.makedirs(self.replay_dir, exist_ok=True)
        path = os.path.join(self.replay_dir, "%s-%d.json" % (re.sub(r"[^A-Za-z0-9_.-]+", "_", signature)[:80], len(self.violations)))
        with open(path, "w") as fh:
            json.dump({"property": self.pid, "signature": signature, "what": what, "seed": self.seed,
                       "tier": self.tier, "replay": replay_obj}, fh, indent=1, default=str)
        self.violations.append((signature, what, path))
        print("VIOLATION property=%s replay=%s" % (self.pid, path), flush=True)
        print("  signature: %s\n  what: %s" % (signature, what), flush=True)
        return True

    def fail(self, msg):
        self.inconclusive.append(msg)
        print("INCONCLUSIVE property=%s %s" % (self.pid, msg), flush=True)

    # -- end ---------------------------------------------------------------
    def finish(self):
        self.cov["checker_cmd"] = " ; ".join(self._tlc_cmds)[:4000]
        self.cov["known_findings_observed"] = sorted(self.known_seen)
        ev = {"property_id": self.pid, "tier": self.tier, "seed": self.seed, "level": self.level,
              "coverage": self.cov, "assumptions": self.assumptions,
              "wall_s": round(time.time() - self.t0, 2), "violations": len(self.violations)}
        if self.inconclusive:
            ev["coverage"]["inconclusive"] = self.inconclusive
        evdir = os.environ.get("VERIF_EVIDENCE_DIR") or os.path.join(VERIF, "evidence")
        os.makedirs(evdir, exist_ok=True)
        with open(os.path.join(evdir, self.pid + (".partial.json" if getattr(self, "partial", False) else ".json")), "w") as fh:
            json.dump(ev, fh, indent=1, default=str)
            fh.write("\n")
        if self.violations:
            rc = 1
        elif self.inconclusive:
            rc = 2
        else:
            rc = 0
        print("[%s] tier=%s seed=%d evaluations=%d nontrivial=%d states=%d traces=%d known=%d violations=%d inconclusive=%d wall=%.1fs -> exit %d" % (
            self.pid, self.tier, self.seed, self.cov["evaluations"], self.cov["distinct_nontrivial"], self.cov["states"],
            self.cov["traces_validated_against_impl"], len(self.known_seen), len(self.violations), len(self.inconclusive),
            time.time() - self.t0, rc), flush=True)
        return rc


def write_ndjson(path, objs):
    with open(path, "w") as fh:
        for o in objs:
            fh.write(json.dumps(o, separators=(",", ":")))
            fh.write("\n")


def read_ndjson(path):
    out = []
    with open(path) as fh:
        for line in fh:
            line = line.strip()
            if line:
                out.append(json.loads(line))
    return out


# --------------------------------------------------------------------------
# Case drivers (input-enumerating modules)

def drive_cases(chk, binary, args_before, cases, args_after=(), timeout=1200, tag="cases", env=None, max_report=8):
    """Write `cases` (list of JSON-able objects, or None when the driver needs
    no input) to a scratch file, run `binary <args_before> [cases] out
    <args_after>`, and turn every non-conforming result into a violation.
    Returns the driver's summary dict."""
    d = scratch("drive")
    _tlc_seq[0] += 1
    outp = os.path.join(d, "%s-%d.out.ndjson" % (tag, _tlc_seq[0]))
    cmd = [binary] + list(args_before)
    if cases is not None:
        inp = os.path.join(d, "%s-%d.in.ndjson" % (tag, _tlc_seq[0]))
        write_ndjson(inp, cases)
        cmd.append(inp)
    cmd.append(outp)
    cmd += [str(a) for a in args_after]
    r = run(cmd, env=env, timeout=timeout)
    if r.timed_out or r.rc != 0 or not os.path.exists(outp):
        raise Inconclusive("driver %s failed (rc=%s timeout=%s):\n%s" % (" ".join(cmd[:3]), r.rc, r.timed_out, r.out[-3000:]))
    summary = None
    reported = 0
    for res in read_ndjson(outp):
        if "summary" in res:
            summary = res["summary"]
            continue
        if reported < max_report or any(k.get("key") == res.get("sig") for k in chk.known):
            if chk.violation(res.get("sig", "unknown"), res.get("detail", ""), {"driver": os.path.basename(binary), "args": list(args_before), "case": res.get("case"), "idx": res.get("idx")}):
                reported += 1
    if summary is None:
        raise Inconclusive("driver %s wrote no summary" % binary)
    chk.cov["evaluations"] += int(summary.get("cases", 0))
    chk.cov["distinct_nontrivial"] += int(summary.get("nontrivial", 0))
    return summary


def parse_action(label):
    """'ClientMatch("c1","unknown",0)' -> ['ClientMatch', 'c1', 'unknown', 0]"""
    m = re.match(r"^(\w+)(?:\((.*)\))?$", label.strip())
    if not m:
        return [label]
    out = [m.group(1)]
    if m.group(2) is not None and m.group(2) != "":
        for a in re.findall(r'"(?:[^"\\]|\\.)*"|[^,]+', m.group(2)):
            a = a.strip()
            if a.startswith('"'):
                out.append(json.loads(a))
            elif re.match(r"^-?\d+$", a):
                out.append(int(a))
            elif a in ("TRUE", "FALSE"):
                out.append(a == "TRUE")
            else:
                out.append(a)
    return out


def parse_sim_file(path):
    """Action labels (parsed) of one behaviour written by `tlc -simulate file=...`."""
    steps = []
    with open(path) as fh:
        for line in fh:
            m = re.match(r"^\\\* <(.*) line \d+, col \d+ to line \d+, col \d+ of module \w+>", line)
            if m and not m.group(1).startswith("Init"):
                steps.append(parse_action(m.group(1)))
    return steps


def simulate_behaviours(specdir, module, cfg, num, depth, seed, timeout=600, files=None):
    """Run tlc -simulate and return (TLCResult, list of behaviours as parsed action lists)."""
    d = scratch("sim-%s-%d" % (module, _tlc_seq[0] + 1))
    prefix = os.path.join(d, "b")
    r = tlc(specdir, module, cfg, workers=1, simulate="file=%s,num=%d" % (prefix, num), depth=depth, seed=seed,
            timeout=timeout, keep_prints=False, files=files)
    behs = []
    for f in sorted(os.listdir(d)):
        if f.startswith("b_"):
            behs.append(parse_sim_file(os.path.join(d, f)))
    shutil.rmtree(d, ignore_errors=True)
    return r, behs


def _write_overlay(ov, stem):
    """A fresh overlay file per call, written completely before it gets its name."""
    d = scratch("overlay")
    with _compile_lock:
        _overlay_seq[0] += 1
        n = _overlay_seq[0]
    ovf = os.path.join(d, "%s-%d.json" % (stem, n))
    with open(ovf + ".tmp", "w") as fh:
        json.dump(ov, fh)
    os.replace(ovf + ".tmp", ovf)
    return ovf


def go_test_compile_inpkg(pkg_rel, files, out_name, tags="verif", race=False, go=GO_DEFAULT, linkflag=False, timeout=900):
    """`go test -c` of /repo/<pkg_rel> with harness files injected through -overlay; returns the test binary."""
    ov = {"Replace": {}}
    for f in files:
        ov["Replace"][os.path.join(REPO, pkg_rel, os.path.basename(f))] = f
    race = want_race(race)
    out = os.path.join(scratch("bin"), out_name)
    key = (pkg_rel, tuple(files), out, tags, race, go, linkflag)
    with _compile_lock:
        lock = _compile_locks.setdefault(out, threading.Lock())
    with lock:
        if key in _compile_done and os.path.exists(out):
            return out
        ovf = _write_overlay(ov, "overlay-c-%s" % re.sub(r"\W", "_", pkg_rel + out_name))
        cmd = [go, "test", "-c", "-o", out, "-modfile=" + repo_modfile(), "-overlay", ovf, "-vet=off", "-tags", tags]
        if linkflag:
            cmd.append(LINKFLAGS)
        if race:
            cmd.append("-race")
        cmd.append("./" + pkg_rel)
        r = run(cmd, cwd=REPO, env=goenv(), timeout=timeout)
        if r.rc != 0 or r.timed_out or not os.path.exists(out):
            raise Inconclusive("go test -c ./%s failed:\n%s" % (pkg_rel, r.out[-4000:]))
        _compile_done[key] = out
        return out


def run_parallel(jobs, workers=None):
    """jobs: list of zero-argument callables; returns their results in order."""
    import concurrent.futures
    with concurrent.futures.ThreadPoolExecutor(max_workers=workers or NCPU) as ex:
        futs = [ex.submit(j) for j in jobs]
        return [f.result() for f in futs]
