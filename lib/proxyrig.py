"""Shared by lib/checks/c16.py and lib/checks/c06_proxy.py: the in-package
proxy rig (harness/inpkg/proxy_lib) - build once, run one real proxy per test
process, many processes in parallel - and the TLC side of spec/ProxySession
(behaviour extraction from the dot dump and from -simulate, trace validation)."""
import collections
import concurrent.futures
import json
import os
import re
import shutil
import threading
import time

import vlib

SPECDIR = os.path.join(vlib.SPEC, "ProxySession")
INPKG = os.path.join(vlib.HARNESS, "inpkg", "proxy_lib")
ALL_CLASSES = ["in_wss", "in_ws", "in_https", "in_port", "sub_wss", "glue_wss", "upper_wss", "out_wss", "out_ws",
               "out_inpath", "ui_in_at_out", "ui_out_at_in", "opaque", "empty", "unparsable"]
POLL_S = 5.0      # pollInterval of proxy/lib
DCTIMEOUT_S = 20.0  # dataChannelTimeout of proxy/lib


# --------------------------------------------------------------------------
# Go side

def build():
    files = [os.path.join(INPKG, f) for f in sorted(os.listdir(INPKG)) if f.endswith("_verif_test.go")]
    out = os.path.join(vlib.scratch("bin"), "proxy_lib.test")
    r = vlib.go_test_inpkg("proxy/lib", files, "TestVerif", linkflag=True, extra=["-c", "-o", out], timeout=900)
    if r.rc != 0 or r.timed_out or not os.path.exists(out):
        raise vlib.Inconclusive("building the proxy rig failed:\n" + r.out[-4000:])
    return out


class RunOut:
    def __init__(self, plan, events, rc, out, wall, timed_out):
        self.plan, self.events, self.rc, self.out, self.wall, self.timed_out = plan, events, rc, out, wall, timed_out

    def ev(self, name):
        return [e for e in self.events if e.get("ev") == name]


_run_seq = [0]


def run_one(binary, test, plan, timeout):
    _run_seq[0] += 1
    d = vlib.scratch("proxyrun")
    tag = "%s-%d" % (re.sub(r"\W", "_", plan.get("name", "plan"))[:40], _run_seq[0])
    pf, of = os.path.join(d, tag + ".plan.json"), os.path.join(d, tag + ".ndjson")
    with open(pf, "w") as fh:
        json.dump(plan, fh)
    env = dict(os.environ)
    env.update({"VERIF_PLAN": pf, "VERIF_OUT": of})
    r = vlib.run([binary, "-test.run", "^%s$" % test, "-test.timeout", "%ds" % int(timeout), "-test.count", "1"], env=env, timeout=timeout + 30)
    events = vlib.read_ndjson(of) if os.path.exists(of) else []
    return RunOut(plan, events, r.rc, r.out, r.wall, r.timed_out)


def run_plans(binary, test, plans, parallel, timeout):
    """One process per plan (package state of proxy/lib is global), `parallel` at a time."""
    outs = [None] * len(plans)
    with concurrent.futures.ThreadPoolExecutor(max_workers=max(1, parallel)) as ex:
        futs = {ex.submit(run_one, binary, test, p, timeout): i for i, p in enumerate(plans)}
        for f in concurrent.futures.as_completed(futs):
            outs[futs[f]] = f.result()
    return outs


# --------------------------------------------------------------------------
# behaviours from TLC

_lab = re.compile(r'^(\w+)(?:\((.*)\))?$')


def parse_label(label):
    m = _lab.match(label.strip())
    if not m:
        raise vlib.Inconclusive("cannot parse action label %r" % label)
    args = []
    if m.group(2):
        for a in m.group(2).split(","):
            a = a.strip()
            if a.startswith('"'):
                args.append(a.strip('"'))
            elif a in ("TRUE", "FALSE"):
                args.append(a == "TRUE")
            else:
                args.append(int(a))
    return {"act": m.group(1), "args": args}


def label_of(step):
    if not step["args"]:
        return step["act"]
    return "%s(%s)" % (step["act"], ",".join(('"%s"' % a) if isinstance(a, str) else str(a) for a in step["args"]))


def cfg_text(name, _specdir=None, **subst):
    """Text of spec/ProxySession/<name> (or of _specdir/<name>) with `Const = value` lines replaced."""
    with open(os.path.join(_specdir or SPECDIR, name)) as fh:
        txt = fh.read()
    for k, v in subst.items():
        txt, n = re.subn(r"(?m)^(\s*%s\s*=\s*).*$" % re.escape(k), lambda m: m.group(1) + str(v), txt)
        if n != 1:
            raise vlib.Inconclusive("cfg %s: constant %s not found" % (name, k))
    return txt


def tla_set(items):
    return "{" + ", ".join('"%s"' % i for i in items) + "}"


class Graph:
    def __init__(self, dotpath):
        nodes, edges, inits = vlib.parse_dot(dotpath)
        self.inits = sorted(inits)
        self.adj = collections.defaultdict(list)
        self.final = set()
        for (u, v, lab) in edges:
            if lab == "Finished":
                self.final.add(u)
                continue
            self.adj[u].append((lab, v))
        for u in self.adj:
            self.adj[u].sort()
        self.nstates = len(nodes)
        self.nedges = len(edges)

    def path(self, goals, rot=0):
        """Shortest path from the initial state that takes edges matching
        goals[0], goals[1], ... in this order (prefix match on the label) and
        then runs on to a final (AllOver) state.  `rot` rotates the successor
        order so that different seeds pick different shortest paths."""
        goals = list(goals) + [None]   # None: reach a final state
        start = (self.inits[0], 0)
        prev = {start: None}
        q = collections.deque([start])
        hit = None
        while q:
            u, k = q.popleft()
            if goals[k] is None and u in self.final:
                hit = (u, k)
                break
            succ = self.adj.get(u, [])
            if rot and succ:
                r = rot % len(succ)
                succ = succ[r:] + succ[:r]
            for lab, v in succ:
                k2 = k + 1 if (goals[k] is not None and lab.startswith(goals[k])) else k
                if (v, k2) not in prev:
                    prev[(v, k2)] = ((u, k), lab)
                    q.append((v, k2))
        if hit is None:
            return None
        labs = []
        cur = hit
        while prev[cur] is not None:
            cur, lab = prev[cur][0], prev[cur][1]
            labs.append(lab)
        labs.reverse()
        return [parse_label(l) for l in labs]


def dump_graph(chk, cfgname, _specdir=None, _module="ProxySession", **subst):
    txt = cfg_text(cfgname, _specdir=_specdir, **subst)
    name = "Dump_%s.cfg" % "_".join("%s%s" % (k, re.sub(r"\W", "", str(v))[:8]) for k, v in sorted(subst.items()))
    dot = os.path.join(vlib.scratch("dot"), name + ".dot")
    r = vlib.tlc(_specdir or SPECDIR, _module, name, workers=4, timeout=600, files={name: txt}, dump_dot=dot, keep_prints=False)
    chk.add_tlc(r)
    if r.error:
        raise vlib.Inconclusive("graph dump %s: TLC reported %s" % (name, r.error))
    g = Graph(dot)
    os.remove(dot)
    return g


def simulate(chk, cfgname, num, seed, depth=400, **subst):
    """Complete behaviours (ending in AllOver) sampled by `tlc -simulate`."""
    txt = cfg_text(cfgname, **subst)
    name = "Sim_%s.cfg" % "_".join("%s%s" % (k, re.sub(r"\W", "", str(v))[:8]) for k, v in sorted(subst.items()))
    d = vlib.scratch("sim-%s-%d" % (name, seed))
    r = vlib.tlc(SPECDIR, "ProxySession", name, workers=1, timeout=600, files={name: txt},
                 simulate="file=%s/sim,num=%d" % (d, num), depth=depth, seed=seed, keep_prints=False)
    chk.add_tlc(r)
    if r.error:
        raise vlib.Inconclusive("simulation %s: TLC reported %s" % (name, r.error))
    maxsess = int(re.search(r"(?m)^\s*MaxSess\s*=\s*(\d+)", txt).group(1))
    out = []
    for f in sorted(os.listdir(d), key=lambda x: [int(t) if t.isdigit() else t for t in re.split(r"(\d+)", x)]):
        if not f.startswith("sim_"):
            continue
        with open(os.path.join(d, f)) as fh:
            body = fh.read()
        labs = re.findall(r"(?m)^\\\* <(.+?) line \d+, col", body)
        steps = [parse_label(l) for l in labs if not l.startswith("Init")]
        steps = [s for s in steps if s["act"] != "Finished"]
        last = body[body.rfind("STATE_"):]
        hp = re.search(r"hpc = <<(.*?)>>", last, re.S)
        complete = ('mpc = "tick"' in last and re.search(r"\bcur = %d\b" % maxsess, last) is not None and hp is not None
                    and all(x.strip().strip('"') in ("none", "done") for x in hp.group(1).split(",")))
        if complete and steps:
            out.append(steps)
    return out


def cost_s(steps):
    """Real-time estimate of a behaviour: the poll ticker and the data channel timeout."""
    return POLL_S * sum(1 for s in steps if s["act"] == "Poll") + DCTIMEOUT_S * sum(1 for s in steps if s["act"] == "DCTimerFire") + 6


def sessions_of(steps):
    return sum(1 for s in steps if s["act"] == "Get")


# --------------------------------------------------------------------------
# trace validation

INVARIANTS = "TypeOK SlotRange CapacityHonoured ReleasedAtMostOnce ReleasedAtEnd NoEarlyRelease RetNeverBlocks CounterMatches ReportedOK RelayPolicy FullCapacityAgain"


_tv_lock = threading.Lock()
_tv_seq = [0]


def tlc_safe(module, cfgname, cfgtxt=None, data=None, workers=1, coverage=False, timeout=900, specdir=None):
    """Thread-safe TLC run on a private copy of spec/ProxySession (vlib.tlc
    numbers its scratch directories with an unlocked counter, so everything
    that runs next to the main thread goes through here)."""
    with _tv_lock:
        _tv_seq[0] += 1
        d = vlib.scratch("tv-%d" % _tv_seq[0])
    for f in os.listdir(specdir or SPECDIR):
        if f.endswith(".tla") or f == cfgname:
            shutil.copy(os.path.join(specdir or SPECDIR, f), d)
    if cfgtxt is not None:
        with open(os.path.join(d, cfgname), "w") as fh:
            fh.write(cfgtxt)
    if data is not None:
        with open(os.path.join(d, "trace.ndjson"), "w") as fh:
            fh.write(data)
    cmd = ["tlc", "-metadir", os.path.join(d, "meta"), "-workers", str(workers), "-config", cfgname]
    if coverage:
        cmd += ["-coverage", "1"]
    cmd.append(module + ".tla")
    env = dict(os.environ)
    env["JAVA_TOOL_OPTIONS"] = (env.get("JAVA_TOOL_OPTIONS", "") + " -Xss64m").strip()
    r = vlib.run(cmd, cwd=d, env=env, timeout=timeout)
    res = vlib.TLCResult()
    res.out, res.wall, res.cmd, res.dir = r.out, r.wall, " ".join(cmd[:1] + cmd[3:]), d
    m = None
    for m in re.finditer(r"(\d+) states generated, (\d+) distinct states found", r.out):
        pass
    if m:
        res.generated, res.distinct = int(m.group(1)), int(m.group(2))
    for line in r.out.splitlines():
        if line.startswith('"') and line.endswith('"'):
            try:
                res.prints.append(json.loads(json.loads(line)))
            except ValueError:
                pass
    if coverage:
        for m in re.finditer(r"^<(\w+) line \d+, col \d+ to line \d+, col \d+ of module (\w+)>: (\d+):(\d+)", r.out, re.M):
            res.coverage[m.group(1)] = (int(m.group(3)), int(m.group(4)))
    o = r.out
    if r.timed_out:
        raise vlib.Inconclusive("TLC timeout: %s" % res.cmd)
    m = re.search(r"Invariant (\S+) is violated", o)
    if m:
        res.error = "invariant:" + m.group(1)
    elif "Deadlock reached" in o:
        res.error = "deadlock"
    elif "Temporal properties were violated" in o:
        res.error = "temporal"
    elif "ostcondition" in o and ("is false" in o or "violated" in o):
        res.error = "postcondition"
    elif "Model checking completed. No error has been found." in o:
        res.error = None
    else:
        raise vlib.Inconclusive("TLC failed (rc=%s): %s\n%s" % (r.rc, res.cmd, o[-3000:]))
    shutil.rmtree(os.path.join(d, "meta"), ignore_errors=True)
    return res


def _tlc_trace(cfgtxt, data, timeout=600):
    return tlc_safe("ProxySession_Trace", "TraceRun.cfg", cfgtxt=cfgtxt, data=data, workers=1, timeout=timeout)


def validate(events, capacity, pattern, allow, asis=False):
    """TLC on ProxySession_Trace with the recorded events.  Returns (verdict,
    detail, tlcresult): verdict in accepted | rejected | invariant."""
    nsess = sum(1 for e in events if e.get("ev") == "tok.get") + 2
    txt = cfg_text("Trace.cfg", N=capacity, MaxSess=nsess, AsIs_D11="TRUE" if asis else "FALSE",
                   Pattern='"%s"' % pattern, AllowNonTLS="TRUE" if allow else "FALSE")
    data = "".join(json.dumps(e, separators=(",", ":")) + "\n" for e in events)
    r = _tlc_trace(txt, data)
    if r.error is None:
        return "accepted", None, r
    if r.error.startswith("invariant:"):
        return "invariant", r.error.split(":", 1)[1], r
    un = [p for p in r.prints if isinstance(p, dict) and "unexplained" in p]
    return "rejected", (un[0] if un else None), r


def validate_many(items, parallel=8):
    """items: list of (events, capacity, pattern, allow, asis) -> list of validate() results."""
    with concurrent.futures.ThreadPoolExecutor(max_workers=parallel) as ex:
        return list(ex.map(lambda it: validate(*it), items))
