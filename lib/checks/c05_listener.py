"""Listener part (server-side listener life cycle), called from the C05 check:

    from checks import c05_listener
    c05_listener.run_listener_part(chk, args)          # adds to chk, never sets the verdict itself
    c05_listener.replay_part(chk, rp)                  # for replay files with rp["kind"] == "listener"

spec/Listener/Listener.tla        Transport.Listen (caller, ListenAndServe goroutine, acceptSessions
                                  goroutine), SnowflakeListener.queueConn / Accept / Close at the grain of
                                  the channel operations; K session goroutines, acceptors, one or two Close
                                  calls at every point.  TLC: QueueLaw, NoDuplicate, DroppedStayDropped,
                                  Queue/AcceptErrOnlyAfterClose, CloseMeansClosed, NoPanic, QueueNeverClosed,
                                  ListenErrReported, NoStuck; liveness QueueReturns, AcceptReturns,
                                  CloseReturns, NoLeak (one WF per goroutine step).
spec/Listener/Listener_Trace.tla  every trace recorded from the real listener must be a behaviour of Listener.

Binding: (1) behaviours of GenSpec (commands in quiescent states) - edge cover and seeded walks of TLC's dumped
state graph, `tlc -simulate` of a larger configuration, counterexamples of the as-is / what-if configurations -
are executed against the real SnowflakeListener by harness/inpkg/server_lib/listener_verif_test.go (queue
capacity 1..2 through the struct literal Transport.Listen uses; capacity 65534 through the real
Transport.Listen on loopback, free and occupied port) with goroutine-dump quiescence; (2) herds of free-running
goroutines (sessions x acceptors x closers) record call/return histories; TLC accepts or rejects every trace."""
import collections
import json
import os
import random
import re

import extgraph
import vlib

SPECDIR = os.path.join(vlib.SPEC, "Listener")
HFILE = os.path.join(vlib.HARNESS, "inpkg", "server_lib", "listener_verif_test.go")
NS = 4                      # stream id = (k-1)*NS + j ; NStreams of spec/Listener/Trace.cfg
REAL_CAP = 65534            # capacity of the queue made by Transport.Listen
MAX_REPORT = 6

# Open findings of this part (entry format of known_findings.json).  None: the two defects found while
# building it were repaired in /repo (see notes/Listener.md).
KNOWN = []

INVS = ("TypeOK NoPanic QueueLaw NoDuplicate DroppedStayDropped QueueErrOnlyAfterClose AcceptErrOnlyAfterClose "
        "CloseMeansClosed QueueNeverClosed ListenErrReported NoStuck").split()
LIVE = "QueueReturns AcceptReturns CloseReturns NoLeak".split()

# (name, base configuration, constant overrides, expected verdict): configurations that MUST be violated
# - the properties are not vacuous, and the counterexamples are replayed on the real code
WHATIF = [
    ("asis-errchan", "MC_life.cfg", {"AsIs_ErrChan": "TRUE"}, "invariant:NoStuck", "Gen_listen.cfg"),
    ("asis-binderr", "MC_life.cfg", {"AsIs_BindErr": "TRUE"}, "invariant:ListenErrReported", "Gen_listen.cfg"),
    ("noonce", "MC_qa.cfg", {"Mut": '"noonce"'}, "invariant:NoPanic", "Gen_small.cfg"),
    ("closequeue", "MC_qa.cfg", {"Mut": '"closequeue"'}, "invariant:NoPanic", "Gen_small.cfg"),
    ("noclosedcase", "MC_qa.cfg", {"Mut": '"noclosedcase"'}, "invariant:NoStuck", "Gen_small.cfg"),
    ("acceptblind", "MC_qa.cfg", {"Mut": '"acceptblind"'}, "invariant:NoStuck", "Gen_small.cfg"),
    ("earlyonce", "MC_qa.cfg", {"Mut": '"earlyonce"'}, "invariant:CloseMeansClosed", None),
    ("peek", "MC_qa.cfg", {"Mut": '"peek"'}, "invariant:QueueLaw", "Gen_small.cfg"),
]
# liveness itself on the as-is / what-if models (thorough)
WHATIF_LIVE = [
    ("asis-errchan/live", "MC_life.cfg", {"AsIs_ErrChan": "TRUE"}, "NoLeak", "temporal:NoLeak"),
    ("noclosedcase/live", "MC_qa.cfg", {"Mut": '"noclosedcase"'}, "QueueReturns", "temporal:QueueReturns"),
    ("acceptblind/live", "MC_qa.cfg", {"Mut": '"acceptblind"'}, "AcceptReturns", "temporal:AcceptReturns"),
]


# --------------------------------------------------------------------------
# behaviours -> command schedules

def cmd_of(label):
    """TLC action label of a GenSpec command -> harness command"""
    m = re.match(r'^(\w+?)(?:\((.*)\))?$', label)
    if not m:
        return None
    a, arg = m.group(1), (m.group(2) or "").strip('"')
    if a in ("GListen", "LStart"):
        return {"op": "Listen", "bind": arg}
    if a in ("GStream", "SStream"):
        return {"op": "Stream", "k": int(arg)}
    if a in ("GAccept", "ACall"):
        return {"op": "Accept", "a": int(arg)}
    if a in ("GClose", "CCall"):
        return {"op": "Close", "c": int(arg)}
    return None


def key_of(s):
    if s["mode"] == "herd":
        return ("herd", s["cap"], json.dumps(s["herd"], sort_keys=True))
    return ("gated", s["ctor"], s["cap"]) + tuple((x["op"], x.get("k"), x.get("a"), x.get("c"), x.get("bind")) for x in s["steps"])


def nontrivial(s):
    """non-trivial: a Close call races with or precedes other operations (the property's critical kind)"""
    if s["mode"] == "herd":
        return bool(s["herd"]["closers"])
    ops = [x["op"] for x in s["steps"]]
    return "Close" in ops and len(ops) > 1


def dump_graph(chk, cfg):
    d = vlib.scratch("lst-dot")
    dot = os.path.join(d, cfg.replace(".cfg", ".dot"))
    r = vlib.tlc(SPECDIR, "Listener", cfg, workers=1, timeout=900, dump_dot=dot, keep_prints=False, heap="3g")
    if r.error:
        raise vlib.Inconclusive("Listener GenSpec %s: %s\n%s" % (cfg, r.error, r.out[-1500:]))
    return extgraph.Graph(dot, cmd_of), r


def simulate(chk, cfg, num, depth):
    d = vlib.scratch("lst-sim-%s-%d" % (cfg, chk.seed))
    r = vlib.tlc(SPECDIR, "Listener", cfg, workers=1, timeout=600, simulate="file=%s/t,num=%d" % (d, num),
                 depth=depth, seed=chk.seed, keep_prints=False)
    if r.error:
        raise vlib.Inconclusive("Listener simulation %s: %s" % (cfg, r.error))
    out = []
    for f in sorted(os.listdir(d)):
        steps = []
        with open(os.path.join(d, f)) as fh:
            for line in fh:
                m = re.match(r'^\\\* <(\w+(?:\([^)]*\))?) line ', line)
                if m and m.group(1).startswith("G"):
                    c = cmd_of(m.group(1))
                    if c is not None:
                        steps.append(c)
        if steps:
            out.append(steps)
    return r, out


def herd_scheds(rng, n):
    out = []
    for _ in range(n):
        k = rng.randint(1, 4)
        a = rng.randint(1, 3)
        out.append({"mode": "herd", "ctor": "minimal", "cap": rng.choice([1, 1, 2, 2, 16]),
                    "herd": {"sessions": [rng.randint(1, NS) for _ in range(k)],
                             "acceptors": [rng.randint(1, 5) for _ in range(a)],
                             "closers": sorted(rng.choice([0, 0, 1, 2, 5, 10, 30, 100, 300]) for _ in range(rng.choice([1, 2, 2])))}})
    return out


# --------------------------------------------------------------------------
# model checking

def model_check(chk, q):
    """design-level model checking + vacuity guards; returns the counterexample schedules of the guards"""
    cfgs = ["MC_qa.cfg", "MC_qb.cfg", "MC_life.cfg"] if q else \
           ["MC_qa.cfg", "MC_qb.cfg", "MC_life.cfg", "MC_mid.cfg", "MC_life_mid.cfg", "MC_full.cfg", "MC_full_cap2.cfg"]
    jobs = []
    for cfg in cfgs:
        big = cfg.startswith("MC_full")
        jobs.append((cfg, extgraph.Bg(vlib.tlc, SPECDIR, "Listener", cfg, workers=(6 if big else 2), timeout=1500, keep_prints=False,
                                      coverage=(not q and cfg in ("MC_mid.cfg", "MC_life_mid.cfg")), heap="4g" if big else None)))
    guards = []
    for name, base, over, want, gen in WHATIF:
        # where the what-if is visible at the replay grain (GenSpec: a sub-behaviour-set of Spec) it is checked
        # there - the counterexample is then a schedule for the real code; thorough also checks it on Spec
        gbg = bg = None
        if gen is not None:
            gconsts = extgraph.with_constants(extgraph.read_cfg_constants(os.path.join(SPECDIR, gen)), **over)
            gbg = extgraph.Bg(extgraph.tlc_raw, None, SPECDIR, "Listener", "WG_%s.cfg" % name, extgraph.cfg_text(gconsts, "GenSpec", invariants=INVS), workers=1, timeout=300)
        if gen is None or not q:
            consts = extgraph.with_constants(extgraph.read_cfg_constants(os.path.join(SPECDIR, base)), **over)
            bg = extgraph.Bg(extgraph.tlc_raw, None, SPECDIR, "Listener", "WI_%s.cfg" % name, extgraph.cfg_text(consts, "Spec", invariants=INVS), workers=1, timeout=300)
        guards.append((name, want, gen, gbg, bg))
    lives = []
    if not q:
        for name, base, over, prop, want in WHATIF_LIVE:
            consts = extgraph.with_constants(extgraph.read_cfg_constants(os.path.join(SPECDIR, base)), **over)
            txt = extgraph.cfg_text(consts, "Spec", invariants=["TypeOK"], properties=[prop])
            lives.append((name, want, extgraph.Bg(extgraph.tlc_raw, None, SPECDIR, "Listener", "WL_%s.cfg" % name.replace("/", "_"), txt, workers=1, timeout=600)))
    taken = {}
    for cfg, bg in jobs:
        r = bg.get()
        chk.add_tlc(r)
        chk.note("TLC Listener %s: %d distinct states, error=%s (%.0fs)" % (cfg, r.distinct, r.error, r.wall))
        if r.error:
            chk.fail("Listener model check %s failed in the model alone (no verdict): %s\n%s" % (cfg, r.error, r.out[-2500:]))
        for a, (d, t) in r.coverage.items():
            taken[a] = taken.get(a, 0) + t
    if taken:
        never_ok = {"SQueuePanic", "CCloseQueue"}      # what-if steps, disabled when Mut = "none"
        zero = sorted(a for a, t in taken.items() if t == 0 and a not in never_ok and a not in ("Init",))
        chk.cov.setdefault("coverage_zero_actions", [])
        chk.cov["coverage_zero_actions"] += ["Listener:" + z for z in zero]
        if zero:
            chk.fail("vacuity: Listener actions never taken in the configurations run with -coverage: %s" % zero)
    cex = []
    for name, want, gen, gbg, bg in guards:
        if bg is not None:
            v, r = bg.get()
            chk.add_tlc(r)
            if v != want:
                chk.fail("vacuity: Listener what-if configuration %s gives %s, expected %s" % (name, v, want))
        cex.append((name, want, gen, gbg))
    for name, want, bg in lives:
        v, r = bg.get()
        chk.add_tlc(r)
        if v != want:
            chk.fail("vacuity: Listener what-if configuration %s gives %s, expected %s" % (name, v, want))
    chk.cov["listener_whatif"] = [g[0] for g in guards] + [x[0] for x in lives]
    return cex


def guard_schedules(chk, cex):
    """minimal failing schedules of the what-if models at the replay grain (GenSpec): on the unchanged code they
    must run WITHOUT the failure the what-if model predicts - they are the schedules most likely to expose
    the corresponding mutation of the code"""
    out = []
    for name, want, gen, gbg in cex:
        if gbg is None:
            continue
        v, r = gbg.get()
        chk.add_tlc(r)
        if v != want:
            chk.fail("vacuity: Listener what-if %s gives %s at the replay grain (%s), expected %s" % (name, v, gen, want))
            continue
        steps = [c for c in (cmd_of(l) for l in extgraph.cex_labels(r.out) if l.startswith("G")) if c]
        if steps:
            listen = gen == "Gen_listen.cfg"
            out.append({"mode": "gated", "ctor": "listen" if listen else "minimal", "cap": REAL_CAP if listen else 1, "steps": steps, "src": "cex:" + name})
    return out


# --------------------------------------------------------------------------
# harness + trace validation

def harness_binary():
    return vlib.go_test_compile_inpkg("server/lib", [HFILE], "listener.test", linkflag=True)


def run_schedules(binary, scheds, tag, patience_ms=None, workers=4):
    d = vlib.scratch("lst-run")
    inp, outp = os.path.join(d, tag + ".sched.ndjson"), os.path.join(d, tag + ".traces.ndjson")
    vlib.write_ndjson(inp, [{k: s[k] for k in ("id", "mode", "ctor", "cap", "ns", "steps", "herd") if k in s} for s in scheds])
    env = dict(os.environ)
    env.update({"VERIF_LST_SCHED": inp, "VERIF_LST_OUT": outp, "VERIF_LST_WORKERS": str(workers)})
    if patience_ms:
        env["VERIF_LST_PATIENCE_MS"] = str(patience_ms)
    r = vlib.run([binary, "-test.run=^TestVerifListener$", "-test.timeout=600s", "-test.count=1"], cwd=d, env=env, timeout=660)
    if r.timed_out or r.rc != 0 or "VERIF_LST schedules=" not in r.out:
        raise vlib.Inconclusive("listener harness failed (rc=%s timeout=%s):\n%s" % (r.rc, r.timed_out, r.out[-3000:]))
    traces = vlib.read_ndjson(outp)
    if len(traces) != len(scheds):
        raise vlib.Inconclusive("listener harness returned %d traces for %d schedules" % (len(traces), len(scheds)))
    return traces


def brief(e):
    if e.get("ev") not in ("obs", "final"):
        return json.dumps(e, sort_keys=True)
    return "%s qlen=%d closed=%s sessions=%s acceptors=%s closers=%s srv=%s asg=%s" % (
        e["ev"], e["qlen"], e["closed"], ["%s/%s/%d" % (x["st"], x["res"], x["n"]) for x in e["ss"]],
        ["%s/%s%s/%d" % (x["st"], x["res"], (":%d" % x["s"]) if x["res"] == "stream" else "", x["n"]) for x in e["as"]],
        [x["st"] for x in e["cs"]], e["srv"], e["asg"])


def _panic_text(o):
    return re.sub(r"[^a-z ]", "", o.get("panic", "").lower()).strip().replace(" ", "-")[:40]


def signature(trace, hw):
    """canonical signature of a rejected trace from its first unexplained event: the abstract situation only
    (which operation, parked where or returning what, before or after Close), never ids or counts"""
    evs = trace["events"]
    e = evs[hw - 1] if 0 < hw <= len(evs) else {}
    before = evs[:max(hw - 1, 0)]
    prev_obs = next((x for x in reversed(before) if x.get("ev") in ("obs", "final")), None)
    prev_cmd = next((x for x in reversed(before) if x.get("ev") in ("Listen", "Stream", "Accept", "Close")), {})
    ev = e.get("ev")
    if ev == "ListenRet":
        bind = next((x.get("bind") for x in reversed(before) if x.get("ev") == "Listen"), "?")
        if bind == "fail" and e.get("res") == "ok":
            return "Listener/listen:bind-error-not-reported"
        return "Listener/listen:returned-%s/bind=%s" % (e.get("res"), bind)
    if ev in ("obs", "final"):
        groups = (("queueConn", e["ss"], prev_obs and prev_obs["ss"]), ("Accept", e["as"], prev_obs and prev_obs["as"]),
                  ("Close", e["cs"], prev_obs and prev_obs["cs"]))
        for name, now, was in groups:
            for i, o in enumerate(now):
                if o["st"] == "panic" and not (was and i < len(was) and was[i]["st"] == "panic"):
                    return "Listener/panic:%s/%s/%s" % (name, "closed" if (prev_obs and prev_obs["closed"]) else "open", _panic_text(o))
        closed = e["closed"]
        close_done = any(x["st"] == "done" for x in e["cs"])
        for o in e["as"]:
            if o["st"] == "idle" and o["res"] in ("temp", "nil", "both"):
                return "Listener/accept:%s-result/%s" % (o["res"], "closed" if closed else "open")
            if o["st"] == "idle" and o["res"] == "perm" and not closed:
                return "Listener/accept:error-before-Close"
            if o["st"] == "idle" and o["res"] == "stream" and o["s"] == 0:
                return "Listener/accept:unknown-conn"
        for o in e["ss"]:
            if o["st"] == "idle" and o["res"] == "err" and not closed:
                return "Listener/queueConn:error-before-Close"
        if any(x["st"] == "done" and x["res"] != "nil" for x in e["cs"]):
            return "Listener/close:returned-error"
        if closed and any(o["st"] == "select" for o in e["ss"]):
            return "Listener/hang:queueConn@select/after-Close"
        if closed and any(o["st"] == "select" for o in e["as"]):
            return "Listener/hang:Accept@select/after-Close"
        if any(o["st"] == "once" for o in e["cs"]):
            return "Listener/hang:Close@once"
        if close_done and e["srv"] == "senderr":
            return "Listener/leak:Listen.func1@errChan-send/after-Close"
        if close_done and e["srv"] == "serving":
            return "Listener/leak:ListenAndServe-still-serving/after-Close"
        if close_done and e["asg"] == "accepting":
            return "Listener/leak:acceptSessions-still-accepting/after-Close"
        if close_done and not closed:
            return "Listener/close:returned-but-not-closed"
        return "Listener/unexplained:after-%s/q=%s/closed=%s/sess=%s/acc=%s/cls=%s/srv=%s/asg=%s" % (
            prev_cmd.get("ev", "?"), "empty" if e["qlen"] == 0 else ("full" if e["qlen"] >= trace["cap"] else "some"), closed,
            "+".join(sorted({"%s:%s" % (x["st"], x["res"]) for x in e["ss"]})), "+".join(sorted({"%s:%s" % (x["st"], x["res"]) for x in e["as"]})),
            "+".join(x["st"] for x in e["cs"]), e["srv"], e["asg"])
    if ev == "RetAccept":
        if e["res"] == "stream":
            if e["s"] == 0:
                return "Listener/herd/accept:unknown-conn"
            if any(x.get("ev") == "RetAccept" and x.get("res") == "stream" and x.get("s") == e["s"] for x in before):
                return "Listener/herd/accept:stream-returned-twice"
            return "Listener/herd/accept:stream-unexplained"
        closing = any(x.get("ev") == "Close" for x in before)
        return "Listener/herd/accept:%s-result/%s" % (e["res"], "closing" if closing else "open")
    if ev == "RetStream":
        closing = any(x.get("ev") == "Close" for x in before)
        return "Listener/herd/queueConn:%s/%s" % (e["res"], "closing" if closing else "open")
    if ev == "RetClose":
        return "Listener/herd/close:%s" % e["res"]
    return "Listener/unexplained:command-%s" % ev


def trace_cfg(cap, ctor):
    consts = extgraph.with_constants(extgraph.read_cfg_constants(os.path.join(SPECDIR, "Trace.cfg")),
                                     Cap=str(cap), WithListen="TRUE" if ctor == "listen" else "FALSE")
    return extgraph.cfg_text(consts, "TSpec", constraint="Mark", post="Post",
                             invariants="TNoPanic TQueueLaw TNoDuplicate TDropped TErrAfterClose TCloseMeansClosed TListenErrReported TNoStuck".split())


def validate(chk, traces, tag):
    """TLC decides, per trace, whether Listener explains it.  Returns (accepted, [(trace, hw)] rejected)."""
    groups = collections.defaultdict(list)
    for t in traces:
        if t.get("note"):
            raise vlib.Inconclusive("listener harness: schedule %s: %s" % (t["id"], t["note"]))
        groups[(t["cap"], t["ctor"])].append(t)
    jobs = []
    for (cap, ctor), ts in sorted(groups.items()):
        d = vlib.scratch("lst-tv")
        f = os.path.join(d, "%s-%s-%d.ndjson" % (tag, ctor, cap))
        vlib.write_ndjson(f, ts)
        cfgname = "TV_%s_%d.cfg" % (ctor, cap)
        jobs.append((cap, ctor, ts, extgraph.Bg(vlib.tlc, SPECDIR, "Listener_Trace", cfgname, workers=1, timeout=900,
                                                files={"traces.ndjson": f, cfgname: trace_cfg(cap, ctor)}, heap="3g")))
    accepted, rejected = 0, []
    for cap, ctor, ts, bg in jobs:
        r = bg.get()
        chk.add_tlc(r)
        if r.error:
            raise vlib.Inconclusive("Listener trace validation cap=%d %s (model only): %s\n%s" % (cap, ctor, r.error, r.out[-2500:]))
        rej = extgraph.trace_verdict(r, len(ts), "Listener cap=%d %s" % (cap, ctor))
        accepted += len(ts) - len(rej)
        chk.note("TLC Listener_Trace cap=%d ctor=%s: %d traces, %d rejected, %d states (%.0fs)" % (cap, ctor, len(ts), len(rej), r.distinct, r.wall))
        byid = {t["id"]: t for t in ts}
        rejected += [(byid[tid], hw) for tid, hw in sorted(rej.items())]
    return accepted, rejected


def report(chk, binary, rejected, byid):
    """turn rejected traces into violations; a rejection that rests on waiting (hang / leak) is confirmed by running
    the same schedule alone with a doubled patience first"""
    seen = collections.Counter()
    for t, hw in rejected:
        sig = signature(t, hw)
        seen[sig] += 1
        if seen[sig] > 1:
            continue
        if len(chk.violations) >= MAX_REPORT and not any(k.get("key") == sig for k in chk.known):
            continue
        sched = byid[t["id"]]
        if "/hang:" in sig or "/leak:" in sig:
            again = run_schedules(binary, [dict(sched, id=1)], "confirm", patience_ms=6000, workers=1)
            _, rej2 = validate(chk, again, "confirm")
            if not rej2 or signature(rej2[0][0], rej2[0][1]) != sig:
                chk.fail("Listener: %s was seen once and not again when the schedule ran alone with doubled patience: %s" % (
                    sig, json.dumps(sched.get("steps") or sched.get("herd"))))
                continue
        e = t["events"][hw - 1] if hw <= len(t["events"]) else {}
        what = ("the real SnowflakeListener (%s, queue capacity %d) did something spec/Listener does not allow: first unexplained "
                "event #%d: %s; schedule: %s" % (t["ctor"], t["cap"], hw, brief(e), json.dumps(sched.get("steps") or sched.get("herd"))))
        chk.violation(sig, what, {"kind": "listener", "schedule": sched, "trace": t, "first_unexplained": hw})
    for sig, n in seen.items():
        if n > 1:
            chk.note("  %s: %d traces" % (sig, n))


# --------------------------------------------------------------------------

def run_listener_part(chk, args):
    chk.known.extend(k for k in KNOWN if k not in chk.known)
    q = chk.tier == "quick"
    rng = random.Random(chk.seed * 7919 + 505)
    vlib.repo_modfile()
    build = extgraph.Bg(harness_binary)
    scheds, seen = [], set()

    def add(s):
        s = dict(s, ns=NS)
        k = key_of(s)
        if (s["mode"] == "gated" and not s["steps"]) or k in seen:
            return
        seen.add(k)
        s["id"] = len(scheds) + 1
        scheds.append(s)

    try:
        # every TLC job of the generation runs next to the model checking
        plans = [("Gen_small.cfg", "minimal", 1, 10 ** 6, 150), ("Gen_listen.cfg", "listen", REAL_CAP, 24 if q else 10 ** 6, 6 if q else 40)]
        if not q:
            # (the full edge covers are 5 400 + 7 200 paths: 4 min of replay; a seeded part of them is taken)
            plans += [("Gen_cap1.cfg", "minimal", 1, 1200, 600), ("Gen_cap2.cfg", "minimal", 2, 1200, 600)]
        sims = (("Gen_sim.cfg", 2, 250),) if q else (("Gen_sim.cfg", 2, 1200),)
        graph_jobs = [(plan, extgraph.Bg(dump_graph, chk, plan[0])) for plan in plans]
        sim_jobs = [(cfg, cap, extgraph.Bg(simulate, chk, cfg, num, 50)) for cfg, cap, num in sims]
        cex = model_check(chk, q)
        gs = guard_schedules(chk, cex)
        chk.note("Listener: %d what-if / as-is configurations violate exactly the property they target; %d counterexample schedules" % (len(chk.cov.get("listener_whatif", [])), len(gs)))
        for s in gs:
            add(s)
            if s["ctor"] == "minimal":
                add(dict(s, cap=2))
        stats = {}
        # (a) state graphs of the small configurations: edge cover + seeded walks
        for (cfg, ctor, cap, limit, nwalk), bg in graph_jobs:
            g, r = bg.get()
            chk.add_tlc(r)
            paths, total, covered = g.covering(rng, limit, maxcmds=14 if ctor == "listen" else 24)
            for p in paths:
                add({"mode": "gated", "ctor": ctor, "cap": cap, "steps": g.steps(p), "src": "cover:" + cfg})
            for p in g.walks(rng, nwalk, 16):
                add({"mode": "gated", "ctor": ctor, "cap": cap, "steps": g.steps(p), "src": "walk:" + cfg})
            stats[cfg] = {"states": r.distinct, "edges": len(g.edges), "command_edges": total, "command_edges_covered": covered, "paths": len(paths)}
            chk.note("Listener GenSpec %s: %d states, %d edges, %d/%d command edges covered by %d paths" % (cfg, r.distinct, len(g.edges), covered, total, len(paths)))
        # (b) simulation of a larger configuration
        for cfg, cap, bg in sim_jobs:
            r, behs = bg.get()
            chk.add_tlc(r)
            for steps in behs:
                add({"mode": "gated", "ctor": "minimal", "cap": cap, "steps": steps, "src": "simulate:" + cfg})
        # (c) herds
        for s in herd_scheds(rng, 300 if q else 2000):
            add(dict(s, src="herd"))
        chk.cov.setdefault("generation", {}).update({"Listener:" + k: v for k, v in stats.items()})
        if len(scheds) < 300:
            raise vlib.Inconclusive("vacuous: only %d listener schedules generated" % len(scheds))
        binary = build.get()
        traces = run_schedules(binary, scheds, "main")
        byid = {s["id"]: s for s in scheds}
        skipped = sum(t["skipped"] for t in traces)
        ncmd = sum(len(s.get("steps", ())) for s in scheds)
        nlisten = sum(1 for s in scheds if s["ctor"] == "listen")
        nherd = sum(1 for s in scheds if s["mode"] == "herd")
        chk.note("Listener: replayed %d schedules on the real listener (%d gated with %d commands, %d of them through the real Transport.Listen; "
                 "%d herds; %d commands not applicable)" % (len(scheds), len(scheds) - nherd, ncmd, nlisten, nherd, skipped))
        if skipped * 5 > max(ncmd, 1):
            raise vlib.Inconclusive("more than 20%% of the listener commands (%d of %d) were not applicable: the model does not describe the code" % (skipped, ncmd))
        caps = {t["info"].get("queue_cap") for t in traces if t["ctor"] == "listen" and t.get("info", {}).get("listener")}
        if caps - {REAL_CAP}:
            chk.note("Listener: Transport.Listen made a queue of capacity %s (the model of the real constructor assumes %d: "
                     "with fewer places queueConn can block while the listener is open)" % (sorted(caps), REAL_CAP))
            chk.cov["listener_queue_cap"] = sorted(caps)
        accepted, rejected = validate(chk, traces, "main")
        report(chk, binary, rejected, byid)
        chk.cov["evaluations"] += len(scheds)
        chk.cov["distinct_nontrivial"] += sum(1 for s in scheds if nontrivial(s))
        chk.cov["traces_validated_against_impl"] += accepted
        chk.cov["listener"] = {"schedules": len(scheds), "herds": nherd, "through_real_Listen": nlisten, "commands_skipped": skipped,
                               "accepted": accepted, "rejected": len(rejected)}
        for s in [x for x in scheds if x["ctor"] == "listen"][:1] + [x for x in scheds if x["mode"] == "herd"][:1]:
            t = next(t for t in traces if t["id"] == s["id"])
            chk.sample({"listener_schedule": {k: s[k] for k in ("mode", "ctor", "cap", "src") if k in s}, "steps": s.get("steps") or s.get("herd"),
                        "last_observation": brief(t["events"][-1]) if t["events"] else None}, limit=5)
    except vlib.Inconclusive as e:
        chk.fail(str(e))
        try:
            build.get()
        except BaseException:   # noqa: BLE001 - already failing
            pass
    chk.assumptions += [
        "Listener: gated replays issue commands only when all operation goroutines are parked (GenSpec); finer interleavings are covered by "
        "TLC on the model and by the free-running herds, whose call/return histories TLC must explain",
        "Listener: streams are inert net.Conn values wrapped in SnowflakeClientConn exactly as acceptStreams does; kcp-go/smux sessions are "
        "not run here (the C05 core rig runs them through the same listener)",
        "Listener: the 100 ms timer of Transport.Listen outlasts the bind attempt of ListenAndServe (a bind failure reaches the select first)",
        "Listener: after a Close call returned, Listen's goroutines get 3 s (6 s in the confirmation run) to leave their accept calls before they are reported as still there",
        "Listener: goroutines of third-party code kept alive because nothing closes handler.pconn (kcp monitor, ClientMap sweeper) are outside the model",
    ]


def replay_part(chk, rp):
    s = dict(rp["schedule"], id=1)
    binary = harness_binary()
    traces = run_schedules(binary, [s], "replay", workers=1)
    accepted, rejected = validate(chk, traces, "replay")
    report(chk, binary, rejected, {1: s})
    chk.cov["evaluations"] += 1
    chk.cov["traces_validated_against_impl"] += accepted


# standalone use (debugging): bin/check C05_LISTENER
LEVEL = "model_checking"


def run(chk, args):
    if args.replay:
        with open(args.replay) as fh:
            return replay_part(chk, json.load(fh)["replay"])
    run_listener_part(chk, args)
    chk.cov["rule"] = "one evaluation = one schedule executed on the real SnowflakeListener and judged by TLC; non-trivial = contains a Close call next to other operations"
