"""C16 - proxy honours its capacity and never leaks a session slot.
spec/ProxySession: TLC model-checks the slot accounting of proxy/lib (tokens,
Start/runSession/OnDataChannel/datachannelHandler) for capacities 1-3 over all
interleavings of the exit paths; behaviours of the replayable sub-model
(environment acts at rest) are taken from the dot dump (goal-directed maximal
paths) and from `tlc -simulate`; each behaviour is replayed against the real
SnowflakeProxy.Start() (one proxy per test process, scripted broker, harness
pion clients, relay listeners, gates in the timeout branch and at the start
of the handler); TLC validates every recorded event log against
ProxySession_Trace with the property invariants switched on."""
import json
import os
import threading
import time

import vlib
import proxyrig as pr

LEVEL = "model_checking"
KNOWN = []          # D11 was repaired (fix commit in /repo, see notes/C16.md); nothing open
TEST = "TestVerifC16Replay"
STALE_MS = 25000   # see judge(): ResponseHeaderTimeout of the proxy's transport is 30 s

# Hand-picked targets for the goal-directed walk of the dot dump: (capacity,
# name, [edge-label prefixes to be taken in this order]).  The walk continues
# to a state where every session of the bound is over.
GOALS = [
    # D11: the data channel opens while the main loop is in its timeout branch; the handler decides first ...
    (1, "d11-handler-first", ["AnswerOK", "DCTimerFire", "DCOpen", "HandlerStart", "DCTimeoutRelease", "Poll"]),
    # ... or runSession decides first and the handler must stand down
    (2, "d11-main-first", ["AnswerOK", "DCTimerFire", "DCOpen", "DCTimeoutRelease", "MainReleaseTake", "HandlerStart", "Poll"]),
    # the same window on the answer-failure path (broker says "client gone"/500 although the client connected)
    (1, "d11b-handler-first", ["PCOk", "DCOpen", "HandlerStart", "HandlerDial", "AnswerFail", "Poll"]),
    (2, "d11b-main-first", ["PCOk", "DCOpen", "AnswerFail", "MainReleaseTake", "HandlerStart", "Poll"]),
    # capacity 1: the (N+1)-th poll only after a release
    (1, "cap1-blocked-get", ["RelayAccept(1)", "GetInc", "RelayEnd(1)", "HandlerReleaseTake(1)", "Get", "Poll"]),
    # capacity 2: two relayed sessions, the loop blocks, they end in the other order
    (2, "cap2-overlap", ["RelayAccept(1)", "RelayAccept(2)", "GetInc", "RelayEnd(2)", "Get", "Poll", "RelayEnd(1)"]),
    # the cheap exits, one after the other
    (1, "exits-a", ["BadBrokerResponse", "OfferUndecodable", "RelayRejected"]),
    (1, "exits-b", ["NoOffer", "PCFail", "AnswerFail", "RelayDialFail"]),
    # plain timeout, nobody opens
    (2, "timeout-plain", ["AnswerOK", "DCTimerFire", "DCTimeoutRelease", "MainReleaseTake", "Poll", "RelayAccept", "RelayEnd"]),
    # the whole relayed connection is over before the broker answers the /answer post
    (2, "served-before-answer", ["PCOk", "DCOpen", "RelayAccept", "RelayEnd", "HandlerReleaseTake", "AnswerOK", "DCSeen", "Poll"]),
    (2, "refused-then-served", ["RelayDialFail", "HandlerReleaseTake", "Poll", "RelayAccept", "Poll", "RelayEnd"]),
]
QUICK_GOALS = {"d11-handler-first", "d11-main-first", "d11b-handler-first", "d11b-main-first", "cap1-blocked-get",
               "cap2-overlap", "exits-a", "exits-b", "served-before-answer"}
CRITICAL = {"BadBrokerResponse", "OfferUndecodable", "RelayRejected", "PCFail", "AnswerFail", "DCTimerFire", "RelayDialFail", "NoOffer"}


def mk_plan(name, capacity, steps, seed, pattern="suffix", allow=True):
    return {"name": name, "capacity": capacity, "pattern": pattern, "allow": allow, "seed": seed, "steps": steps,
            "epilogue": True, "wait_ms": 40000}


# Rejection classes of runSession's relay-URL test, replayed with AllowNonTLSRelay = FALSE so that the hostname
# rule and the scheme rule are exercised separately (a URL whose host is inside the pattern but whose scheme is not
# wss; a host outside; an unparsable URL ...).  (pattern, [chunks of classes, one session each]); "empty" is the
# operator's own relay (accepted and served).  Every chunk is one proxy process.
REJECT_QUICK = [("suffix", [["in_ws", "out_wss", "unparsable"], ["in_https", "upper_wss", "out_ws"],
                            ["out_inpath", "ui_in_at_out", "opaque"], ["empty", "in_ws", "empty"]])]
REJECT_THOROUGH = REJECT_QUICK + [
    ("any", [["in_ws", "in_https", "out_ws"], ["unparsable", "out_ws", "empty"]]),          # host always passes "$": scheme rule alone
    ("exact", [["sub_wss", "glue_wss", "upper_wss"], ["in_ws", "ui_in_at_out", "opaque"]]),  # host rule of an exact pattern
]


def reject_plans(chk, quick):
    plans = []
    for pattern, chunks in (REJECT_QUICK if quick else REJECT_THOROUGH):
        classes = sorted(set(c for ch in chunks for c in ch))
        g = pr.dump_graph(chk, "Gen_reject.cfg", Pattern='"%s"' % pattern, Classes=pr.tla_set(classes))
        for i, chunk in enumerate(chunks):
            goal = []
            for k, c in enumerate(chunk, 1):
                goal.append('Offer("%s","good","real")' % c)
                goal += ["RelayAccept(%d)" % k, "RelayEnd(%d)" % k, "HandlerReleaseTake(%d)" % k] if c == "empty" else ['RelayRejected("%s")' % c, "MainReleaseTake"]
            steps = g.path(goal, rot=chk.seed - 1)
            if steps is None:
                raise vlib.Inconclusive("vacuity: Gen_reject (pattern %s) has no behaviour for the classes %s" % (pattern, chunk))
            plans.append(mk_plan("reject-%s-%d-n%d" % (pattern, i, 1 + (chk.seed + i) % 2), 1 + (chk.seed + i) % 2, steps, chk.seed, pattern=pattern, allow=False))
    return plans


def score(steps):
    """Richness of a sampled behaviour: distinct action kinds, plus the largest
    number of relayed sessions open while the loop polls."""
    kinds = set(s["act"] for s in steps)
    open_now, best = set(), 0
    for s in steps:
        if s["act"] == "RelayAccept":
            open_now.add(s["args"][0])
        elif s["act"] == "RelayEnd":
            open_now.discard(s["args"][0])
        elif s["act"] == "Poll":
            best = max(best, len(open_now))
    return len(kinds) + 3 * best


def window_ends(steps):
    """By how much the slot counter falls, from 8 or more to below 8, between
    two attempts of ONE pollOffer call (Poll ... sessions end ... NoOffer
    Poll): the reported load has to follow it down.  0 = no such window."""
    clients, at_poll, best = 0, None, 0
    for s in steps:
        a = s["act"]
        if a == "GetInc":
            clients += 1
            at_poll = None
        elif a in ("MainReleaseDec", "HandlerReleaseDec"):
            clients -= 1
        elif a == "Poll":
            at_poll = clients
        elif a == "NoOffer":
            if at_poll is not None and at_poll >= 8 and clients < 8:
                best = max(best, at_poll - clients)
    return best


# capacity 9, eight slots taken by the rig itself: the first attempt of a pollOffer call reports 8, seven slots
# are freed while that request is held, the broker says "no match", the next attempt of the SAME call must
# not report 8 any more
PHANTOM_GOAL = ["Poll"] + ["PhantomGet"] * 8 + ["BadBrokerResponse", "Poll"] + ["PhantomRet"] * 7 + ["NoOffer", "Poll"]


def gen_plans(chk, quick):
    plans = []
    g = pr.dump_graph(chk, "Gen_phantom.cfg")
    steps = g.path(PHANTOM_GOAL, rot=chk.seed - 1)
    if steps is None:
        raise vlib.Inconclusive("vacuity: no behaviour of Gen_phantom takes the phantom-session goal")
    plans.append(mk_plan("phantom-stale-load-n9", 9, steps, chk.seed))
    plans += reject_plans(chk, quick)
    graphs = {}
    for cap in (1, 2):
        g = pr.dump_graph(chk, "Gen_small.cfg", N=cap, MaxNoOffer=1 if cap == 1 else 0)
        graphs[cap] = g
        chk.note("dot dump capacity %d: %d states, %d edges, %d final" % (cap, g.nstates, g.nedges, len(g.final)))
    for cap, name, goals in GOALS:
        if quick and name not in QUICK_GOALS:
            continue
        steps = graphs[cap].path(goals, rot=chk.seed - 1)
        if steps is None:
            raise vlib.Inconclusive("vacuity: no behaviour of the model takes %s in order (goal %s)" % (goals, name))
        plans.append(mk_plan("%s-n%d" % (name, cap), cap, steps, chk.seed))
    del graphs
    # sampled behaviours
    budget = 58 if quick else 115
    per_cap = 2 if quick else 10
    for cap in (1, 2, 3):
        sims = pr.simulate(chk, "Gen_sim.cfg", 40 if quick else 150, chk.seed * 1000 + cap, N=cap,
                           MaxSess=6 if quick else 10, MaxNoOffer=1 if quick else 2, MaxTimeouts=1 if quick else 2)
        sims = [s for s in sims if pr.cost_s(s) <= budget]
        order = sorted(range(len(sims)), key=lambda i: (-score(sims[i]), i))
        seen, took = set(), 0
        for i in order:
            key = " ".join(pr.label_of(s) for s in sims[i])
            if key in seen:
                continue
            seen.add(key)
            plans.append(mk_plan("sim-n%d-%d" % (cap, i), cap, sims[i], chk.seed))
            took += 1
            if took >= per_cap:
                break
        if took == 0:
            raise vlib.Inconclusive("vacuity: no complete sampled behaviour within the time budget for capacity %d" % cap)
    if not quick:
        # capacity 9: eight relayed sessions at once, so that the reported load crosses the rounding step
        # (GenHold: relayed sessions end only while a poll that reported >= 8 is held, i.e. between two
        # attempts of one pollOffer call if the broker then says "no match")
        sims = pr.simulate(chk, "Gen_sim.cfg", 120, chk.seed * 1000 + 9, depth=800, N=9, MaxSess=11, GenNoFaults="TRUE", GenHold=8,
                           Classes='{"in_ws"}', MaxNoOffer=4, MaxTimeouts=0)
        sims = [s for s in sims if pr.cost_s(s) <= 115]
        order = sorted(range(len(sims)), key=lambda i: (-min(window_ends(sims[i]), 1), i))
        if not order or window_ends(sims[order[0]]) < 1:
            raise vlib.Inconclusive("vacuity: no capacity-9 sample in which the slot count falls below 8 between two attempts of one pollOffer call")
        for i in order[:2]:
            plans.append(mk_plan("sim-n9-%d" % i, 9, sims[i], chk.seed))
    return plans


def model_check(chk, quick, box):
    """Runs in a thread next to behaviour generation and the real-time replays."""
    try:
        runs = ["MC_cap1.cfg", "MC_cap2.cfg", "MC_phantom.cfg"] if quick else ["MC_cap1.cfg", "MC_phantom.cfg", "MC_cap2_big.cfg", "MC_cap3.cfg"]
        for cfg in runs:
            cov = (not quick) and cfg in ("MC_cap1.cfg", "MC_phantom.cfg")
            r = pr.tlc_safe("ProxySession", cfg, workers=max(2, vlib.NCPU // 2), timeout=1500, coverage=cov)
            box["tlc"].append(r)
            box["notes"].append("TLC %s: %d distinct states, error=%s (%.0fs)" % (cfg, r.distinct, r.error, r.wall))
            if r.error:
                box["fail"].append("model check %s failed: %s\n%s" % (cfg, r.error, r.out[-2500:]))
                return
            if cov:
                # phantom sessions need room next to the loop's own slot: they are covered by MC_phantom (N = 3)
                zero = sorted(a for a, (d, t) in r.coverage.items() if t == 0 and not a.startswith("Policy")
                              and (cfg == "MC_phantom.cfg" or not a.startswith("Phantom")))
                if zero:
                    box["fail"].append("vacuity: actions never taken in %s: %s" % (cfg, zero))
                    return
                box["cov"] = dict(box["cov"] or {}, **{"%s:%s" % (cfg[3:-4], a): t for a, (d, t) in r.coverage.items()})
        # the relay policy over every class (one session is enough), per pattern and flag
        combos = [("suffix", "FALSE"), ("any", "TRUE")] if quick else [(p, a) for p in ("suffix", "exact", "any") for a in ("FALSE", "TRUE")]
        for pat, allow in combos:
            name = "MC_policy_%s_%s.cfg" % (pat, allow)
            txt = pr.cfg_text("MC_policy.cfg", Pattern='"%s"' % pat, AllowNonTLS=allow)
            r = pr.tlc_safe("ProxySession", name, cfgtxt=txt, workers=2, timeout=600)
            box["tlc"].append(r)
            if r.error:
                box["fail"].append("model check %s failed: %s\n%s" % (name, r.error, r.out[-2500:]))
                return
        # sensitivity: with the deviation switched on TLC must find the double release
        sens = [("MC_asis.cfg", "ReleasedAtMostOnce"), ("MC_asis_block.cfg", "RetNeverBlocks"), ("MC_asis_steal.cfg", "CapacityHonoured")]
        for cfg, inv in (sens[:1] if quick else sens):
            r = pr.tlc_safe("ProxySession", cfg, workers=2, timeout=600)
            box["tlc"].append(r)
            if r.error != "invariant:" + inv:
                box["fail"].append("sensitivity: %s should violate %s, TLC says %s" % (cfg, inv, r.error))
                return
        box["notes"].append("TLC relay policy (%d pattern/flag combinations x 15 classes) ok; as-is model (AsIs_D11) violates %s as expected" % (
            len(combos), "/".join(i for _, i in (sens[:1] if quick else sens))))
    except vlib.Inconclusive as e:
        box["fail"].append(str(e))
    except Exception:  # noqa
        import traceback
        box["fail"].append("internal error in model_check:\n" + traceback.format_exc())


def context(events, upto=None):
    """Abstract context of a failure: exit kinds of the session concerned and
    whether its data channel callback ran."""
    evs = events if upto is None else events[:upto]
    s = None
    for e in reversed(evs):
        if e.get("s") is not None and e.get("ev") in ("tok.ret.dec", "tok.ret", "rs.exit", "dh.end", "rs.ondc", "dh.dial"):
            s = e["s"]
            break
    kinds = sorted(set(e.get("kind") for e in evs if e.get("ev") == "rs.exit" and e.get("s") == s and e.get("kind")))
    if any(e.get("ev") == "rs.ondc" and e.get("s") == s for e in evs):
        kinds.append("ondc")
    if "rejected" in kinds or "badurl" in kinds:
        # which rejection class: the relay-URL class of the offer of that session
        for e in evs:
            if e.get("ev") == "resp" and e.get("kind") == "offer" and e.get("s") == s:
                kinds.append("class:%s" % e.get("cls"))
    return "+".join(kinds) or "none"


def judge(out, pid="C16"):
    """-> (status, signature, what): status in ok | skip | violation | diverged | broken"""
    ev = out.events
    if any(e.get("ev") == "skip" for e in ev):
        return "skip", None, ev[0].get("why", "")
    if out.timed_out or not ev or any(e.get("ev") == "harness.error" for e in ev):
        return "broken", None, "rig failure (rc=%s timeout=%s): %s" % (out.rc, out.timed_out, out.out[-1500:])
    cap = out.plan["capacity"]
    verdict, detail, r = pr.validate(ev, cap, out.plan["pattern"], out.plan["allow"])
    out.tlc = r
    if verdict == "accepted":
        dv = [e for e in ev if e.get("ev") == "diverged"]
        if dv:
            return "diverged", "%s/diverged/%s/exit=%s" % (pid, dv[0].get("act"), context(ev)), \
                "the proxy never took step %s of the behaviour (%s)" % (dv[0].get("act"), dv[0].get("why"))
        if not any(e.get("ev") == "end" for e in ev):
            return "broken", None, "recording has no end event: " + out.out[-800:]
        return "ok", None, None
    if verdict == "invariant":
        return "violation", "%s/%s/exit=%s" % (pid, detail, context(ev)), "invariant %s fails on the recorded execution" % detail
    # rejected by the model of the code
    idx = (detail or {}).get("unexplained", 0)
    dv = [e for e in ev if e.get("ev") == "diverged"]
    if dv and (detail or {}).get("event", {}).get("t", 0) >= dv[0].get("since", 0) + STALE_MS:
        # the first unexplained event happened long after the scheduler had begun to wait in vain for a step:
        # from then on the rig's own requests expire (a held poll times out after 30 s in the proxy's
        # transport), which says nothing about the proxy
        return "diverged", "%s/diverged/%s/exit=%s" % (pid, dv[0].get("act"), context([e for e in ev if e.get("t", 0) < dv[0].get("since", 0) + STALE_MS])), \
            "the proxy never took step %s of the behaviour (%s)" % (dv[0].get("act"), dv[0].get("why"))
    # ask the as-is model which property is at stake
    v2, d2, _ = pr.validate(ev, cap, out.plan["pattern"], out.plan["allow"], asis=True)
    if v2 == "invariant":
        return "violation", "%s/%s/exit=%s" % (pid, d2, context(ev, idx)), \
            "recorded execution is not a behaviour of the model (event %s) and violates %s when both release paths are allowed" % (json.dumps((detail or {}).get("event")), d2)
    e = (detail or {}).get("event", {})
    if e.get("ev") == "poll" and isinstance(e.get("clients"), int):
        # the real poll request itself; compare it with the real token state the rig read at the same moment
        if e["clients"] % 8 != 0 or e["clients"] < 0:
            return "violation", "%s/ReportedLoad/not-a-multiple-of-8" % pid, "poll request reports Clients=%s (tokens.count()=%s, len=%s)" % (e["clients"], e.get("count"), e.get("len"))
        if e["clients"] > max(e.get("count", 0), e.get("len", 0)):
            return "violation", "%s/ReportedLoad/exceeds-slots-in-use" % pid, \
                "poll request reports Clients=%s while %s slots are in use (tokens.count()=%s, len(ch)=%s)" % (e["clients"], e.get("len"), e.get("count"), e.get("len"))
    return "violation", "%s/trace-rejected/%s@%s/exit=%s" % (pid, e.get("ev"), e.get("g", "-"), context(ev, idx)), \
        "recorded execution is not a behaviour of the model: first unexplained event #%s %s" % (idx, json.dumps(e))


def run(chk, args, side=None):
    """side: optional callable run in a thread next to the real-time replays (the extension parts wired in at
    the end of this file); it starts only after behaviour generation, because vlib.tlc is not thread-safe and
    the main thread uses it until then."""
    chk.known.extend(KNOWN)
    quick = chk.tier == "quick"
    binary = pr.build()
    if args.replay:
        return replay(chk, binary, args.replay)
    box = {"tlc": [], "notes": [], "fail": [], "cov": None}
    mc = threading.Thread(target=model_check, args=(chk, quick, box))
    mc.start()
    try:
        plans = gen_plans(chk, quick)
    except BaseException:
        mc.join()
        raise
    chk.note("%d behaviours to replay; longest estimated %.0fs" % (len(plans), max(pr.cost_s(p["steps"]) for p in plans)))
    side_thread = None
    if side is not None:
        def _side():
            try:
                side()
            except vlib.Inconclusive as e:
                chk.fail(str(e))
            except Exception:  # noqa
                import traceback
                chk.fail("internal error in an extension part:\n" + traceback.format_exc())
        side_thread = threading.Thread(target=_side)
        side_thread.start()
    longest = max(pr.cost_s(p["steps"]) for p in plans)
    outs = pr.run_plans(binary, TEST, plans, parallel=22, timeout=longest + 120)
    chk.note("replays done (slowest %.0fs)" % max(o.wall for o in outs))
    results = [None] * len(outs)

    def j(i):
        results[i] = judge(outs[i])
    ths = []
    for i in range(len(outs)):
        t = threading.Thread(target=j, args=(i,))
        ths.append(t)
    for k in range(0, len(ths), 8):
        for t in ths[k:k + 8]:
            t.start()
        for t in ths[k:k + 8]:
            t.join()
    mc.join()
    if side_thread is not None:
        side_thread.join()
    for n in box["notes"]:
        chk.note(n)
    for r in box["tlc"]:
        chk.add_tlc(r)
    for f in box["fail"]:
        chk.fail(f)
    if box["cov"]:
        chk.cov["action_counts"] = box["cov"]
    skipped = 0
    pending = {}     # signature -> first (out, status, what)
    for out, res in zip(outs, results):
        if res is None:
            chk.fail("internal: no judgement for %s" % out.plan["name"])
            continue
        status, sig, what = res
        steps = out.plan["steps"]
        if getattr(out, "tlc", None) is not None:
            chk.add_tlc(out.tlc)
        if status == "ok":
            chk.cov["traces_validated_against_impl"] += 1
            chk.cov["evaluations"] += len(out.events)
            if any(s["act"] in CRITICAL for s in steps) or score(steps) > len(set(s["act"] for s in steps)):
                chk.cov["distinct_nontrivial"] += 1
            chk.sample({"plan": out.plan["name"], "capacity": out.plan["capacity"],
                        "behaviour": " ".join(pr.label_of(s) for s in steps)[:1500],
                        "polls": [[e["clients"], e["count"], e["len"], e["held"]] for e in out.ev("poll")]}, limit=3)
        elif status == "skip":
            skipped += 1
        elif status == "broken":
            chk.fail("%s: %s" % (out.plan["name"], what))
        else:
            pending.setdefault(sig, (out, status, what))
    confirm(chk, binary, pending)
    if skipped:
        chk.cov["skipped_clauses"] = ["replay of %d behaviours against the real proxy: %s" % (skipped, "no non-loopback interface")]
        chk.note("replays skipped: no non-loopback interface")
    reported = sorted(set(e["clients"] for o in outs for e in o.ev("poll")))
    chk.cov["reported_loads_seen"] = reported
    if not quick and skipped == 0 and 8 not in reported and not chk.violations:
        chk.fail("vacuity: no poll reported a load of 8 (rounding step not crossed)")
    chk.cov["exhaustive"] = False
    chk.cov["rule"] = ("a behaviour is one complete run of the real proxy driven by a TLC behaviour (goal-directed maximal path of the dot dump or "
                       "-simulate sample); non-trivial = contains a failing exit path (bad/undecodable/rejected offer, failed peer connection, "
                       "failed answer, data channel timeout, relay refusing), an empty poll, or a poll made while relayed sessions are open; "
                       "evaluations = recorded events validated by TLC")
    chk.assumptions += [
        "the log order between goroutines is the order of the hook calls; handler-side ret() halves and proxy-induced relay ends may be matched late (pend) in ProxySession_Trace",
        "relay names are resolved by a name table installed as NetDial of gorilla's default dialer (stand-in for DNS); relays are plain ws with AllowNonTLSRelay=true in C16 replays",
        "a data channel callback running after pc.Close() has returned is not reproduced (the repaired code is immune by construction)",
        "NAT type stays unknown (no probetest); capacity 0 (unlimited) is outside the property",
    ]


def confirm(chk, binary, pending):
    """An invariant violation on a recorded execution is reported at once.  A
    divergence (the proxy never took a step) or an event the model cannot
    explain is re-run alone with doubled waiting bounds, one representative
    per signature, all representatives in parallel; if it does not come back
    it is not a verdict (exit 2)."""
    todo = []
    for sig, (out, status, what) in sorted(pending.items()):
        if status == "violation" and "/trace-rejected/" not in sig and "/ReportedLoad/" not in sig:
            chk.violation(sig, "%s [behaviour %s]" % (what, out.plan["name"]), {"plan": out.plan, "trace": out.events[-60:]})
        else:
            todo.append((sig, out, status, what))
    todo = todo[:6]
    if not todo:
        return
    plans = []
    for sig, out, status, what in todo:
        plan = dict(out.plan)
        plan["wait_ms"] = 2 * plan.get("wait_ms", 40000)
        plan["name"] = plan["name"] + "-confirm"
        plans.append(plan)
    chk.note("confirming %d signature(s) by isolated re-runs" % len(plans))
    outs2 = pr.run_plans(binary, TEST, plans, parallel=len(plans), timeout=max(pr.cost_s(p["steps"]) for p in plans) + 400)
    for (sig, out, status, what), o2 in zip(todo, outs2):
        s2, sig2, what2 = judge(o2)
        if s2 in ("violation", "diverged") and sig2 == sig:
            chk.violation(sig, "%s [behaviour %s, confirmed by an isolated re-run]" % (what, out.plan["name"]), {"plan": out.plan, "trace": out.events[-60:]})
        else:
            os.makedirs(chk.replay_dir, exist_ok=True)
            with open(os.path.join(chk.replay_dir, "unconfirmed-%s.json" % out.plan["name"]), "w") as fh:
                json.dump({"signature": sig, "what": what, "replay": {"plan": out.plan}, "first": out.events, "second": o2.events}, fh)
            chk.fail("%s: %s (%s) was not reproduced by an isolated re-run (second run: %s %s)" % (out.plan["name"], sig, what, s2, sig2))


def replay(chk, binary, path):
    with open(path) as fh:
        rp = json.load(fh)["replay"]
    plan = rp["plan"]
    out = pr.run_one(binary, TEST, plan, pr.cost_s(plan["steps"]) + 240)
    status, sig, what = judge(out)
    chk.note("replay %s: %s %s" % (plan["name"], status, sig or ""))
    if status == "ok":
        chk.cov["traces_validated_against_impl"] += 1
    elif status in ("violation", "diverged"):
        chk.violation(sig, what, {"plan": plan, "trace": out.events[-60:]})
    else:
        chk.fail("replay: %s" % what)


MANIFEST = {
    "technique": "TLA+ spec ProxySession (token counter + channel at the grain of the code, main loop, data channel callback, handler goroutines, relay policy): TLC model-checks capacities 1-3 over all interleavings of the exit paths; TLC behaviours (dot-dump paths, -simulate) are replayed into the real SnowflakeProxy.Start() with a scripted broker, pion clients, relay listeners and gates; TLC validates each recorded hook trace against ProxySession_Trace with the invariants on",
    "text": "The slot accounting is an explicit state machine whose invariants are the property (0<=inUse<=N, at most N sessions negotiated or served, one release per session on every exit path, no ret() ever parks, reported load = 8*floor(clients/8) <= slots in use, full capacity after all sessions end); TLC checks it exhaustively for capacity 1-3 with 3-4 sessions and every overlap, including the data channel opening while runSession gives up. The model is bound to the code in both directions: behaviours printed by TLC drive the real proxy (real pion, real HTTP, real WebSocket dial), and the event log recorded through guarded hooks, together with the Clients field of the real poll requests and the real counter/channel length, must be a behaviour of the model that satisfies the invariants (trace validation by TLC).",
    "note": "Replays run in real time (5 s poll ticker, 20 s data channel timeout): quick 12 behaviours, thorough about 30 incl. capacity 9 with eight concurrent sessions (reported load 8). Exhaustive only for the model at capacities 1-3; the real code is sampled by the replayed behaviours. Found and repaired D11 (double release when the data channel opens while runSession times out or its answer fails).",
}


# --- extension parts built separately: task.Periodic and the proxy's NAT-type machine (spec/Periodic, spec/ProxyNAT),
# --- see notes/ProxyNAT.md -----------------------------------------------------------------------------------------
_run_core = run


def _relay_guarded(chk):
    from checks import c16_relay
    try:
        c16_relay.run_relay_part(chk, chk.tier == "quick")
    except vlib.Inconclusive as e:
        chk.fail(str(e))
    except Exception:  # noqa
        import traceback
        chk.fail("internal error in the relay part:\n" + traceback.format_exc())


def run(chk, args):
    import json as _json
    import threading as _threading
    only = set(args.only.split(",")) if args.only else None
    if args.replay:
        with open(args.replay) as fh:
            rp = _json.load(fh)["replay"]
        if isinstance(rp, dict) and rp.get("kind") in ("periodic", "nat", "nat-race"):
            from checks import c16_nat
            return c16_nat.replay(chk, rp)
        if isinstance(rp, dict) and rp.get("kind") == "relay":
            from checks import c16_relay
            return c16_relay.replay(chk, rp)
        return _run_core(chk, args)
    ext = {"periodic", "nat", "relay"}
    if only is None:
        # the extension parts run in threads next to the real-time replays of the core part
        from checks import c16_nat

        def side():
            th = _threading.Thread(target=_relay_guarded, args=(chk,))
            th.start()
            c16_nat.run_parts(chk, args)
            th.join()
        return _run_core(chk, args, side=side)
    if only - ext:
        _run_core(chk, args)
    if "relay" in only:
        _relay_guarded(chk)
    if only & {"periodic", "nat"}:
        from checks import c16_nat
        if {"periodic", "nat"} <= only:
            c16_nat.run_parts(chk, args)
        elif "periodic" in only:
            c16_nat.run_periodic_part(chk, args)
        else:
            c16_nat.run_nat_part(chk, args)


MANIFEST["note"] += ' Extension parts run with the check: Periodic and ProxyNAT (--only periodic,nat) and ProxyRelay (spec/ProxyRelay: the data path of a session - ordering, close propagation, back-pressure with stalled clients, traffic figures - on the real proxy with real data, --only relay).'
