"""UtlsRT part (common/utls/roundtripper.go: the uTLS HTTP round tripper the client uses for broker
rendezvous when a uTLS fingerprint is configured), to be called from the C12 check:

    from checks import c12_utls
    c12_utls.run_utls_part(chk, q)            # q: True = quick; adds to chk, never sets the verdict itself
    c12_utls.replay_part(chk, rp)             # replay files with rp["kind"] starting with "utls"

spec/UtlsRT/UtlsRT.tla        the round tripper at the grain of its critical sections: the connectWithH1 hint per
                              destination (unset / h1 / h2, keyed by the dial address - and, in the pinned code, by
                              URL.Host on the reading side), pendingConn keyed by (ALPN, destination), every
                              unclaimedConnection with its claimed flag and its one-minute timer, RoundTrip's retry
                              loop (5), dialOrGetTLSWithExpectedALPN under accessDialingConnection (hint mismatch,
                              cached claim, dial with the SERVER choosing the ALPN, park + flip), the two library
                              transports (net/http: one dial per waiting request, result handed over later, idle limit;
                              x/net/http2: one dial per address shared by the waiters), pool drops, the backdrop transport.
                              TLC: ALPNMatches UsedMatches PendKeyOK PendNotHanded ClaimOnce NoLeak StableOK TriesBound
                              TooManyOnlyAfterMaxTry ErrOnlyOnFail HttpBypass HintIsolation; liveness Completes, Settled;
                              the reachability law of errEAGAINTooMany; nine what-if variants must each break their property.
spec/UtlsRT/UtlsRT_Trace.tla  every execution recorded from the real code must be a behaviour of UtlsRT.

Binding: harness/inpkg/common_utls/*_verif_test.go (package utls, no hooks).  Real sockets: the real round tripper
against TLS servers of the harness whose every handshake waits for a token (h2 / http/1.1 / no ALPN / broken
handshake) - plans are behaviours TLC simulates of the generation sub-models (environment acts at rest:
request starts, server answers, pool drops), plus seeded herds (free-running concurrent requests against stable and
flapping servers) and scenarios in which the harness, with the real getConn, takes what is parked between two tries
of a request (the only way to errEAGAINTooMany).  Fake clock: putConn / getConn / the timers under testing/synctest
with connections that count their Close calls, operations racing with the timer at the expiry instant.  Every
recorded trace is judged by TLC; a rejected trace is re-run alone before it is reported, and is named after the
what-if variant of the model that explains it."""
import collections
import json
import os
import random
import re
import shutil

import extgraph
import vlib

SPECDIR = os.path.join(vlib.SPEC, "UtlsRT")
HDIR = os.path.join(vlib.HARNESS, "inpkg", "common_utls")
H_REAL = os.path.join(HDIR, "utlsrt_verif_test.go")
H_SYNC = os.path.join(HDIR, "utlsrt_sync_verif_test.go")
MAX_REPORT = 6
KNOWN = []

INVS = ("TypeOK ClaimOnce ALPNMatches PoolOK UsedMatches PendKeyOK PendNotHanded NoLeak TriesBound TooManyOnlyAfterMaxTry "
        "StableOK ErrOnlyOnFail HttpBypass HttpsNeverBackdrop MutexOK OneDial DialRoom").split()

# what-if variants of the model: (name, constant overrides, the property each must break, what it stands for)
WHATIF = [
    ("urlkey", {"CanonKey": "FALSE"}, "StableOK", "RoundTrip reads connectWithH1 under req.URL.Host while the dial writes it under host:port"),
    ("hsleak", {"Mut": '"hsleak"'}, "NoLeak", "a dial whose TLS handshake fails leaves its TCP connection open"),
    ("noflip", {"Mut": '"noflip"'}, "StableOK", "the hint is not flipped after an ALPN mismatch"),
    ("h2always", {"Mut": '"h2always"'}, "StableOK", "RoundTrip ignores the hint"),
    ("putkey", {"Mut": '"putkey"'}, "PendKeyOK", "putConn files the connection under the expected ALPN instead of the negotiated one"),
    ("tickNoMark", {"Mut": '"tickNoMark"'}, "ClaimOnce", "tick closes the connection without marking it claimed"),
    ("claimNoCheck", {"Mut": '"claimNoCheck"'}, "ClaimOnce", "claimConnection does not look at the claimed flag"),
    ("noTimer", {"Mut": '"noTimer"'}, "NoLeak", "a parked connection has no expiry timer"),
    ("nodelete", {"Mut": '"nodelete"'}, "PendNotHanded", "getConn leaves the entry it hands out in pendingConn"),
]

# the reachability law of errEAGAINTooMany on a destination whose server changes its ALPN between dials
# (name, overrides of MC_tm.cfg, expected verdict, tier)
TM_LAW = [
    ("3 tries, 2 requests", {"MaxTry": "3", "Reqs": "{1, 2}"}, None, "q"),
    ("3 tries, 3 requests", {"MaxTry": "3", "Reqs": "{1, 2, 3}"}, "invariant:NoTooMany", "q"),
    ("5 tries, 4 requests", {}, None, "t"),
    ("one request at a time, pools dropped", {"Concurrency": "1", "AllowDrop": "TRUE"}, None, "q"),
    ("one request at a time, parked connection expires between tries", {"MaxTry": "3", "Reqs": "{1, 2}", "Concurrency": "1", "Timed": "TRUE"}, "invariant:NoTooMany", "q"),
    ("transports dial only on an empty pool: 3 tries, 3 requests", {"MaxTry": "3", "Reqs": "{1, 2, 3}", "Strict": "TRUE"}, None, "q"),
    ("transports dial only on an empty pool, pools dropped: 3 tries, 3 requests", {"MaxTry": "3", "Reqs": "{1, 2, 3}", "Strict": "TRUE", "AllowDrop": "TRUE"}, "invariant:NoTooMany", "q"),
    ("5 tries, 5 requests", {"Reqs": "{1, 2, 3, 4, 5}"}, "invariant:NoTooMany", "t"),
    # ("5 tries, 4 requests all in flight", {"Concurrency": "4", "MaxDials": "20"}: unreachable, 16,047,875 states, about 8 minutes: run once, see notes/UtlsRT.md)
]

MUST_COVER = "Start Pick PickBd EnterT BdServe Return ReqOK Spawn Join Abandon Deliver CallEnter CallFinish Tick Advance Drop PoolClose".split()

HELLOS = ["chrome72", "chrome83", "firefox65", "ios12", "chrome58", "firefox55"]


# --------------------------------------------------------------------------------------------
# model checking

def model_check(chk, q, box):
    """runs in a thread; everything goes to `box` (the Check object is not thread-safe).  All TLC runs of the stage go
    through one pool (eight JVMs side by side)"""
    w = max(2, vlib.NCPU // 4)
    jobs = []       # (kind, name, expected, callable)

    def plain(cfg, workers=w, coverage=False):
        jobs.append(("mc", cfg, None, lambda: vlib.tlc(SPECDIR, "UtlsRT", cfg, workers=workers, timeout=1200, keep_prints=False, coverage=coverage)))

    plain("MC_stable_q.cfg" if q else "MC_stable.cfg", coverage=True)
    plain("MC_flap_q.cfg" if q else "MC_flap.cfg", coverage=True)
    plain("MC_live.cfg", workers=2)
    plain("MC_settle_q.cfg" if q else "MC_settle.cfg", workers=2)
    # sensitivity: every what-if variant must break its property; the reachability law of errEAGAINTooMany
    base = extgraph.read_cfg_constants(os.path.join(SPECDIR, "MC_wi.cfg"))
    for name, over, prop, _ in WHATIF:
        text = extgraph.cfg_text(extgraph.with_constants(base, **over), "Safe", invariants=INVS, properties=["HintIsolation"])
        jobs.append(("guard", "what-if " + name, {"invariant:" + prop},
                     lambda name=name, text=text: extgraph.tlc_raw(None, SPECDIR, "UtlsRT", "WI_%s.cfg" % name, text, workers=1, timeout=600)))
    tmb = extgraph.read_cfg_constants(os.path.join(SPECDIR, "MC_tm.cfg"))
    tminv = "NoTooMany TriesBound TooManyOnlyAfterMaxTry ClaimOnce NoLeak ALPNMatches DialRoom".split()
    for i, (name, over, want, tier) in enumerate(TM_LAW):
        if q and tier != "q":
            continue
        text = extgraph.cfg_text(extgraph.with_constants(tmb, **over), "Safe", invariants=tminv)
        jobs.append(("guard", "errEAGAINTooMany law: " + name, {want},
                     lambda i=i, text=text, tier=tier: extgraph.tlc_raw(None, SPECDIR, "UtlsRT", "TM_%d.cfg" % i, text, workers=(8 if tier == "t" else 1), timeout=1500)))

    def safe(fn):
        try:
            return fn(), None
        except vlib.Inconclusive as e:
            return None, str(e)

    results = vlib.run_parallel([(lambda fn=fn: safe(fn)) for _, _, _, fn in jobs], workers=8)
    law = []
    taken = collections.Counter()     # must-cover guard: every action of the machine is taken in the stable + flapping configurations
    for (kind, name, want, _), (res, err) in zip(jobs, results):
        if err:
            box["fail"].append(err)
            continue
        if kind == "mc":
            r = res
            box["tlc"].append(r)
            box["notes"].append("TLC UtlsRT %s: %d distinct states, error=%s (%.0fs)" % (name, r.distinct, r.error, r.wall))
            if r.error:
                box["fail"].append("UtlsRT model check %s failed in the model alone (no verdict): %s\n%s" % (name, r.error, r.out[-2500:]))
            for a_, (_, tot) in r.coverage.items():
                taken[a_] += tot
            continue
        v, r = res
        box["tlc"].append(r)
        if v not in want:
            box["fail"].append("vacuity: UtlsRT %s gives %s, expected %s" % (name, v, sorted(map(str, want))))
        if name.startswith("errEAGAINTooMany"):
            law.append("%s: %s (%d states)" % (name[len("errEAGAINTooMany law: "):], "reachable" if v else "unreachable", r.distinct))
    zero = sorted(a for a in MUST_COVER if taken[a] == 0)
    box["cov"]["coverage_zero_actions"] = zero
    if zero:
        box["fail"].append("vacuity: UtlsRT actions never taken by the model-checking runs: %s" % zero)
    box["cov"]["toomany_law"] = law
    box["cov"]["whatif"] = [w_[0] for w_ in WHATIF]


# --------------------------------------------------------------------------------------------
# plans

def cmd_of(a):
    """parsed TLC action label -> plan step (None for a step the goroutines take by themselves)"""
    if a[0] == "GStart":
        return {"op": "start", "r": a[1], "d": a[2], "https": bool(a[3])}
    if a[0] == "GServe":
        return {"op": "serve", "d": a[1], "x": a[2]}
    if a[0] == "GDrop":
        return {"op": "drop", "t": a[1]}
    if a[0] == "GAdvance":
        return {"op": "advance"}
    if a[0] == "GPut":
        return {"op": "put", "t": a[1], "d": a[2]}
    if a[0] == "GGet":
        return {"op": "get", "t": a[1], "d": a[2]}
    return None


def simulate(cfg, num, depth, seed):
    """behaviours of a generation sub-model (tlc -simulate), as lists of plan steps"""
    d = vlib.scratch("utls-sim-%s-%d" % (cfg.replace(".cfg", ""), seed))      # (vlib.simulate_behaviours is not safe side by side)
    r = vlib.tlc(SPECDIR, "UtlsRT", cfg, workers=1, simulate="file=%s,num=%d" % (os.path.join(d, "b"), num), depth=depth, seed=seed, timeout=600, keep_prints=False)
    if r.error:
        raise vlib.Inconclusive("UtlsRT GenSpec %s: %s\n%s" % (cfg, r.error, r.out[-1500:]))
    behs = [vlib.parse_sim_file(os.path.join(d, f)) for f in sorted(os.listdir(d)) if f.startswith("b_")]
    shutil.rmtree(d, ignore_errors=True)
    out = []
    for b in behs:
        steps = [c for c in (cmd_of(a) for a in b) if c is not None]
        if steps:
            out.append(steps)
    return r, out


AUTOS = [["h2"], ["h1"], ["h1", "h2"], ["h2", "h1"], ["none"], ["h2", "h2", "h1"], ["h1", "fail", "h2"], ["fail", "h2"]]


def real_plan(rng, steps, src, herd=False, hello=None, tickms=0):
    gate = not herd
    return {"kind": "real", "src": src, "hello": hello or rng.choice(HELLOS), "jitter": (rng.randint(1, 1 << 30) if herd or rng.random() < 0.3 else 0),
            "tickms": tickms,
            "dests": {"a": {"portless": True, "auto": rng.choice(AUTOS), "gate": gate}, "b": {"portless": False, "auto": rng.choice(AUTOS), "gate": gate}},
            "steps": steps}


def herd_plans(rng, n):
    out = []
    for _ in range(n):
        k = rng.randint(2, 8)
        steps, r = [], 0
        for wave in range(rng.choice([1, 1, 2, 3])):
            m = rng.randint(1, max(1, min(4, k - r)))
            for _ in range(m):
                if r >= 8:
                    break
                r += 1
                steps.append({"op": "start", "r": r, "d": rng.choice(["a", "a", "b"]), "https": rng.random() > 0.08, "nowait": True})
            steps.append({"op": "wait"})
            if rng.random() < 0.4:
                steps.append({"op": "drop", "t": rng.choice(["h1", "h2"])})
        p = real_plan(rng, steps, "herd", herd=True)
        if rng.random() < 0.15:
            p["hello"] = "noalpn"
        out.append(p)
    return out


def steal_plans(rng):
    """the harness takes what is parked (real getConn) on every entry of the request into a transport"""
    out = []
    for auto, d in ((["h1", "h2"], "a"), (["h2", "h1"], "b"), (["h1"], "a"), (["h2"], "b"), (["h1", "h2"], "b"), (["h1", "h1", "h2"], "a")):
        steps = [{"op": "start", "r": 1, "d": d, "https": True, "steal": True}, {"op": "wait"},
                 {"op": "start", "r": 2, "d": d, "https": True}, {"op": "wait"}]
        p = real_plan(rng, steps, "steal", herd=True)
        p["jitter"] = 0
        p["dests"][d]["auto"] = auto
        out.append(p)
    return out


def unit_plan_of(steps, src, expiry=2):
    ops, at = [], 0
    for s in steps:
        if s["op"] == "advance":
            at += 1
        elif s["op"] in ("put", "get"):
            ops.append({"at": at, "op": s["op"], "t": s["t"], "d": s["d"]})
    return {"kind": "unit", "src": src, "unit": True, "expiry": expiry, "ops": ops, "final": expiry + 1}


def unit_herds(rng, n, expiry=2):
    """several operations at the same fake instant, most of them at the instant a timer is due"""
    out = []
    for _ in range(n):
        ops, puts = [], []
        for _ in range(rng.randint(1, 4)):
            at = rng.randint(0, 3)
            t = rng.choice(["h1", "h2"])
            ops.append({"at": at, "op": "put", "t": t, "d": "a"})
            puts.append((at, t))
        for at, t in puts:
            for _ in range(rng.randint(0, 3)):
                ops.append({"at": at + rng.choice([0, 1, expiry - 1, expiry, expiry, expiry, expiry + 1]), "op": "get", "t": rng.choice([t, t, t, "h1", "h2"]), "d": "a"})
        if sum(1 for o in ops if o["op"] == "put") > 8:
            continue
        out.append({"kind": "unit", "src": "unit-herd", "unit": True, "expiry": expiry, "ops": ops, "final": expiry + 1})
    return out


def plan_key(p):
    if p["kind"] == "unit":
        return ("unit", json.dumps(p["ops"], sort_keys=True))
    return ("real", p["src"] == "herd", p["hello"] == "noalpn", json.dumps(p["steps"], sort_keys=True), json.dumps(p["dests"], sort_keys=True) if p["src"] in ("herd", "steal") else "")


def nontrivial(p):
    """a plan is non-trivial when an ALPN mismatch can occur with something else going on: two requests in flight, a
    server that changes its ALPN or breaks a handshake, a pool drop, a theft; unit level: an operation at the expiry instant"""
    if p["kind"] == "unit":
        puts = [o["at"] for o in p["ops"] if o["op"] == "put"]
        return any(o["op"] == "get" and (o["at"] - p["expiry"]) in puts for o in p["ops"])
    if p["src"] in ("herd", "steal"):
        return True
    xs = collections.defaultdict(set)
    for s in p["steps"]:
        if s["op"] == "serve":
            xs[s["d"]].add("h2" if s["x"] == "h2" else "fail" if s["x"] == "fail" else "h1")
    starts = [i for i, s in enumerate(p["steps"]) if s["op"] == "start"]
    overlap = any(b == a + 1 for a, b in zip(starts, starts[1:]))
    return overlap or any(len(v) > 1 or "fail" in v for v in xs.values()) or any(s["op"] == "drop" for s in p["steps"])


# --------------------------------------------------------------------------------------------
# the harness

def build(kind):
    if kind == "real":
        return vlib.go_test_compile_inpkg("common/utls", [H_REAL], "utlsrt.test" + ("-r" if vlib.want_race(False) else ""))
    return vlib.go_test_compile_inpkg("common/utls", [H_REAL, H_SYNC], "utlsrt26.test" + ("-r" if vlib.want_race(False) else ""), go=vlib.GO_NEW)


def run_harness(binary, test, plans, tag, par=None, timeout=600):
    d = vlib.scratch("utls-run")
    inp, outp = os.path.join(d, tag + ".plans.ndjson"), os.path.join(d, tag + ".traces.ndjson")
    vlib.write_ndjson(inp, plans)
    race = vlib.want_race(False)
    if par is None:
        par = 6 if race else 12
    env = dict(os.environ, VERIF_UTLS_IN=inp, VERIF_UTLS_OUT=outp, VERIF_UTLS_PAR=str(par), GODEBUG="asynctimerchan=0", GOGC="off" if not race else "400")
    r = vlib.run([binary, "-test.run", "^%s$" % test, "-test.timeout", "%ds" % max(60, timeout - 20)], cwd=d, env=env, timeout=timeout)
    recs = vlib.read_ndjson(outp) if os.path.exists(outp) else []
    if r.timed_out or r.rc != 0 or not any("summary" in x for x in recs):
        raise vlib.Inconclusive("UtlsRT driver %s failed (rc=%s timeout=%s):\n%s" % (test, r.rc, r.timed_out, r.out[-3000:]))
    out = {x["id"]: x for x in recs if "summary" not in x}
    if len(out) != len(plans):
        raise vlib.Inconclusive("UtlsRT driver %s returned %d traces for %d plans" % (test, len(out), len(plans)))
    return out, r


def validate(chk, traces, cfg, tag, over=None, chunk=200, parallel=6):
    """-> {trace id: index of the first unexplained event}; TLC decides per trace"""
    if not traces:
        return {}
    cfgtext = None
    if over:
        base = extgraph.read_cfg_constants(os.path.join(SPECDIR, cfg))
        with open(os.path.join(SPECDIR, cfg)) as fh:
            tail = fh.read().split("SPECIFICATION", 1)[1]
        tail = re.sub(r"^INVARIANTS .*\n", "", tail, flags=re.M)      # a what-if model breaks its own invariant: only the explanation counts
        cfgtext = "CONSTANTS\n" + "".join("  %s = %s\n" % kv for kv in extgraph.with_constants(base, **over)) + "SPECIFICATION" + tail
    chunks = [traces[i:i + chunk] for i in range(0, len(traces), chunk)]

    def one(i, ts):
        d = vlib.scratch("utls-tv")
        f = os.path.join(d, "%s-%d.ndjson" % (tag, i))
        vlib.write_ndjson(f, [{"id": t["id"], "events": t["events"]} for t in ts])
        files = {"traces.ndjson": f}
        name = cfg
        if cfgtext is not None:
            name = "TV_%s_%d.cfg" % (re.sub(r"\W", "_", tag), i)
            files[name] = cfgtext
        r = vlib.tlc(SPECDIR, "UtlsRT_Trace", name, workers=1, timeout=900, files=files, heap="3g")
        if r.error:
            if r.error.startswith("invariant:"):
                # an invariant of the model fails on an explained prefix: the last trace TLC was in
                m = None
                for m in re.finditer(r"^/\\ tr = (\d+)", r.out, re.M):
                    pass
                if m:
                    return {ts[int(m.group(1)) - 1]["id"]: -1}, r, r.error[len("invariant:"):]
            raise vlib.Inconclusive("UtlsRT trace validation (model only): %s\n%s" % (r.error, r.out[-2500:]))
        return extgraph.trace_verdict(r, len(ts), "UtlsRT"), r, None

    res = vlib.run_parallel([(lambda i=i, ts=ts: one(i, ts)) for i, ts in enumerate(chunks)], workers=parallel)
    rej = {}
    for rj, r, inv in res:
        if chk is not None:
            chk.add_tlc(r)
        for k, v in rj.items():
            rej[k] = (v, inv)
    return rej


def brief(e):
    if not e:
        return "end of trace"
    if e.get("ev") != "obs":
        return json.dumps({k: v for k, v in e.items() if k != "now"}, sort_keys=True)
    return "obs hint=%s pend=%s uc=%s nd=%s closed=%s" % (
        ["%s/%s=%s" % (h["d"], h["k"], h["v"]) for h in e["hint"]], ["%s/%s#%s:%s" % (p["t"], p["d"], p["ck"], p["st"]) for p in e["pend"]],
        ["%s#%s:%s" % (u["d"], u["ck"], u["st"]) for u in e["uc"]], ["%s=%d" % (x["d"], x["n"]) for x in e["nd"]],
        ["%s#%s" % (c["d"], c["ck"]) for c in e["closed"]])


def event_class(trace, hw):
    ev = trace["events"]
    e = ev[hw - 1] if 0 < hw <= len(ev) else {}
    k = e.get("ev", "end-of-trace")
    if k == "try":
        prev = [x for x in ev[:hw - 1] if x.get("ev") == "tryres" and x.get("r") == e.get("r")]
        return "try-%s-after-%s" % (e.get("t"), prev[-1]["res"] if prev else "start")
    if k == "tryres":
        return "tryres-%s-%s" % (e.get("t"), e.get("res"))
    if k == "end":
        return "end-%s-after-%s-tries" % (e.get("res"), e.get("tries"))
    if k == "serve":
        return "serve-%s" % e.get("x")
    if k == "get":
        return "get-%s" % ("hit" if e.get("ck") else "miss")
    if k == "obs":
        prev = next((x for x in reversed(ev[:hw - 1]) if x.get("ev") != "obs"), {})
        return "obs-after-%s" % prev.get("ev", "nothing")
    return k


def classify(trace, hw, inv):
    """name the failure after the what-if variant of the model that explains the recorded execution (or explains it
    further than the specification does, when more than one thing is wrong in one trace)"""
    if inv:
        return "UtlsRT/%s/on-a-recorded-execution" % inv, "invariant %s of spec/UtlsRT fails on an execution recorded from the real round tripper" % inv
    cfg = "Trace_unit.cfg" if trace.get("unit") else "Trace.cfg"
    jobs = [(name, prop, what, extgraph.Bg(validate, None, [trace], cfg, "cls-%s-%s" % (trace["id"], name), over=over, parallel=1)) for name, over, prop, what in WHATIF]
    best = None
    for name, prop, what, bg in jobs:
        try:
            rej = bg.get()
        except vlib.Inconclusive:
            continue
        reach = len(trace["events"]) + 1 if not rej else rej[trace["id"]][0]
        if reach > hw and (best is None or reach > best[0]):
            best = (reach, name, prop, what)
    if best:
        _, name, prop, what = best
        return "UtlsRT/%s/%s" % (prop, name), "the recorded execution is a behaviour of the what-if model '%s' (%s), which breaks %s" % (name, what, prop)
    return "UtlsRT/unexplained:%s" % event_class(trace, hw), "the recorded execution is not a behaviour of spec/UtlsRT"


def judge(chk, plans, traces, binaries, tag, confirm=True):
    """validate, confirm by re-running alone, report; returns the number of accepted traces"""
    byid = {p["id"]: p for p in plans}
    hangs = [t for t in traces if t.get("hang")]
    notes = [t for t in traces if t.get("note") and not t.get("hang")]
    for t in notes[:3]:
        chk.fail("UtlsRT driver: plan %s (%s): %s" % (t["id"], byid[t["id"]].get("src"), t["note"][:400]))
    good = [t for t in traces if not t.get("hang") and not t.get("note")]
    groups = collections.OrderedDict()
    for kind, cfg in (("real", "Trace.cfg"), ("unit", "Trace_unit.cfg")):
        ts = [dict(t, unit=(kind == "unit")) for t in good if byid[t["id"]]["kind"] == kind]
        rej = validate(chk, ts, cfg, tag + "-" + kind)
        for t in ts:
            if t["id"] in rej:
                hw, inv = rej[t["id"]]
                groups.setdefault((kind, inv or event_class(t, hw)), []).append((t, hw, inv))
    for t in hangs:
        groups.setdefault(("real", "hang"), []).append((t, 0, None))
    nrej = sum(len(v) for v in groups.values())
    reported = 0
    for (kind, cls), items in groups.items():
        if reported >= MAX_REPORT:
            break
        t, hw, inv = items[0]
        plan = byid[t["id"]]
        if cls == "hang":
            sig, what = "UtlsRT/hang:a-RoundTrip-never-returns", "a RoundTrip of the real round tripper had not returned 8 s after every server was told to answer"
        else:
            sig, what = classify(t, hw, inv)
        if confirm:
            # a verdict that may rest on timing is confirmed by running the same plan alone again (twice)
            again = [dict(plan, id=i + 1) for i in range(2)]
            out2, _ = run_harness(binaries[kind], "TestVerifUtlsRT" if kind == "real" else "TestVerifUtlsUnit", again, "confirm", par=1)
            ts2 = [dict(x, unit=(kind == "unit")) for x in out2.values()]
            seen = any(x.get("hang") for x in ts2) if cls == "hang" else False
            if cls != "hang":
                rej2 = validate(chk, [x for x in ts2 if not x.get("hang") and not x.get("note")], "Trace_unit.cfg" if kind == "unit" else "Trace.cfg", "confirm-" + kind)
                for x in ts2:
                    if x["id"] in rej2:
                        hw2, inv2 = rej2[x["id"]]
                        if (inv2 or event_class(x, hw2)) == cls or classify(x, hw2, inv2)[0] == sig:
                            seen = True
            if not seen:
                chk.fail("UtlsRT: %s was seen once (plan %s, %s) and not again when the plan ran alone: %s" % (sig, t["id"], plan.get("src"), json.dumps(plan.get("steps") or plan.get("ops"))[:600]))
                continue
        e = t["events"][hw - 1] if 0 < hw <= len(t.get("events", [])) else None
        desc = "%s; first unexplained event #%d: %s; plan (%s, hello %s): %s" % (what, hw, brief(e), plan.get("src"), plan.get("hello"), json.dumps(plan.get("steps") or plan.get("ops"))[:700])
        if len(items) > 1:
            desc += " [%d traces of this class]" % len(items)
        chk.violation(sig, desc, {"kind": "utls-" + kind, "plan": plan, "trace": {"id": t["id"], "events": t.get("events"), "hang": t.get("hang", "")[:6000]}, "first_unexplained": hw})
        reported += 1
    return len(good) - (nrej - len(hangs))


# --------------------------------------------------------------------------------------------

def run_utls_part(chk, q, only=None):
    """only: None (everything) or "bind" (debugging: the replays without the model-checking runs)"""
    if not isinstance(q, bool):
        q = chk.tier == "quick"
    chk.known.extend(k for k in KNOWN if k not in chk.known)
    rng = random.Random(chk.seed * 7919 + 1212)
    race = vlib.want_race(False)
    box = {"tlc": [], "notes": [], "fail": [], "cov": {}}
    mc = extgraph.Bg(model_check, chk, q, box) if only != "bind" else extgraph.Bg(lambda: None)
    vlib.repo_modfile()        # (not safe side by side: made once, before the two builds start)
    builds = {"real": extgraph.Bg(build, "real"), "unit": extgraph.Bg(build, "unit")}
    plans, seen = [], set()

    def add(p):
        k = plan_key(p)
        if k in seen or not (p.get("steps") or p.get("ops")):
            return
        seen.add(k)
        p["id"] = len(plans) + 1
        plans.append(p)

    try:
        scale = 0.5 if race else 1.0
        # (TLC simulates about 1000 steps a second on these models: several one-worker runs side by side per sub-model)
        gens = [("Gen_seq.cfg", int((150 if q else 700) * scale), 60, 2 if q else 4), ("Gen_conc.cfg", int((220 if q else 1100) * scale), 80, 3 if q else 5),
                ("Gen_unit.cfg", int((120 if q else 500) * scale), 40, 4)]
        gjobs = [(g, [extgraph.Bg(simulate, g[0], g[1] // g[3], g[2], chk.seed * 31 + 7 * i + 1000 * k) for k in range(g[3])]) for i, g in enumerate(gens)]
        stats = {}
        for (cfg, num, depth, shards), bgs in gjobs:
            behs = []
            for bg in bgs:
                r, b = bg.get()
                chk.add_tlc(r)
                behs += b
            n0 = len(plans)
            for steps in behs:
                if cfg == "Gen_unit.cfg":
                    add(unit_plan_of(steps, "sim:" + cfg))
                else:
                    add(real_plan(rng, steps[:16], "sim:" + cfg))
            stats[cfg] = {"behaviours": len(behs), "distinct_plans": len(plans) - n0}
            chk.note("UtlsRT GenSpec %s: %d behaviours simulated by TLC, %d distinct plans" % (cfg, len(behs), len(plans) - n0))
        for p in steal_plans(rng):
            add(p)
        for p in herd_plans(rng, int((120 if q else 700) * scale)):
            add(p)
        for p in unit_herds(rng, int((120 if q else 600) * scale)):
            add(p)
        chk.cov.setdefault("generation", {}).update({"UtlsRT:" + k: v for k, v in stats.items()})
        real = [p for p in plans if p["kind"] == "real"]
        unit = [p for p in plans if p["kind"] == "unit"]
        if len(real) < 100 * scale or len(unit) < 60 * scale:
            raise vlib.Inconclusive("vacuous: only %d + %d UtlsRT plans generated" % (len(real), len(unit)))
        binaries = {k: b.get() for k, b in builds.items()}
        ujob = extgraph.Bg(run_harness, binaries["unit"], "TestVerifUtlsUnit", unit, "unit", timeout=600)
        out_r, rr = run_harness(binaries["real"], "TestVerifUtlsRT", real, "real", timeout=900)
        out_u, ru = ujob.get()
        traces = [out_r[p["id"]] for p in real] + [out_u[p["id"]] for p in unit]
        skipped = sum(t.get("skipped", 0) for t in traces)
        ncmd = sum(len(p.get("steps", ())) for p in real)
        nev = sum(len(t.get("events", ())) for t in traces)
        toomany = sum(1 for t in traces for e in t.get("events", ()) if e.get("ev") == "end" and e.get("res") == "toomany")
        eagain = sum(1 for t in traces for e in t.get("events", ()) if e.get("ev") == "tryres" and e.get("res") == "eagain")
        expired = sum(1 for t in traces if any(u.get("st") == "expired" for e in t.get("events", ()) if e.get("ev") == "obs" for u in e.get("uc", ())))
        chk.note("UtlsRT: %d real-socket plans (%.1fs) and %d fake-clock plans (%.1fs) executed on the real round tripper: %d events, %d EAGAIN retries, "
                 "%d errEAGAINTooMany, %d plans with an expired parked connection; %d of %d steps not applicable" % (
                     len(real), rr.wall, len(unit), ru.wall, nev, eagain, toomany, expired, skipped, ncmd))
        if skipped * 4 > max(ncmd, 1):
            raise vlib.Inconclusive("more than 25%% of the UtlsRT plan steps (%d of %d) were not applicable: the generation model does not describe the code" % (skipped, ncmd))
        accepted = judge(chk, plans, traces, binaries, "main")
        # vacuity of the binding: the interesting things must have happened on the real code
        if eagain == 0 or expired == 0:
            chk.fail("vacuity: the UtlsRT replays produced %d EAGAIN retries and %d expiries" % (eagain, expired))
        chk.cov["evaluations"] += len(plans)
        chk.cov["distinct_nontrivial"] += sum(1 for p in plans if nontrivial(p))
        chk.cov["traces_validated_against_impl"] += accepted
        chk.cov["utls"] = {"real_socket_plans": len(real), "fake_clock_plans": len(unit), "events": nev, "accepted": accepted, "steps_skipped": skipped,
                           "eagain_retries": eagain, "toomany": toomany, "plans_with_expiry": expired,
                           "by_source": dict(collections.Counter(p["src"].split(":")[0] for p in plans))}
        smp = next((p for p in real if p["src"].startswith("sim:Gen_conc") and len(p["steps"]) >= 6), real[0])
        t = out_r[smp["id"]]
        chk.sample({"utls_plan": smp["steps"], "hello": smp["hello"], "trace": [brief(e)[:110] for e in t.get("events", [])][:24]}, limit=6)
        if not q and not race:
            expiry_part(chk, rng, binaries)
    except vlib.Inconclusive as e:
        chk.fail(str(e))
        for b in builds.values():
            try:
                b.get()
            except BaseException:   # noqa: BLE001 - already failing
                pass
    finally:
        mc.get()
        for n in box["notes"]:
            chk.note(n)
        for r in box["tlc"]:
            chk.add_tlc(r)
        for f in box["fail"]:
            chk.fail(f)
        chk.cov.setdefault("utls_model", {}).update(box["cov"])
    chk.assumptions += [
        "UtlsRT: the two library transports are modelled liberally (net/http: one dial per waiting request, result to its owner, a waiter may be served by any pooled "
        "connection; x/net/http2: one dial per address shared by its waiters); the servers never close a connection by themselves",
        "UtlsRT: gated replays steer request starts, server answers (the dial is held inside its critical section) and pool drops; which waiting dial gets the mutex next "
        "is left to the scheduler and judged by TLC afterwards (linearisation points are silent steps between call and return records); seeded jitter in the herds",
        "UtlsRT: port 443 of loopback addresses 127.x.y.z is bound for the destinations addressed without a port (needs root / CAP_NET_BIND_SERVICE); Go GC is off in the "
        "driver process so that a connection nobody closes is not closed by a finalizer",
        "UtlsRT: fake clock of testing/synctest (go1.26.8) for putConn / getConn / the one-minute timers; real time only in the thorough tier (one expiry, 68 s)",
    ]


def expiry_part(chk, rng, binaries):
    """thorough: the one-minute timer in real time, end to end: connections parked by real dials and left behind
    (thefts, requests served by a pooled connection while their own dial was parked) must be closed a minute later"""
    TICK = 68000
    plans = []
    # a request whose parked connection is taken on every try gives up after five dials; the fifth connection stays
    # parked, nobody claims it: it must be closed by its timer, and the entry must not serve the next request
    for i, (auto, d, hello) in enumerate(((["h1", "h2"], "a", "chrome72"), (["h1", "h2"], "b", "firefox65"), (["none", "h2"], "a", "ios12"), (["h1", "h2"], "b", "chrome83"))):
        steps = [{"op": "start", "r": 1, "d": d, "https": True, "steal": True}, {"op": "wait"}, {"op": "advance"},
                 {"op": "start", "r": 2, "d": d, "https": True}, {"op": "wait"}, {"op": "advance"}]
        p = real_plan(rng, steps, "expiry", herd=True, hello=hello, tickms=TICK)
        p["jitter"] = 0
        p["dests"][d]["auto"] = auto
        p["id"] = 100000 + i
        plans.append(p)
    out, r = run_harness(binaries["real"], "TestVerifUtlsRT", plans, "expiry", par=8, timeout=400)
    traces = [out[p["id"]] for p in plans]
    n = judge(chk, plans, traces, binaries, "expiry", confirm=False)
    exp = sum(1 for t in traces if any(u.get("st") == "expired" for e in t.get("events", ()) if e.get("ev") == "obs" for u in e.get("uc", ())))
    chk.note("UtlsRT: %d real-time expiry plans (%.0fs): %d accepted, %d with a parked connection closed by its one-minute timer" % (len(plans), r.wall, n, exp))
    if exp == 0:
        chk.fail("vacuity: no real-time plan saw a parked connection expire")
    chk.cov["evaluations"] += len(plans)
    chk.cov["traces_validated_against_impl"] += n
    chk.cov["utls"]["real_time_expiry_plans"] = len(plans)


def replay_part(chk, rp):
    kind = rp["kind"][len("utls-"):]
    plan = dict(rp["plan"], id=1)
    binaries = {kind: build(kind)}
    out, _ = run_harness(binaries[kind], "TestVerifUtlsRT" if kind == "real" else "TestVerifUtlsUnit", [plan], "replay", par=1)
    n = judge(chk, [plan], list(out.values()), binaries, "replay", confirm=False)
    chk.cov["evaluations"] += 1
    chk.cov["traces_validated_against_impl"] += n
    if n:
        chk.note("replay: the recorded execution is accepted by spec/UtlsRT")


# standalone use (debugging): bin/check C12_UTLS
LEVEL = "model_checking"


def run(chk, args):
    if args.replay:
        with open(args.replay) as fh:
            return replay_part(chk, json.load(fh)["replay"])
    run_utls_part(chk, chk.tier == "quick", only=getattr(args, "only", None))
    chk.cov["rule"] = ("one evaluation = one plan executed on the real round tripper (real sockets, or the fake clock for the timers) and judged by TLC; non-trivial = "
                       "an ALPN mismatch can meet something else: two requests in flight, a server that changes its ALPN or breaks a handshake, a pool drop, a theft "
                       "of the parked connection, an operation at the expiry instant")
