"""C14 - every HTTP request to the broker gets a well-formed response.
spec/BrokerHTTP enumerates request classes with the documented response;
the real handlers are driven through ServeHTTP under the fake clock
(harness/inpkg/broker/http_verif_test.go); a panic, a request that never
returns, a wrong status/body class or a broken follow-up exchange is a
violation.  Thorough tier adds the broker binary over real TCP."""
import json
import os
import re
import random

import brokerlib
import vlib

LEVEL = "model_checking"
SPECDIR = os.path.join(vlib.SPEC, "BrokerHTTP")


def signature(req, what):
    return "C14/%s:%s/%s/%s%s%s" % (what, req["ep"], req["method"] if req["method"] == "OPTIONS" else "any", req["body"],
                                    ("/nat=" + req["nat"]) if req["ep"] == "client" and req["body"].startswith("legacy") else "",
                                    "/chunked" if req.get("framing") == "chunked" else "")


def run_cases(chk, cases, tag):
    binary = brokerlib.rig_binary()
    d = vlib.scratch(tag)
    shards = min(vlib.NCPU, max(1, len(cases) // 20))
    jobs = []
    for i in range(shards):
        part = cases[i::shards]
        if not part:
            continue
        inp, outp = os.path.join(d, "in-%d.ndjson" % i), os.path.join(d, "out-%d.ndjson" % i)
        vlib.write_ndjson(inp, [{"idx": c["idx"], "req": c["req"]} for c in part])

        def job(inp=inp, outp=outp):
            env = vlib.goenv({"VERIF_IN": inp, "VERIF_OUT": outp, "GODEBUG": "asynctimerchan=0", "VERIF_SEED": str(chk.seed)})
            return vlib.run([binary, "-test.run", "TestVerifBrokerHTTP$", "-test.timeout", "900s"], cwd=d, env=env, timeout=1000), outp
        jobs.append(job)
    obs = {}
    died_shards = []
    for n, (r, outp) in enumerate(vlib.run_parallel(jobs)):
        got = vlib.read_ndjson(outp) if os.path.exists(outp) else []
        for o in got:
            obs[o["idx"]] = o
        if r.rc != 0 or r.timed_out:
            died_shards.append((r, [c for c in cases[n::shards] if c["idx"] not in obs]))
    # a shard whose process died (a fatal error cannot be recovered inside the test binary, e.g. the
    # runtime's "all goroutines are asleep" when a handler left a mutex locked): the case that was
    # running is executed again alone; only a death that repeats there is attributed to it
    budget = 3      # culprits examined alone (a hang costs two minutes each); what is left after that is not executed
    attributed = 0
    for r, rest in died_shards:
        while rest:
            culprit = rest[0]
            budget -= 1
            if budget < 0:
                if not attributed:
                    raise vlib.Inconclusive("HTTP rig keeps dying (rc=%s):\n%s" % (r.rc, r.out[-3000:]))
                for c in rest:
                    obs[c["idx"]] = {"idx": c["idx"], "skipped": True}
                chk.note("%d request classes not executed: the broker died in %d others (reported)" % (len(rest), attributed))
                break
            one_in, one_out = os.path.join(d, "one-in.ndjson"), os.path.join(d, "one-out.ndjson")
            vlib.write_ndjson(one_in, [{"idx": culprit["idx"], "req": culprit["req"]}])
            if os.path.exists(one_out):
                os.remove(one_out)
            env = vlib.goenv({"VERIF_IN": one_in, "VERIF_OUT": one_out, "GODEBUG": "asynctimerchan=0", "VERIF_SEED": str(chk.seed)})
            r1 = vlib.run([binary, "-test.run", "TestVerifBrokerHTTP$", "-test.timeout", "60s"], cwd=d, env=env, timeout=120)
            if r1.rc == 0 and not r1.timed_out:
                for o in vlib.read_ndjson(one_out):
                    obs[o["idx"]] = o
                if culprit["idx"] not in obs:
                    raise vlib.Inconclusive("HTTP rig died (rc=%s) and the case running then gives no observation alone:\n%s" % (r.rc, r.out[-3000:]))
            else:
                kind = None
                m = re.search(r"^(panic:|fatal error:).*$", r1.out, re.M)
                asleep = "all goroutines are asleep" in r1.out
                if m and not asleep and "test timed out" not in m.group(0) and brokerlib.product_crash(r1.out[m.start():]):
                    kind = "crash in broker code: " + m.group(0)[:200]
                elif asleep or r1.timed_out or "test timed out" in r1.out:
                    sig, what = brokerlib.stuck_signature(r1.out)
                    if sig != "stuck:mutex-wait[]/chan-wait[]":
                        kind = ("deadlock" if asleep else "hang") + ": " + what
                if not kind:
                    raise vlib.Inconclusive("HTTP rig failed on case %d alone without a product frame (rc=%s):\n%s" % (culprit["idx"], r1.rc, r1.out[-3000:]))
                obs[culprit["idx"]] = {"idx": culprit["idx"], "died": kind, "tail": r1.out[-1500:]}
                attributed += 1
            rest = rest[1:]
            if rest:
                vlib.write_ndjson(one_in, [{"idx": c["idx"], "req": c["req"]} for c in rest])
                if os.path.exists(one_out):
                    os.remove(one_out)
                r = vlib.run([binary, "-test.run", "TestVerifBrokerHTTP$", "-test.timeout", "900s"], cwd=d, env=env, timeout=1000)
                for o in (vlib.read_ndjson(one_out) if os.path.exists(one_out) else []):
                    obs[o["idx"]] = o
                rest = [c for c in rest if c["idx"] not in obs]
                if r.rc == 0 and not r.timed_out and rest:
                    raise vlib.Inconclusive("HTTP rig gave no observation for %d cases" % len(rest))
    return obs


def is_error_body(b):
    return b.startswith(("err:", "amp:err:", "status:"))


def refused(exp):
    return exp["status"] >= 400 or is_error_body(exp["body"])


def judge(chk, cases, obs):
    for c in cases:
        o = obs.get(c["idx"])
        req, exp = c["req"], c["expect"]
        if o is None:
            raise vlib.Inconclusive("no observation for case %d" % c["idx"])
        rp = {"case": c, "observed": o}
        if o.get("skipped"):
            continue
        if o.get("died"):
            chk.violation(signature(req, "broker-died"), "the broker process died or hung while serving this request and the valid exchange after it: %s" % o["died"], rp)
            continue
        if o.get("panic"):
            chk.violation(signature(req, "panic"), "handler panicked (net/http would reset the connection): %s" % o["panic"], rp)
        elif o.get("stuck") or not o.get("returned"):
            chk.violation(signature(req, "no-response"), "request did not return within 25 fake seconds", rp)
        elif not (100 <= o["status"] <= 599):
            chk.violation(signature(req, "status"), "status %s is not an HTTP status" % o["status"], rp)
        elif req["body"] == "overLimit":
            pass   # beyond the limit the statement demands only a well-formed response and no harm to later requests
        elif refused(exp):
            # a request the protocol refuses: any refusal is fine (the statement does not fix the code), but it must not be served
            if o["registers"] or not (o["status"] >= 400 or is_error_body(o["body"])):
                chk.violation(signature(req, "served"), "a request the protocol refuses was served: status %s body %s registers %s (documented %s %s)" % (
                    o["status"], o["body"], o["registers"], exp["status"], exp["body"]), rp)
        elif o["status"] != exp["status"]:
            chk.violation(signature(req, "status"), "status %s, documented %s" % (o["status"], exp["status"]), rp)
        elif exp["body"] != "any" and o["body"] != exp["body"]:
            chk.violation(signature(req, "body"), "body class %s, documented %s" % (o["body"], exp["body"]), rp)
        elif o["waits"] != exp["waits"] or o["registers"] != exp["registers"]:
            chk.violation(signature(req, "waits"), "waits/registers %s/%s, documented %s/%s" % (o["waits"], o["registers"], exp["waits"], exp["registers"]), rp)
        if o.get("returned") and not o.get("panic"):
            if o.get("avail_after", 0) != 0:
                chk.violation(signature(req, "ghost"), "request left %d registrations behind" % o["avail_after"], rp)
            elif o.get("after") != "ok":
                chk.violation(signature(req, "later-requests"), "a valid exchange after this request misbehaved: %s" % o.get("after"), rp)


def run(chk, args):
    if args.replay:
        with open(args.replay) as fh:
            rp = json.load(fh)["replay"]
        cases = [rp["case"]]
        judge(chk, cases, run_cases(chk, cases, "replay"))
        chk.cov["evaluations"] += 1
        return
    r = vlib.tlc(SPECDIR, "BrokerHTTP", "Gen.cfg", workers=1, timeout=600)
    chk.add_tlc(r)
    if r.error:
        chk.fail("spec/BrokerHTTP: %s\n%s" % (r.error, r.out[-1500:]))
        return
    cases = [dict(c, idx=i) for i, c in enumerate(r.prints)]
    if len(cases) < 500:
        chk.fail("vacuous: %d cases" % len(cases))
        return
    rng = random.Random(chk.seed)
    if chk.tier == "quick":
        # every body/endpoint/header class with POST and OPTIONS, other methods sampled
        sel = [c for c in cases if c["req"]["method"] in ("POST", "OPTIONS") or rng.random() < 0.2]
    else:
        sel = cases
    chk.note("TLC enumerated %d request classes; executing %d" % (len(cases), len(sel)))
    obs = run_cases(chk, sel, "http")
    judge(chk, sel, obs)
    chk.cov["evaluations"] += len(sel)
    chk.cov["distinct_nontrivial"] += len([c for c in sel if c["expect"]["status"] >= 400 or c["expect"]["body"] not in ("nomatch", "noproxies", "gone", "debug", "robots", "prometheus")])
    chk.sample({"case": sel[0], "observed": obs[sel[0]["idx"]]})
    chk.sample({"case": sel[len(sel) // 2], "observed": obs[sel[len(sel) // 2]["idx"]]})
    # sequences mixing valid traffic are the broker replays: legacy / AMP / POST clients in TLC behaviours
    counts = {"Gen_small": 60, "Gen_core": 120, "Gen_repoll": 80} if chk.tier == "quick" else {"Gen_small": 300, "Gen_core": 1200, "Gen_big": 800, "Gen_repoll": 600}
    scen = brokerlib.generate_replays(chk, counts, chk.seed + 1000)
    # twin runs: the same gated behaviour with every client poll sent as a versioned POST
    twins = []
    for s_ in scen:
        s_["bridges"] = s_.get("bridges") or ["default", "b2"]   # both runs of a pair use the same configuration
        s_["rollover"] = False
        t = json.loads(json.dumps(s_))
        t["id"] = s_["id"] + 100000
        t["via"] = {c: "post" for c in s_["via"]}
        twins.append(t)
    herds = brokerlib.generate_herds(60 if chk.tier == "quick" else 400, chk.seed + 1014, 200000, debug_storm=True)
    by_sc, _ = brokerlib.run_rig(chk, scen + twins + herds)
    for h in herds:   # herds (with /debug polls inside the waves): only completion and survival are judged here
        evs = by_sc.pop(h["id"], [])
        end = [e for e in evs if e["ev"] == "end"]
        if end and end[0]["pending"]:
            chk.violation("C14/no-response-in-herd:" + brokerlib.hang_signature(evs, end[0]["pending"]),
                          "requests %s got no response" % end[0]["pending"], {"scenario": h, "events": evs})
    if brokerlib.CRASHES:
        msg, tail, inp = brokerlib.CRASHES[0]
        import re as _re
        chk.violation("C14/crash:" + _re.sub(r"0x[0-9a-f]+|\d+", "", msg).strip()[:80],
                      "the broker process died while serving a request sequence: %s" % msg, {"output": tail})
    ok = {}
    for sid, evs in by_sc.items():
        end = [e for e in evs if e["ev"] == "end"]
        bad = [e for e in evs if e["ev"].endswith(".resp") and e.get("kind") == "panic"]
        if bad:
            chk.violation("C14/panic-in-sequence", "handler panicked during a replayed exchange: %s" % bad[0], {"scenario": [s for s in scen + twins if s["id"] == sid][0], "events": evs})
        sc_ = [s for s in scen + twins if s["id"] == sid][0]
        if end and end[0]["pending"]:
            chk.violation("C14/no-response-in-sequence:" + brokerlib.hang_signature(evs, end[0]["pending"]) + ("/repolled-sid" if sc_.get("novalidate") else ""),
                          "requests %s got no response (fake clock advanced 25 s past the last step)" % end[0]["pending"], {"scenario": sc_, "events": evs})
        if end and not end[0]["pending"] and sid < 100000 and not sc_.get("novalidate"):
            ok[sid] = evs

    def responses(evs):
        out = {}
        for e in evs:
            if e["ev"].endswith(".resp"):
                out[e.get("c") or e.get("p") or e.get("a")] = {k: v for k, v in e.items() if k not in ("sc", "via")}
        return out
    for s_ in scen:
        a, b = responses(by_sc.get(s_["id"], [])), responses(by_sc.get(s_["id"] + 100000, []))
        for name in sorted(a):
            if a[name] != b.get(name):
                vias = sorted(set(v for v in s_["via"].values() if v != "post"))
                chk.violation("C14/equivalence:%s" % "+".join(vias), "the same exchange answers differently when client polls use the %s encoding: %s vs versioned %s" % (
                    "/".join(vias), json.dumps(a[name]), json.dumps(b.get(name))), {"scenario": s_, "events": by_sc.get(s_["id"]), "twin_events": by_sc.get(s_["id"] + 100000)})
                break
    findings, accepted = brokerlib.validate(chk, ok)
    chk.cov["traces_validated_against_impl"] += accepted
    if ok and accepted < len(ok) // 2:
        # findings of the trace validation belong to C02/C03/C04; but when most sequences are not behaviours
        # of the model, what this check concluded from them is not to be trusted either
        chk.fail("only %d of %d replayed sequences were accepted by spec/Broker (first finding: %s)" % (accepted, len(ok), findings[0][1] if findings else "?"))
    chk.cov["evaluations"] += len(scen)
    if chk.tier == "thorough":
        tcp_part(chk, sel)
    chk.cov["exhaustive"] = chk.tier == "thorough"
    chk.cov["rule"] = ("request classes are TLC initial states of spec/BrokerHTTP (endpoint x method x body class x NAT header x metrics file); "
                       "non-trivial = expected to be refused or to carry an error body; plus replayed exchanges with legacy/AMP/POST clients")
    chk.assumptions += ["handlers are called through ServeHTTP with a recorder (a panic there is what net/http turns into a dropped connection)",
                        "route table of main() is exercised only by the thorough tier (real binary over TCP)"]


def tcp_part(chk, cases):
    """Real broker binary over TCP: every response must parse as HTTP; none may be missing."""
    import socket
    import subprocess
    import time
    d = vlib.scratch("tcp")
    out = os.path.join(d, "broker")
    r = vlib.run(["go", "build", "-modfile=" + vlib.repo_modfile(), "-o", out, "./broker"], cwd=vlib.REPO, env=vlib.goenv(), timeout=600)
    if r.rc != 0:
        raise vlib.Inconclusive("cannot build the broker binary:\n" + r.out[-2000:])
    s = socket.socket()
    s.bind(("127.0.0.1", 0))
    port = s.getsockname()[1]
    s.close()
    mlog = os.path.join(d, "metrics.log")
    p = subprocess.Popen([out, "-disable-tls", "-disable-geoip", "-addr", "127.0.0.1:%d" % port, "-metrics-log", mlog],
                         stdout=subprocess.DEVNULL, stderr=subprocess.DEVNULL)
    try:
        for _ in range(100):
            try:
                socket.create_connection(("127.0.0.1", port), timeout=0.2).close()
                break
            except OSError:
                time.sleep(0.1)
        else:
            raise vlib.Inconclusive("broker binary did not start")
        paths = {"proxy": "/proxy", "client": "/client", "answer": "/answer", "debug": "/debug", "metrics": "/metrics",
                 "prometheus": "/prometheus", "robots": "/robots.txt"}
        bodies = {
            ("proxy", "notJSON"): b"Sid=1", ("proxy", "empty"): b"", ("proxy", "overLimit"): b"x" * 100001,
            ("client", "empty"): b"", ("client", "legacy"): b'{"type":"offer","sdp":"x"}', ("client", "random"): b"\x00\x01\x02garbage",
            ("client", "invalidNAT"): b'1.0\n{"offer":"x","nat":"symmetric"}', ("client", "overLimit"): b"1.0\n" + b"x" * 100001,
            ("client", "unlistedFingerprint"): b'1.0\n{"offer":"x","fingerprint":"2222222222222222222222222222222222222222"}',
            ("answer", "empty"): b"", ("answer", "notJSON"): b"zzz", ("answer", "validUnknownSid"): b'{"Version":"1.3","Sid":"nobody","Answer":"a"}',
        }
        import http.client
        n = 0

        def one(method, path, body, headers, what):
            nonlocal n
            n += 1
            try:
                c = http.client.HTTPConnection("127.0.0.1", port, timeout=30)
                if headers.get("Transfer-Encoding") == "chunked":
                    c.request(method, path, body=body, headers=headers, encode_chunked=True)
                else:
                    c.request(method, path, body=body, headers=headers)
                resp = c.getresponse()
                resp.read()
                c.close()
                return resp.status
            except Exception as e:   # connection dropped / malformed response
                chk.violation("C14/tcp-no-response:" + what, "broker binary gave no well-formed HTTP response to %s %s (%s: %s)" % (method, path, type(e).__name__, e),
                              {"method": method, "path": path, "body": repr(body)[:200], "headers": headers})
                return None
        for (ep, b), body in bodies.items():
            for m in ("POST", "GET", "OPTIONS", "PUT"):
                for nat in (None, "bogus", "unrestricted"):
                    if nat and ep != "client":
                        continue
                    h = {"Snowflake-NAT-Type": "symmetric" if nat == "bogus" else nat} if nat else {}
                    one(m, paths[ep], body, h, "%s/%s%s" % (ep, b, "/nat=" + nat if nat else ""))
        for ep in ("debug", "metrics", "prometheus", "robots"):
            for m in ("GET", "POST", "HEAD", "OPTIONS"):
                one(m, paths[ep], b"", {}, ep)
        # chunked transfer encoding (no Content-Length)
        for (ep, b), body in bodies.items():
            one("POST", paths[ep], iter([body[:7], body[7:]]) if body else iter([b""]), {"Transfer-Encoding": "chunked"}, "%s/%s/chunked" % (ep, b))
        for path in ("/amp/client/", "/amp/client/0/!!!", "/amp/client/1/abc", "/amp/client", "/nonexistent", "/"):
            one("GET", path, b"", {}, "amp-or-other")
        # one valid proxy poll waits out the real 10 s timeout
        st = one("POST", "/proxy", b'{"Sid":"tcp1","Version":"1.3","Type":"standalone","NAT":"unknown","Clients":0,"AcceptedRelayPattern":""}', {}, "proxy/valid")
        if st is not None and st != 200:
            chk.violation("C14/tcp-status:proxy/valid", "valid proxy poll over TCP answered %s" % st, {})
        # the binary must still be alive and serving
        if p.poll() is not None:
            chk.violation("C14/tcp-crash", "the broker binary exited (status %s) while serving the request classes" % p.returncode, {})
        elif one("GET", "/debug", b"", {}, "debug-after") != 200:
            chk.violation("C14/tcp-later-requests", "the broker binary no longer serves /debug after the request classes", {})
        chk.cov["evaluations"] += n
        chk.cov["tcp_requests"] = n
    finally:
        p.kill()
        p.wait()


MANIFEST = {
    "technique": "TLA+ spec BrokerHTTP enumerates request classes with the documented response (TLC); real handlers driven through ServeHTTP under a fake clock, follow-up exchange after every request; legacy/AMP/POST equivalence via Broker trace validation; thorough: real binary over TCP",
    "text": "Totality of the response function and the legacy status mapping are invariants of the model; every enumerated request class (endpoint x method x body class incl. at/over the 100 KB limit x NAT header) is executed on the real handlers: a panic (what net/http turns into a dropped connection), a missing response, a wrong status/body class, a leftover registration or a broken follow-up exchange is a violation. Legacy and AMP client polls inside TLC-generated exchanges must produce the outcome the Broker spec predicts for their versioned twin.",
    "note": "Request bytes are seeded representatives of each class, not arbitrary bytes; quick tier drives handlers directly (route table of main() and real connection handling only in thorough, over TCP).",
}
