"""ClientMain part (the main loop of the client pluggable transport, client/snowflake.go), to be called from the
C15 check:

    from checks import c15_clientmain
    c15_clientmain.run_clientmain_part(chk, args)       # adds to chk, never sets the verdict itself
    c15_clientmain.replay_part(chk, rp)                 # for replay files with rp["kind"] == "clientmain"

spec/ClientMain/ClientMain.tla        socksAcceptLoop (temporary / permanent AcceptSocks errors - the retry after a
                                      temporary one, at once or after a pause, is noted, not judged -, the deferred ln.Close), the handler (SOCKS arguments over
                                      command-line values: the precedence table total over absent / ok / bad per
                                      argument; Reject / Grant; the dial goroutine; select on shutdown / handler),
                                      copyLoop (two copiers at the grain of their Read / Write / send on done),
                                      main's shutdown (signal channel, listeners closed, close(shutdown), wg.Wait,
                                      exit).  TLC: CopyLaw, SocksClosedOnce, SfClosedOnce, ReplyLaw,
                                      ConfigIsolation, ConfigSeenWhenDue, LoopEndsOnlyOnPerm, LnClosedByLoop,,
                                      NoLeak, NoStuck, action property HandlersLeaveLoopAlone; liveness
                                      ShutdownReachesAll, ShutdownExits, HandlerEnds, Replied, LoopEnds.
spec/ClientMain/ClientMain_Trace.tla  every trace recorded from the real code must be a behaviour of ClientMain.

Binding: behaviours of GenSpec (commands at rest) - edge covers and seeded walks of TLC's dumped state graphs,
`tlc -simulate` of configurations with two and three connections and all eight arguments, the counterexamples of
the as-is / what-if configurations - are executed by harness/inpkg/client/clientmain_verif_test.go against (1) the
real socksAcceptLoop with its handlers (scripted listener under goptlib's SocksListener, real SOCKS5 clients over
loopback that pass arguments the way tor does, the real sf.NewSnowflakeClient / Transport.Dial; the ClientConfig is
seen through the guarded hook newclient.config), (2) the real copyLoop between two scripted conns, (3) the real
main() in a child process (command-line flags for every field, SIGTERM or stdin close at the scheduled point).
TLC accepts or rejects every recorded trace."""
import collections
import json
import os
import random
import re

import extgraph
import vlib

SPECDIR = os.path.join(vlib.SPEC, "ClientMain")
HFILE = os.path.join(vlib.HARNESS, "inpkg", "client", "clientmain_verif_test.go")
MAX_REPORT = 6
SHARDS = 4

# Open findings of this part (entry format of known_findings.json).
KNOWN = []

INVS = ("TypeOK CopyLaw SocksClosedOnce SfClosedOnce ReplyLaw ConfigIsolation ConfigSeenWhenDue LoopEndsOnlyOnPerm LnClosedByLoop "
        "NoLeak NoStuck").split()
TINVS = "TCopyLaw TClosedOnce TReplyLaw TConfig TLoop TNoStuck".split()
FIELDS = ["ampcache", "front", "ice", "max", "url", "utls-nosni", "utls-imitate", "fingerprint"]

# (name, base configuration, constant overrides, expected verdict, generation configuration or None, its overrides):
# configurations that MUST be violated - the properties are not vacuous; where the violation is visible at the
# replay grain the counterexample is a schedule for the real code (which must NOT show the failure)
WHATIF = [
    ("asis-config", "MC_asis_config.cfg", {}, "invariant:ConfigIsolation", "Gen_socks2.cfg", {"AsIs_SharedConfig": "TRUE"}),
    ("doneUnbuffered", "MC_copy.cfg", {"Mut": '"doneUnbuffered"'}, "invariant:NoLeak", "Gen_copy.cfg", {"Mut": '"doneUnbuffered"'}),
    ("waitBoth", "MC_copy.cfg", {"Mut": '"waitBoth"'}, "invariant:NoStuck", "Gen_copy.cfg", {"Mut": '"waitBoth"'}),
    ("noDeferConn", "MC_socks1.cfg", {"Mut": '"noDeferConn"'}, "invariant:SocksClosedOnce", "Gen_socks1.cfg", {"Mut": '"noDeferConn"'}),
    ("noSfClose", "MC_copy.cfg", {"Mut": '"noSfClose"'}, "invariant:SfClosedOnce", "Gen_copy.cfg", {"Mut": '"noSfClose"'}),
    ("noShutdownCase", "MC_socks1.cfg", {"Mut": '"noShutdownCase"'}, "invariant:NoStuck", "Gen_socks1.cfg", {"Mut": '"noShutdownCase"'}),
    ("noWgDone", "MC_socks1.cfg", {"Mut": '"noWgDone"'}, "invariant:NoStuck", "Gen_socks1.cfg", {"Mut": '"noWgDone"'}),
    ("breakOnTemp", "MC_socks1.cfg", {"Mut": '"breakOnTemp"'}, "invariant:LoopEndsOnlyOnPerm", "Gen_socks1.cfg", {"Mut": '"breakOnTemp"'}),
    ("rejectEndsLoop", "MC_socks1.cfg", {"Mut": '"rejectEndsLoop"'}, "invariant:LoopEndsOnlyOnPerm", "Gen_socks1.cfg", {"Mut": '"rejectEndsLoop"'}),
    ("grantOnBadMax", "MC_socks1.cfg", {"Mut": '"grantOnBadMax"'}, "invariant:ReplyLaw", "Gen_socks1.cfg", {"Mut": '"grantOnBadMax"'}),
]
GEN_WANT = {}
WHATIF_LIVE = [
    ("noShutdownCase/live", "MC_main.cfg", {"Mut": '"noShutdownCase"'}, "ShutdownExits", "temporal:ShutdownExits"),
    ("noWgDone/live", "MC_main.cfg", {"Mut": '"noWgDone"'}, "ShutdownExits", "temporal:ShutdownExits"),
]
GEN_MODE = {"Gen_copy.cfg": "copy", "Gen_socks1.cfg": "socks", "Gen_socks2.cfg": "socks", "Gen_sim.cfg": "socks", "Gen_main.cfg": "proc", "Gen_main2.cfg": "proc"}


# --------------------------------------------------------------------------
# behaviours -> command schedules

def parse_label(label):
    """'GConnect(("max" :> "ok" @@ "url" :> "absent"))' -> ("GConnect", {"max": "ok", ...}) ; other labels as vlib.parse_action"""
    m = re.match(r"^(\w+)\((.*)\)$", label.strip())
    if m and ":>" in m.group(2):
        return [m.group(1), {k: v for k, v in re.findall(r'"([\w-]+)" :> "(\w+)"', m.group(2))}]
    return vlib.parse_action(label)


def cmd_of(label):
    """TLC action label of a GenSpec command -> harness command"""
    a = parse_label(label)
    n, args = a[0], a[1:]
    if n in ("GConnect", "LAcceptConn"):
        return {"op": "Connect", "args": {k: v for k, v in sorted(args[0].items()) if v != "absent"}}
    if n in ("GAcceptRetryAtOnce", "GAcceptRetryAfterPause", "AcceptRetryAtOnce", "AcceptRetryAfterPause"):     # one command: the code decides which
        return {"op": "AcceptTemp"}
    if n in ("GAcceptPerm", "LAcceptPerm"):
        return {"op": "AcceptPerm"}
    for g in ("SocksChunk", "SocksWriteFail", "SfChunk", "SfWriteFail"):
        if n in ("G" + g, g):
            return {"op": g, "i": args[0]}
    for g in ("SocksEnd", "SfEnd"):
        if n in ("G" + g, g):
            return {"op": g, "i": args[0], "kind": args[1]}
    if n in ("GShutdown", "EnvShutdown"):
        return {"op": "Shutdown"}
    if n in ("GSigterm", "MSigterm"):
        return {"op": "Sigterm"}
    if n in ("GStdinEOF", "MStdinEOF"):
        return {"op": "StdinEOF"}
    return None


def key_of(s):
    return (s["mode"],) + tuple((x["op"], x.get("i"), x.get("kind"), json.dumps(x.get("args"), sort_keys=True), json.dumps(x.get("burst"), sort_keys=True)) for x in s["steps"])


def burst_schedules(rng, scheds, n):
    """requests whose handlers run side by side: bursts of 2-3 Connect commands (argument vectors drawn from the TLC
    behaviours already generated; every vector gets fingerprint = ok, which attributes the configs seen at the
    hook; an unparsable max never reaches the hook and is left out), then the shutdown broadcast"""
    vecs = [x["args"] for s in scheds if s["mode"] == "socks" for x in s["steps"] if x["op"] == "Connect" and x["args"].get("max") != "bad"]
    out = []
    for _ in range(n if vecs else 0):
        burst = [dict(rng.choice(vecs), fingerprint="ok") for _ in range(rng.choice([2, 3, 3]))]
        steps = [{"op": "ConnectBurst", "burst": burst}]
        if rng.random() < 0.7:
            steps.append({"op": "Shutdown"})
        out.append({"mode": "socks", "steps": steps, "src": "burst"})
    return out


def nontrivial(s):
    """non-trivial: an error / end-of-stream / shutdown event or a SOCKS request with arguments, next to another command"""
    ops = [x["op"] for x in s["steps"]]
    hot = {"AcceptTemp", "AcceptPerm", "SocksEnd", "SfEnd", "SocksWriteFail", "SfWriteFail", "Shutdown", "Sigterm", "StdinEOF"}
    return "ConnectBurst" in ops or (len(ops) > 1 and (bool(hot & set(ops)) or any(x.get("args") for x in s["steps"])))


def dump_graph(chk, cfg):
    d = vlib.scratch("climain-dot")
    dot = os.path.join(d, cfg.replace(".cfg", ".dot"))
    r = vlib.tlc(SPECDIR, "ClientMain", cfg, workers=2, timeout=900, dump_dot=dot, keep_prints=False, heap="3g")
    if r.error:
        raise vlib.Inconclusive("ClientMain GenSpec %s: %s\n%s" % (cfg, r.error, r.out[-1500:]))
    return extgraph.Graph(dot, cmd_of), r


def simulate(chk, cfg, num, depth, over=None, tag=""):
    d = vlib.scratch("climain-sim-%s%s-%d" % (cfg, tag, chk.seed))
    files, cfgname = None, cfg
    if over:
        consts = extgraph.with_constants(extgraph.read_cfg_constants(os.path.join(SPECDIR, cfg)), **over)
        cfgname = cfg.replace(".cfg", "%s.cfg" % tag)
        files = {cfgname: extgraph.cfg_text(consts, "GenSpec", invariants=INVS)}
    r = vlib.tlc(SPECDIR, "ClientMain", cfgname, workers=1, timeout=600, simulate="file=%s/t,num=%d" % (d, num),
                 depth=depth, seed=chk.seed, keep_prints=False, files=files)
    if r.error:
        raise vlib.Inconclusive("ClientMain simulation %s: %s" % (cfg, r.error))
    out = []
    for f in sorted(os.listdir(d)):
        steps = []
        with open(os.path.join(d, f)) as fh:
            for line in fh:
                m = re.match(r'^\\\* <(\w+(?:\(.*\))?) line \d+, col ', line)
                if m and m.group(1).startswith("G"):
                    c = cmd_of(m.group(1))
                    if c is not None:
                        steps.append(c)
        if steps:
            out.append(steps)
    return r, out


# --------------------------------------------------------------------------
# model checking

def cex_labels(out):
    """action labels (with arguments, which may contain parentheses) of the states of a TLC counterexample"""
    return [m.group(1) for m in re.finditer(r"^State \d+: <(\w+(?:\(.*\))?) line \d+, col ", out, re.M)]


def model_check_start(chk, q):
    """design-level model checking + vacuity guards, all started side by side; model_check_collect joins them"""
    cfgs = ["MC_q_copy.cfg", "MC_q_socks.cfg", "MC_q_main.cfg", "MC_table.cfg"] if q else \
           ["MC_copy.cfg", "MC_socks1.cfg", "MC_main.cfg", "MC_table.cfg", "MC_copy2.cfg", "MC_socks2.cfg", "MC_main2.cfg", "MC_table2.cfg"]
    jobs = []
    for cfg in cfgs:
        big = cfg in ("MC_copy2.cfg", "MC_socks2.cfg", "MC_main2.cfg")
        jobs.append((cfg, extgraph.Bg(vlib.tlc, SPECDIR, "ClientMain", cfg, workers=(6 if big else 4 if cfg == "MC_table.cfg" else 2), timeout=1500, keep_prints=False,
                                      coverage=(not q and cfg in ("MC_copy.cfg", "MC_socks1.cfg", "MC_main.cfg")), heap="4g" if big else None)))
    guards = []
    for name, base, over, want, gen, gover in WHATIF:
        gbg = bg = None
        if gen is not None:
            gconsts = extgraph.with_constants(extgraph.read_cfg_constants(os.path.join(SPECDIR, gen)), **gover)
            gbg = extgraph.Bg(extgraph.tlc_raw, None, SPECDIR, "ClientMain", "WG_%s.cfg" % name, extgraph.cfg_text(gconsts, "GenSpec", invariants=INVS), workers=1, timeout=300)
        if want is not None and (gen is None or not q) and not name.startswith("asis-"):
            consts = extgraph.with_constants(extgraph.read_cfg_constants(os.path.join(SPECDIR, base)), **over)
            bg = extgraph.Bg(extgraph.tlc_raw, None, SPECDIR, "ClientMain", "WI_%s.cfg" % name, extgraph.cfg_text(consts, "Spec", invariants=INVS), workers=1, timeout=300)
        guards.append((name, want, gen, gbg, bg))
    lives = []
    if not q:
        for name, base, over, prop, want in WHATIF_LIVE:
            consts = extgraph.with_constants(extgraph.read_cfg_constants(os.path.join(SPECDIR, base)), **over)
            txt = extgraph.cfg_text(consts, "Spec", invariants=["TypeOK"], properties=[prop])
            lives.append((name, want, extgraph.Bg(extgraph.tlc_raw, None, SPECDIR, "ClientMain", "WL_%s.cfg" % name.replace("/", "_"), txt, workers=1, timeout=600)))
    chk.cov["clientmain_whatif"] = [g[0] for g in guards] + [x[0] for x in lives]
    return jobs, guards, lives


def model_check_collect(chk, started):
    jobs, guards, lives = started
    taken = {}
    for cfg, bg in jobs:
        r = bg.get()
        chk.add_tlc(r)
        chk.note("TLC ClientMain %s: %d distinct states, error=%s (%.0fs)" % (cfg, r.distinct, r.error, r.wall))
        if r.error:
            chk.fail("ClientMain model check %s failed in the model alone (no verdict): %s\n%s" % (cfg, r.error, r.out[-2500:]))
        for a, (d, t) in r.coverage.items():
            taken[a] = taken.get(a, 0) + t
    if taken:
        never_ok = {"Init", "DialWillFail"}
        zero = sorted(a for a, t in taken.items() if t == 0 and a not in never_ok)
        chk.cov.setdefault("coverage_zero_actions", [])
        chk.cov["coverage_zero_actions"] += ["ClientMain:" + z for z in zero]
        if zero:
            chk.fail("vacuity: ClientMain actions never taken in the configurations run with -coverage: %s" % zero)
    for name, want, gen, gbg, bg in guards:
        if bg is not None:
            v, r = bg.get()
            chk.add_tlc(r)
            if v != want:
                chk.fail("vacuity: ClientMain what-if configuration %s gives %s, expected %s" % (name, v, want))
    for name, want, bg in lives:
        v, r = bg.get()
        chk.add_tlc(r)
        if v != want:
            chk.fail("vacuity: ClientMain what-if configuration %s gives %s, expected %s" % (name, v, want))


def guard_schedules(chk, started):
    """minimal failing schedules of the what-if models at the replay grain: on the unchanged code they must run
    WITHOUT the failure the what-if model predicts"""
    out = []
    for name, want, gen, gbg, _ in started[1]:
        want = GEN_WANT.get(name, want)
        if gbg is None:
            continue
        v, r = gbg.get()
        chk.add_tlc(r)
        if v != want:
            chk.fail("vacuity: ClientMain what-if %s gives %s at the replay grain (%s), expected %s" % (name, v, gen, want))
            continue
        steps = [c for c in (cmd_of(l) for l in cex_labels(r.out) if l.startswith("G")) if c]
        if steps:
            out.append({"mode": GEN_MODE[gen], "steps": steps, "src": "cex:" + name})
    return out


# --------------------------------------------------------------------------
# harness + trace validation

def harness_binary():
    return vlib.go_test_compile_inpkg("client", [HFILE], "clientmain.test", linkflag=True)


class Crash(Exception):
    def __init__(self, ndone, message, out):
        Exception.__init__(self, message)
        self.ndone, self.message, self.out = ndone, message, out


def crash_message(out):
    """the panic / fatal error of a harness process that died in the code under test (None: it died elsewhere)"""
    m = re.search(r"^(panic: .*|fatal error: .*)$", out, re.M)
    if not m:
        return None
    tail = out[m.start():]
    first = tail.split("\n\n")[0] + "\n" + (tail.split("\n\n")[1] if "\n\n" in tail else "")
    frames = re.findall(r"^(\S+)\(.*\)$", first, re.M)
    own = [f for f in frames if "snowflake.git/v2/" in f and ".vCli" not in f and ".(*vCli" not in f]
    if not own:
        return None
    return re.sub(r"0x[0-9a-f]+|\d+", "N", m.group(1))[:100]


def run_shard(binary, scheds, tag, patience_ms=None, extra_env=None):
    d = vlib.scratch("climain-run")
    inp, outp = os.path.join(d, tag + ".sched.ndjson"), os.path.join(d, tag + ".traces.ndjson")
    vlib.write_ndjson(inp, [{k: s[k] for k in ("id", "mode", "steps") if k in s} for s in scheds])
    env = dict(os.environ)
    env.update({"VERIF_CLI_SCHED": inp, "VERIF_CLI_OUT": outp})
    if patience_ms:
        env["VERIF_CLI_PATIENCE_MS"] = str(patience_ms)
    env.update(extra_env or {})
    r = vlib.run([binary, "-test.run=^TestVerifClientMain$", "-test.timeout=900s", "-test.count=1"], cwd=d, env=env, timeout=960)
    traces = vlib.read_ndjson(outp) if os.path.exists(outp) else []
    # (a -race build - VERIF_RACE=1, the C20 monitor - fails the test function when the detector reported something:
    # the reports are C20's business, the traces are complete and are judged here as usual)
    raced = vlib.want_race(False) and r.rc == 1 and "race detected during execution of test" in r.out
    if r.timed_out or (r.rc != 0 and not raced) or "VERIF_CLI schedules=" not in r.out:
        msg = None if r.timed_out else crash_message(r.out)
        if msg is not None and len(traces) < len(scheds):
            raise Crash(len(traces), msg, r.out)
        raise vlib.Inconclusive("clientmain harness failed (rc=%s timeout=%s):\n%s" % (r.rc, r.timed_out, r.out[-3000:]))
    if len(traces) != len(scheds):
        raise vlib.Inconclusive("clientmain harness returned %d traces for %d schedules" % (len(traces), len(scheds)))
    return traces


CRASHED = set()


def run_shard_surviving(chk, binary, scheds, tag, patience_ms=None, extra_env=None):
    """run_shard, but a process that dies inside the code under test is a finding of the schedule that was running:
    it is confirmed alone, reported, and the rest of the shard continues in a new process"""
    out, rest, crashes = [], list(scheds), 0
    while rest:
        try:
            return out + run_shard(binary, rest, "%s-%d" % (tag, crashes), patience_ms, extra_env)
        except Crash as c:
            crashes += 1
            culprit = rest[c.ndone]
            partial = vlib.read_ndjson(os.path.join(vlib.scratch("climain-run"), "%s-%d.traces.ndjson" % (tag, crashes - 1)))
            out += partial[:c.ndone]
            try:
                run_shard(binary, [dict(culprit, id=1)], "%s-crash-%d" % (tag, crashes), 5000, extra_env)
                chk.fail("ClientMain: the harness process died (%s) while running %s, but not when that schedule ran alone" % (c.message, json.dumps(culprit["steps"])))
            except Crash as c2:
                sig = "ClientMain/crash:" + re.sub(r"[^A-Za-z0-9]+", "-", c2.message).strip("-")[:60]
                chk.violation(sig, "the process died inside the client main loop: %s; schedule: %s\n%s" % (c2.message, json.dumps(culprit["steps"]), c2.out[-1500:]),
                              {"kind": "clientmain", "schedule": culprit, "crash": c2.message})
            if crashes >= 3:
                raise vlib.Inconclusive("clientmain harness: the process died %d times (%s)" % (crashes, c.message))
            CRASHED.add(culprit["id"])
            rest = rest[c.ndone + 1:]
    return out


def run_schedules(binary, scheds, tag, patience_ms=None, shards=SHARDS, extra_env=None, chk=None):
    """one schedule at a time per process (hook, logger and goroutine census are process-wide); several processes side by side"""
    if not scheds:
        return []
    shards = max(1, min(shards, len(scheds)))
    parts = [scheds[i::shards] for i in range(shards)]
    if chk is not None:
        jobs = [extgraph.Bg(run_shard_surviving, chk, binary, part, "%s-%d" % (tag, i), patience_ms, extra_env) for i, part in enumerate(parts)]
    else:
        jobs = [extgraph.Bg(run_shard, binary, part, "%s-%d" % (tag, i), patience_ms, extra_env) for i, part in enumerate(parts)]
    out = []
    for j in jobs:
        out += j.get()
    return sorted(out, key=lambda t: t["id"])


def cfg_brief(c):
    if not c.get("hascfg"):
        return "-"
    return ",".join("%s=%s" % (f, {0: "flag", -2: "?"}.get(c["cfg"][f], "arg%s" % c["cfg"][f])) for f in FIELDS)


def brief(e):
    if e.get("ev") == "obs":
        return "obs loop=%s pauses=%d lncloses=%d shutdown=%s wgzero=%s sfcloses=%d conns=%s" % (
            e["loop"], e["pauses"], e["lncloses"], e["shutdown"], e["wgzero"], e["sfcloses"],
            ["%s/%s/%s/%s reply=%s sclosed=%s cfg[%s]" % (c["h"], c["d"], c["u"], c["v"], c["reply"], c["sclosed"], cfg_brief(c)) for c in e["conns"]])
    if e.get("ev") == "cobs":
        return "cobs caller=%s/%s copiers=%s/%s closes socks=%d sf=%d taken=%d/%d socks-got=%s sf-got=%s" % (
            e["h"], e["d"], e["u"], e["v"], e["sclosed"], e["fclosed"], e["staken"], e["ftaken"], e["sgot"], e["fgot"])
    if e.get("ev") == "pobs":
        return "pobs exited=%s%s conns=%s" % (e["exited"], (" exit=%s after %d ms" % (e.get("code"), e.get("ms", -1))) if e["exited"] else "",
                                              ["reply=%s sclosed=%s cfg[%s]" % (c["reply"], c["sclosed"], cfg_brief(c)) for c in e["conns"]])
    return json.dumps(e, sort_keys=True)


def config_signature(i, c, args, earlier=()):
    """what is wrong with the config connection i (1-based) was given, in abstract terms; None: nothing visible"""
    if not c.get("hascfg"):
        return None
    for f in FIELDS:
        v = c["cfg"][f]
        cls = args.get(f, "absent")
        if f == "utls-nosni":
            want_true = cls == "ok"
            if bool(v) != want_true:
                other = any(a.get("utls-nosni") == "ok" for a in earlier)
                return "ClientMain/config:utls-nosni-%s" % (("set-by-another-connection" if other or cls != "bad" else "set-by-a-value-that-is-neither-true-nor-yes") if v else "not-applied")
            continue
        if v == -2:
            return "ClientMain/config:value-nobody-sent/%s" % f
        if v not in (0, i):
            return "ClientMain/config:argument-of-another-connection-in-force"
        if cls in ("ok", "bad") and v != i and not (f == "max" and cls == "bad"):
            return "ClientMain/config:own-argument-not-applied/%s" % f
        if cls == "absent" and v != 0:
            return "ClientMain/config:argument-of-another-connection-in-force"
    return None


def signature(trace, hw):
    """canonical signature of a rejected trace from its first unexplained event: the abstract situation only"""
    evs = trace["events"]
    e = evs[hw - 1] if 0 < hw <= len(evs) else {}
    before = evs[:max(hw - 1, 0)]
    prev_obs = next((x for x in reversed(before) if x.get("ev") in ("obs", "pobs", "cobs")), None)
    cmd = next((x for x in reversed(before) if x.get("ev") not in ("obs", "pobs", "cobs")), {})
    cname = cmd.get("ev", "?") + (":" + cmd["kind"] if "kind" in cmd else "")
    connects = [x for x in before if x.get("ev") == "Connect"]
    signalled = any(x.get("ev") in ("Sigterm", "StdinEOF", "Shutdown") for x in before)
    if e.get("ev") == "cobs":
        if e["u"] == "signal" or e["v"] == "signal":
            return "ClientMain/leak:copier-parked-at-done-send"
        if e["d"] == "done" and (e["u"] != "done" or e["v"] != "done"):
            return "ClientMain/leak:copier-left-behind"
        for side, got in (("up", e["fgot"]), ("down", e["sgot"])):
            if got != list(range(1, len(got) + 1)):
                return "ClientMain/copy:%s-stream-corrupt/after-%s" % (side, cname)
        if e["d"] == "done" and (e["sclosed"] != 1 or e["fclosed"] != 1):
            return "ClientMain/copy:closes-socks=%d-sf=%d" % (e["sclosed"], e["fclosed"])
        if e["d"] == "copy" and (e["u"], e["v"]) != ("read", "read"):
            return "ClientMain/hang:copyLoop-does-not-return-when-one-direction-ended"
        if cmd.get("ev") in ("SocksChunk", "SfChunk") and prev_obs is not None and e["sgot"] == prev_obs["sgot"] and e["fgot"] == prev_obs["fgot"] and e["d"] == "copy":
            return "ClientMain/copy:chunk-missing/after-%s" % cname
        return "ClientMain/copy:unexplained/after-%s/d=%s/u=%s/v=%s" % (cname, e["d"], e["u"], e["v"])
    if e.get("ev") not in ("obs", "pobs"):
        return "ClientMain/unexplained:command-%s" % e.get("ev")
    proc = e["ev"] == "pobs"
    if proc:
        if signalled and not e["exited"]:
            return "ClientMain/main:no-exit-after-%s" % next(x["ev"] for x in before if x.get("ev") in ("Sigterm", "StdinEOF"))
        if e["exited"] and not signalled:
            return "ClientMain/main:exit-without-signal/after-%s" % cname
    else:
        ntemp = sum(1 for x in before if x.get("ev") == "AcceptTemp")
        nperm = sum(1 for x in before if x.get("ev") == "AcceptPerm")
        if e["loop"] == "busy":
            return "ClientMain/acceptLoop:not-accepting-while-a-connection-is-handled"
        if e["loop"] == "ended" and nperm == 0:
            return "ClientMain/acceptLoop:ended-without-permanent-error/after-%s" % cname
        if e["loop"] != "ended" and nperm > 0:
            return "ClientMain/acceptLoop:survives-permanent-error"
        if e["loop"] == "ended" and e["lncloses"] == 0:
            return "ClientMain/acceptLoop:ended-without-closing-the-listener"
    for i, c in enumerate(e["conns"]):
        was = prev_obs["conns"][i] if prev_obs and i < len(prev_obs["conns"]) else None
        if was is not None and was == c:
            continue
        args = connects[i]["args"] if i < len(connects) else {}
        bad_max = args.get("max") == "bad"
        sig = config_signature(i + 1, c, args, [x["args"] for x in connects[:i]])
        if sig:
            return sig
        if c["reply"] == "none" or c["reply"] == "error":
            return "ClientMain/reply:none/%s" % ("handshake-failed" if c.get("hserr") else "after-" + cname)
        if bad_max and c["reply"] != "rejected":
            return "ClientMain/reply:granted-although-max-is-not-a-number"
        if c["reply"] == "rejected" and not bad_max and not any(args.get(f) == "bad" for f in ("url", "ampcache", "utls-imitate")):
            return "ClientMain/reply:rejected-although-every-argument-is-acceptable"
        if c["reply"] == "granted" and any(args.get(f) == "bad" for f in ("url", "ampcache", "utls-imitate")):
            return "ClientMain/reply:granted-although-the-config-is-refused"
        if not bad_max and not c.get("hascfg"):
            return "ClientMain/config:not-seen"
        if not proc:
            if c["h"] == "done" and not c["sclosed"]:
                return "ClientMain/handler:returned-socks-conn-open"
            if signalled and c["h"] != "done":
                return "ClientMain/shutdown:handler-still-there/h=%s" % c["h"]
            if c["u"] == "signal" or c["v"] == "signal":
                return "ClientMain/leak:copier-parked-at-done-send"
            if c["h"] == "done" and c["d"] == "done" and (c["u"] != "done" or c["v"] != "done"):
                return "ClientMain/leak:copier-left-behind"
            if c["h"] == "select" and cmd.get("ev") == "SocksEnd" and cmd.get("i") == i + 1:
                return "ClientMain/hang:handler-stays-after-the-socks-stream-ended/d=%s/u=%s/v=%s" % (c["d"], c["u"], c["v"])
        else:
            if signalled and not c["sclosed"]:
                return "ClientMain/main:socks-conn-open-after-exit"
    if not proc:
        if signalled and not e["wgzero"]:
            return "ClientMain/shutdown:waitgroup-not-zero"
        ndone = sum(1 for c in e["conns"] if c["d"] == "done")
        if e["sfcloses"] != ndone:
            return "ClientMain/dial:snowflake-conn-closed-%d-times-for-%d-finished-dials" % (e["sfcloses"], ndone)
    return "ClientMain/unexplained:after-%s" % cname


def retry_note(chk, traces):
    """what the accept loop did between a temporary Accept error and the next Accept call: noted, never judged"""
    ntemp = npause = 0
    for t in traces:
        obs = [e for e in t["events"] if e.get("ev") == "obs"]
        ntemp += sum(1 for e in t["events"] if e.get("ev") == "AcceptTemp")
        npause += obs[-1]["pauses"] if obs else 0
    if ntemp:
        chk.note("ClientMain observation (not judged): %d temporary Accept errors; the loop called Accept again at once after %d of them and paused (>= 4 ms) "
                 "before the next call after %d" % (ntemp, ntemp - npause, npause))
        chk.cov.setdefault("observations", {})["clientmain_accept_retry"] = {"temporary_errors": ntemp, "retried_at_once": ntemp - npause, "paused_first": npause}


def trace_cfg(mode):
    consts = extgraph.with_constants(extgraph.read_cfg_constants(os.path.join(SPECDIR, "Trace.cfg")),
                                     WithMain="TRUE" if mode == "proc" else "FALSE", Mode='"copy"' if mode == "copy" else '"socks"',
                                     SfScripted="TRUE" if mode == "copy" else "FALSE",
                                     MaxPerm="0" if mode == "proc" else "1")
    return extgraph.cfg_text(consts, "TSpec", constraint="Mark", post="Post", invariants=TINVS)


def validate(chk, traces, tag):
    """TLC decides, per trace, whether ClientMain explains it.  Returns (accepted, [(trace, hw)] rejected)."""
    groups = collections.defaultdict(list)
    noted = [t for t in traces if t.get("note")]
    if noted:
        chk.fail("clientmain harness: %d schedule(s) without a usable trace, e.g. schedule %s: %s" % (len(noted), noted[0]["id"], noted[0]["note"]))
    for t in traces:
        if t.get("note"):
            continue
        groups[t["mode"]].append(t)
    jobs = []
    for mode, ts in sorted(groups.items()):
        d = vlib.scratch("climain-tv")
        nparts = 4 if len(ts) > 100 else 1
        for pi in range(nparts):
            part = ts[pi::nparts]
            f = os.path.join(d, "%s-%s-%d.ndjson" % (tag, mode, pi))
            vlib.write_ndjson(f, part)
            cfgname = "TV_%s.cfg" % mode
            jobs.append((mode, part, extgraph.Bg(vlib.tlc, SPECDIR, "ClientMain_Trace", cfgname, workers=1, timeout=900,
                                                 files={"traces.ndjson": f, cfgname: trace_cfg(mode)}, heap="3g")))
    accepted, rejected = 0, []
    for mode, ts, bg in jobs:
        r = bg.get()
        chk.add_tlc(r)
        if r.error:
            raise vlib.Inconclusive("ClientMain trace validation %s (model only): %s\n%s" % (mode, r.error, r.out[-2500:]))
        rej = extgraph.trace_verdict(r, len(ts), "ClientMain %s" % mode)
        accepted += len(ts) - len(rej)
        chk.note("TLC ClientMain_Trace %s: %d traces, %d rejected, %d states (%.0fs)" % (mode, len(ts), len(rej), r.distinct, r.wall))
        byid = {t["id"]: t for t in ts}
        rejected += [(byid[tid], hw) for tid, hw in sorted(rej.items())]
    return accepted, rejected


MODE_TEXT = {"socks": "socksAcceptLoop with its handlers, in-package", "copy": "copyLoop between two scripted conns", "proc": "main() in a child process"}


def report(chk, binary, rejected, byid):
    """turn rejected traces into violations; every rejection is confirmed by running the same schedule alone
    with more patience first (the machine may be heavily loaded: what does not reproduce alone is no verdict)"""
    seen = collections.Counter()
    for t, hw in rejected:
        sig = signature(t, hw)
        seen[sig] += 1
        if seen[sig] > 1:
            continue
        if len(chk.violations) >= MAX_REPORT and not any(k.get("key") == sig for k in chk.known):
            continue
        sched = byid[t["id"]]
        again = run_schedules(binary, [dict(sched, id=1)], "confirm", patience_ms=5000, shards=1)
        _, rej2 = validate(chk, again, "confirm")
        if not rej2 or signature(rej2[0][0], rej2[0][1]) != sig:
            chk.fail("ClientMain: %s was seen once and not again when the schedule ran alone with more patience: %s" % (sig, json.dumps(sched["steps"])))
            continue
        t, hw = rej2[0]
        e = t["events"][hw - 1] if hw <= len(t["events"]) else {}
        what = ("the real client main loop (%s) did something spec/ClientMain does not allow: first unexplained event #%d: %s; schedule: %s" % (
            MODE_TEXT[t["mode"]], hw, brief(e), json.dumps(sched["steps"])))
        chk.violation(sig, what, {"kind": "clientmain", "schedule": sched, "trace": t, "first_unexplained": hw})
    for sig, n in seen.items():
        if n > 1:
            chk.note("  %s: %d traces" % (sig, n))


# --------------------------------------------------------------------------

def run_clientmain_part(chk, args):
    chk.known.extend(k for k in KNOWN if k not in chk.known)
    q = chk.tier == "quick"
    rng = random.Random(chk.seed * 7919 + 1515)
    vlib.repo_modfile()
    build = extgraph.Bg(harness_binary)
    scheds, seen = [], set()

    def add(s):
        k = key_of(s)
        if not s["steps"] or k in seen:
            return
        seen.add(k)
        s = dict(s, id=len(scheds) + 1)
        scheds.append(s)

    try:
        graphs = [("Gen_copy.cfg", 10 ** 6, 100 if q else 1000, 14), ("Gen_socks1.cfg", 10 ** 6, 100 if q else 600, 12), ("Gen_main.cfg", 10 if q else 60, 0, 10)]
        graph_jobs = [(g, extgraph.Bg(dump_graph, chk, g[0])) for g in graphs]
        # the full precedence table (1 944 argument vectors) is cut into 32 slices; the seed picks which ones are simulated
        parts = [(chk.seed * 7 + k * 5) % 32 for k in range(1 if q else 5)]
        sims = [("Gen_socks2.cfg", 150 if q else 900, 40, None, "")] + [("Gen_sim.cfg", 100 if q else 250, 60, {"Part": str(pt)}, "-p%d" % pt) for pt in parts]
        if not q:
            sims.append(("Gen_main2.cfg", 60, 40, None, ""))
        sim_jobs = [(cfg, extgraph.Bg(simulate, chk, cfg, num, depth, over, tag)) for cfg, num, depth, over, tag in sims]
        started = model_check_start(chk, q)
        gs = guard_schedules(chk, started)
        chk.note("ClientMain: %d what-if / as-is configurations; %d counterexample schedules at the replay grain" % (len(chk.cov.get("clientmain_whatif", [])), len(gs)))
        for s in gs:
            add(s)
        stats = {}
        for (cfg, limit, nwalk, maxcmds), bg in graph_jobs:
            g, r = bg.get()
            chk.add_tlc(r)
            mode = GEN_MODE[cfg]
            paths, total, covered = g.covering(rng, 10 ** 6, maxcmds=maxcmds)
            if mode == "proc":
                paths = [p for p in paths if any(c["op"] in ("Sigterm", "StdinEOF") for c in g.steps(p))]
                rng.shuffle(paths)
                paths = paths[:limit]
            for p in paths:
                add({"mode": mode, "steps": g.steps(p), "src": "cover:" + cfg})
            for p in g.walks(rng, nwalk, maxcmds):
                add({"mode": mode, "steps": g.steps(p), "src": "walk:" + cfg})
            stats[cfg] = {"states": r.distinct, "edges": len(g.edges), "command_edges": total, "command_edges_covered": covered, "paths": len(paths)}
            chk.note("ClientMain GenSpec %s: %d states, %d edges, %d/%d command edges covered, %d paths taken" % (cfg, r.distinct, len(g.edges), covered, total, len(paths)))
        for cfg, bg in sim_jobs:
            r, behs = bg.get()
            chk.add_tlc(r)
            for steps in behs:
                if GEN_MODE[cfg] == "proc" and not any(c["op"] in ("Sigterm", "StdinEOF") for c in steps):
                    continue
                add({"mode": GEN_MODE[cfg], "steps": steps, "src": "simulate:" + cfg})
        for b in burst_schedules(rng, scheds, 12 if q else 60):
            add(b)
        chk.cov.setdefault("generation", {}).update({"ClientMain:" + k: v for k, v in stats.items()})
        if len(scheds) < 200:
            raise vlib.Inconclusive("vacuous: only %d client main loop schedules generated" % len(scheds))
        binary = build.get()
        inpkg = [s for s in scheds if s["mode"] != "proc"]
        procs = [s for s in scheds if s["mode"] == "proc"]
        pj = extgraph.Bg(run_schedules, binary, procs, "proc", None, 2, None, chk)
        traces = run_schedules(binary, inpkg, "main", shards=SHARDS if q else 6, chk=chk) + pj.get()
        scheds = [s for s in scheds if s["id"] not in CRASHED]
        byid = {s["id"]: s for s in scheds}
        skipped = sum(t["skipped"] for t in traces)
        ncmd = sum(len(x.get("burst") or [1]) for s in scheds for x in s["steps"])
        nmode = collections.Counter(s["mode"] for s in scheds)
        chk.note("ClientMain: replayed %d schedules with %d commands on the real code (%d socks, %d copyLoop, %d against main() in a child process; %d commands not applicable)" % (
            len(scheds), ncmd, nmode["socks"], nmode["copy"], nmode["proc"], skipped))
        if skipped * 5 > max(ncmd, 1):
            raise vlib.Inconclusive("more than 20%% of the commands (%d of %d) were not applicable: the model does not describe the code" % (skipped, ncmd))
        accepted, rejected = validate(chk, traces, "main")
        retry_note(chk, traces)
        report(chk, binary, rejected, byid)
        model_check_collect(chk, started)
        chk.cov["evaluations"] += len(scheds)
        chk.cov["distinct_nontrivial"] += sum(1 for s in scheds if nontrivial(s))
        chk.cov["traces_validated_against_impl"] += accepted
        exits = [e["ms"] for t in traces if t["mode"] == "proc" for e in t["events"] if e.get("ev") == "pobs" and e.get("exited") and "ms" in e]
        argvecs = {json.dumps(x["args"], sort_keys=True) for s in scheds for x in s["steps"] if x["op"] == "Connect"}
        nburst = sum(1 for s in scheds if s.get("src") == "burst")
        chk.cov["clientmain"] = {"schedules": len(scheds), "socks": nmode["socks"], "copyloop": nmode["copy"], "child_process": nmode["proc"], "commands": ncmd,
                                 "commands_skipped": skipped, "accepted": accepted, "rejected": len(rejected), "distinct_argument_vectors": len(argvecs), "bursts": nburst,
                                 "exit_ms_max": max(exits) if exits else None}
        for m in ("socks", "copy", "proc"):
            for s in [x for x in scheds if x["mode"] == m][:1]:
                t = next(t for t in traces if t["id"] == s["id"])
                chk.sample({"clientmain_schedule": {k: s[k] for k in ("mode", "src")}, "steps": s["steps"],
                            "last_observation": brief(t["events"][-1]) if t["events"] else None}, limit=6)
    except vlib.Inconclusive as e:
        chk.fail(str(e))
        try:
            build.get()
        except BaseException:   # noqa: BLE001 - already failing
            pass
    chk.assumptions += [
        "ClientMain: gated replays issue commands only when every goroutine of the code under test is parked (GenSpec); finer interleavings are covered by TLC on the model and by the bursts (2-3 requests let through in a row, handlers side by side, which is also what gives the race detector of C20 concurrent handlers to look at)",
        "ClientMain: the ClientConfig a handler builds is observed where it is handed to sf.NewSnowflakeClient (guarded hook newclient.config); every value carries the identity of the connection (or of the command line) it came from",
        "ClientMain: the real Transport runs with unusable ICE servers, so every attempt to obtain a peer fails before any rendezvous (C15 owns that loop); its Dial never fails; SnowflakeConn.Close is seen through its log line",
        "ClientMain: for copyLoop the two conns are scripted and the closes of its callers (dial goroutine: sconn.Close(); handler: conn.Close()) are mirrored in that order",
        "ClientMain: an observation waits (at most 2 s, 5 s in the confirmation run) for loopback TCP to deliver replies and closes",
        "ClientMain: the child-process rig waits 10 s for main() to exit after the signal",
    ]


def replay_part(chk, rp):
    s = dict(rp["schedule"], id=1)
    binary = harness_binary()
    traces = run_schedules(binary, [s], "replay", shards=1)
    accepted, rejected = validate(chk, traces, "replay")
    report(chk, binary, rejected, {1: s})
    chk.cov["evaluations"] += 1
    chk.cov["traces_validated_against_impl"] += accepted


# standalone use (debugging): bin/check C15_CLIENTMAIN
LEVEL = "model_checking"


def run(chk, args):
    if args.replay:
        with open(args.replay) as fh:
            return replay_part(chk, json.load(fh)["replay"])
    run_clientmain_part(chk, args)
    chk.cov["rule"] = "one evaluation = one schedule executed on the real client main loop and judged by TLC; non-trivial = contains an error / end-of-stream / shutdown event or a SOCKS request with arguments next to other commands"
