"""C10 - AMP armor round-trips and survives cache-style rewriting.
spec/Armor: TLC model-checks the encoder machine (base64 carry, chunkCounter,
elementCounter, real constants) against the closed-form structure contract for
every write chunking, and the scanning decoder against the declarative
first-fault contract on every abstract document; it enumerates round-trip
cases (payload length x write chunking x reader script x consumer read size x
whitespace rewrite x outside-markup insertion) and abstract documents with the
expected result.  harness/cmd/armordrv replays every case through the real
amp.NewArmorEncoder / amp.NewArmorDecoder, checks the structure of the real
encoder output, and feeds hostile 50 MB streams under a watchdog while
measuring heap growth."""
import json
import os
import vlib

LEVEL = "model_checking"
SPECDIR = os.path.join(vlib.SPEC, "Armor")

MC = {"quick": [("MC_enc_quick.cfg", 8), ("MC_doc_quick.cfg", 4)],
      "thorough": [("MC_enc_quick.cfg", 8), ("MC_enc_thorough.cfg", None), ("MC_doc_thorough.cfg", None), ("MC_doc_core.cfg", None)]}
GEN_RT = {"quick": ["Gen_write_quick.cfg", "Gen_rewrite_quick.cfg"],
          "thorough": ["Gen_write_thorough.cfg", "Gen_rewrite_thorough.cfg", "Gen_insert_thorough.cfg"]}
GEN_DOC = {"quick": ["Gen_doc_quick.cfg", "Gen_doc_core_quick.cfg"],
           "thorough": ["Gen_doc_thorough.cfg", "Gen_doc_core_thorough.cfg"]}
MIN_CASES = {"Gen_stream.cfg": 1000, "Gen_write_quick.cfg": 500, "Gen_rewrite_quick.cfg": 3000, "Gen_doc_quick.cfg": 10000, "Gen_doc_core_quick.cfg": 30000,
             "Gen_write_thorough.cfg": 10000, "Gen_rewrite_thorough.cfg": 50000, "Gen_insert_thorough.cfg": 5000,
             "Gen_doc_thorough.cfg": 100000, "Gen_doc_core_thorough.cfg": 50000}


def run(chk, args):
    drv = vlib.go_build("./cmd/armordrv", "armordrv", linkflag=False)
    if args.replay:
        return replay(chk, drv, args.replay)
    # 1. design level: encoder machine = structure contract for every chunking;
    #    scanning decoder = declarative first fault on every document
    for cfg, workers in MC[chk.tier]:
        r = vlib.tlc(SPECDIR, "Armor", cfg, workers=workers, timeout=1500, keep_prints=False)
        chk.add_tlc(r)
        chk.note("TLC %s: %d distinct states, error=%s (%.0fs)" % (cfg, r.distinct, r.error, r.wall))
        if r.error:
            chk.fail("model check %s failed: %s\n%s" % (cfg, r.error, r.out[-2500:]))
            return
        if r.distinct < 1000:
            chk.fail("vacuous: %s explored only %d states" % (cfg, r.distinct))
            return
    # 2. round-trip cases through the real encoder and decoder
    deviations = 0
    classes = {}
    for cfg in GEN_RT[chk.tier]:
        cases = generate(chk, cfg)
        if cases is None:
            return
        for c in cases:
            k = c["expect"]["class"]
            classes[k] = classes.get(k, 0) + 1
        chk.sample(slim(cases[len(cases) // 2]))
        s = vlib.drive_cases(chk, drv, ["rt"], cases, [chk.seed], tag="rt", timeout=1500)
        chk.note("%s: %d cases replayed, %d decodes, %d watchdog suspects" % (cfg, s["cases"], s["decodes"], s["suspects"]))
    if not classes.get("oversize") or not classes.get("data") or not classes.get("band"):
        chk.fail("vacuous: expected-result classes of the round-trip cases are %s" % classes)
        return
    # 3. abstract documents (totality, error classes)
    for cfg in GEN_DOC[chk.tier]:
        cases = generate(chk, cfg)
        if cases is None:
            return
        for c in cases:
            for f in c["expect"]["first"]:
                classes["doc:" + f["class"]] = classes.get("doc:" + f["class"], 0) + 1
        chk.sample(cases[len(cases) * 2 // 3])
        s = vlib.drive_cases(chk, drv, ["doc"], cases, [chk.seed], tag="doc", timeout=1500)
        deviations += int(s.get("deviations", 0))
        chk.note("%s: %d documents, %d decodes, %d tolerated order deviations %s" % (
            cfg, s["cases"], s["decodes"], s.get("deviations", 0), s.get("deviation_examples") or ""))
    for need in ("version", "stray", "nested", "unterminated", "oversize", "badb64", "data", "noversion"):
        if not classes.get("doc:" + need):
            chk.fail("vacuous: no abstract document with expected class %s" % need)
            return
    # 4. endless streams prefix.unit.unit... (a pre interleaved with inner tags, ...) from a counting source:
    #    an error or the first decoded byte after a bounded amount of input
    cases = generate(chk, "Gen_stream.cfg")
    if cases is None:
        return
    kinds = {}
    for c in cases:
        kinds[c["expect"]["kind"]] = kinds.get(c["expect"]["kind"], 0) + 1
    if not kinds.get("prompt") or not kinds.get("error") or not kinds.get("silent"):
        chk.fail("vacuous: stream classes %s" % kinds)
        return
    chk.sample(next(c for c in cases if c["expect"]["kind"] == "prompt" and "Tag" in c["unit"]))
    rounds = 1 if chk.tier == "quick" else 2
    for rnd in range(rounds):
        s = vlib.drive_cases(chk, drv, ["stream"], cases, [chk.seed + 104729 * rnd, 256 if chk.tier == "quick" else 512], tag="stream", timeout=900)
    chk.note("endless streams: %d streams x %d rounds (%s), %d watchdog suspects" % (len(cases), rounds, kinds, s["suspects"]))
    classes.update({"stream:" + k: v for k, v in kinds.items()})
    # 5. hostile streams: termination, live heap bounded, prompt delivery over 50 MB
    #    (quick: the streams of many small tokens are 4 times shorter)
    s = vlib.drive_cases(chk, drv, ["extra"], None, [50, 4 if chk.tier == "quick" else 1], tag="extra", timeout=1500)
    worst = max(int(x["heap_growth"]) for x in s["streams"])
    chk.note("hostile streams: %d streams of up to 50 MB, largest live-heap growth %d bytes" % (len(s["streams"]), worst))
    chk.cov["expected_classes"] = classes
    chk.cov["tolerated_order_deviations"] = deviations
    chk.cov["hostile_streams"] = s["streams"]
    chk.cov["exhaustive"] = True
    chk.cov["traces_validated_against_impl"] = 0
    chk.cov["rule"] = ("cases are TLC initial states of spec/Armor. A round-trip case is non-trivial when the payload is non-empty and at "
                       "least one of write chunking, reader script, consumer read size, rewrite, insertion differs from the plain one; "
                       "an abstract document is non-trivial when it contains a <pre>; every hostile stream counts")
    chk.assumptions += ["payload bytes and the concrete spelling of tokens are seeded pseudo-random choices (content classes are not enumerated by TLC)",
                        "encoding/base64 of the Go standard library computes the reference decoding of concretised documents",
                        "buffering is measured as live heap: runtime.GC + MemStats.HeapAlloc taken inside the source's Read every MB handed out (decoder standing still), bound 2 MiB; prompt delivery = first decoded byte within 128 KiB of input (spec PromptBytes)"]


def generate(chk, cfg):
    r = vlib.tlc(SPECDIR, "Armor", cfg, workers=1, timeout=1500)
    chk.add_tlc(r)
    if r.error:
        chk.fail("case generation %s failed: %s\n%s" % (cfg, r.error, r.out[-1500:]))
        return None
    cases = r.prints
    chk.note("TLC %s: %d cases (%.0fs)" % (cfg, len(cases), r.wall))
    if len(cases) < MIN_CASES.get(cfg, 1):
        chk.fail("vacuous: %s produced only %d cases" % (cfg, len(cases)))
        return None
    return cases


def slim(case):
    c = json.loads(json.dumps(case))
    if len(c.get("expect", {}).get("elems", [])) > 2:
        c["expect"]["elems"] = c["expect"]["elems"][:2] + ["..."]
    return c


def replay(chk, drv, path):
    with open(path) as fh:
        doc = json.load(fh)
    rp, seed = doc["replay"], doc.get("seed", chk.seed)     # the seed of the run that found it
    mode = rp["args"][0]
    if rp.get("case") is None or mode == "extra":
        vlib.drive_cases(chk, drv, ["extra"], None, [50], tag="replay")
    else:
        env = dict(os.environ, VERIF_IDX_BASE=str(rp.get("idx") or 0))
        vlib.drive_cases(chk, drv, [mode], [rp["case"]], [seed], tag="replay", env=env)


MANIFEST = {
    "technique": "TLA+ spec Armor: TLC model-checks the encoder machine (base64 carry, chunk/element counters, real constants 32/992/32 KiB) = closed-form structure contract for every write chunking, and the scanning decoder = declarative first-fault contract on every abstract document; TLC enumerates round-trip cases and documents with expected results; Go driver replays them through amp.NewArmorEncoder/NewArmorDecoder with scripted writers/readers, checks the real output's structure, and measures heap growth on 50 MB hostile streams under a watchdog",
    "text": "The structure of the armored document (characters, words <= 32 bytes, elements <= 992 words and <= 32 KiB) is closed-form TLA+ arithmetic; TLC proves on the bounded space that the encoder machine emits exactly that structure whatever the chunking and terminates, and that a streaming decoder's verdict on a token document is the declaratively defined first fault. Every enumerated case (length x chunking x reader x consumer x whitespace rewrite x outside insertion; documents of <= 6 tokens) is executed against the real package and compared with TLC's expectation. Exhaustive over the contract's partitions, so model_checking bound to code by differential replay.",
    "note": "Bounded: payload lengths on the chunk/element boundaries up to 131 073 bytes, cyclic write/read scripts, documents of <= 5 tokens over 13 kinds and 6 tokens over 7 kinds; bytes are seeded pseudo-random. Don't-care: element text of 32766..32768 bytes, which of several faults is named, data delivered before an error, any single token > 32 KiB (oversize error or correct data).",
}
