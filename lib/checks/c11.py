"""C11 - rendezvous requests are faithfully encoded, fronted and bounded
(everything except the broker endpoint equivalence /client vs /amp/client/,
which is replayed with the Broker specification).
spec/AmpPath, spec/CacheURL, spec/Rendezvous: TLC checks the contract-level
invariants (Decode(Encode(d, pad)) = d for every padding; the publisher path
stays under the /c[/s]/host/ prefix; success only for a 200 within the limit)
and enumerates the cases with their expected results; harness/cmd/ampurldrv
replays them through amp.EncodePath/DecodePath/CacheURL and the in-package
test harness/inpkg/client_lib/rendezvous_verif_test.go through the real
httpRendezvous.Exchange / ampCacheRendezvous.Exchange over an in-memory
http.RoundTripper."""
import json
import os
import vlib

LEVEL = "model_checking"
S_PATH = os.path.join(vlib.SPEC, "AmpPath")
S_URL = os.path.join(vlib.SPEC, "CacheURL")
S_RV = os.path.join(vlib.SPEC, "Rendezvous")
INPKG = os.path.join(vlib.HARNESS, "inpkg", "client_lib", "rendezvous_verif_test.go")

PLAN = {
    "quick": [(S_PATH, "AmpPath", "Gen_enc_quick.cfg", "pathenc", 1000), (S_PATH, "AmpPath", "Gen_dec_quick.cfg", "pathdec", 1000),
              (S_URL, "CacheURL", "Gen_prefix_quick.cfg", "prefix", 1000), (S_URL, "CacheURL", "Gen_url.cfg", "url", 5000)],
    "thorough": [(S_PATH, "AmpPath", "Gen_enc.cfg", "pathenc", 5000), (S_PATH, "AmpPath", "Gen_dec.cfg", "pathdec", 5000),
                 (S_URL, "CacheURL", "Gen_prefix.cfg", "prefix", 30000), (S_URL, "CacheURL", "Gen_url.cfg", "url", 5000)],
}
RV_CFG = {"quick": ("Gen_quick.cfg", 12000), "thorough": ("Gen_thorough.cfg", 30000)}


def run(chk, args):
    drv = vlib.go_build("./cmd/ampurldrv", "ampurldrv", linkflag=False)
    if args.replay:
        return replay(chk, drv, args.replay)
    classes = {}
    # 1. path and cache-URL cases: TLC checks the contract invariants while it enumerates
    for specdir, module, cfg, mode, least in PLAN[chk.tier]:
        cases = generate(chk, specdir, module, cfg, least)
        if cases is None:
            return
        for c in cases:
            e = c["expect"]
            k = mode + ":" + (e.get("class") or ("wrap=" + e.get("wrap", "?") + "/" + e.get("alg", "?")))
            classes[k] = classes.get(k, 0) + 1
        chk.sample(slim(cases[len(cases) // 2]))
        s = vlib.drive_cases(chk, drv, [mode], cases, [chk.seed], tag=mode, timeout=900)
        chk.note("%s %s: %d cases replayed through the real code" % (module, mode, s["cases"]))
    for need in ("pathdec:data", "pathdec:bad-base64", "pathdec:no-data", "pathdec:unknown-indicator", "pathdec:no-indicator",
                 "prefix:wrap=yes/basic", "prefix:wrap=no/basic", "prefix:wrap=yes/by-length", "prefix:wrap=no/by-length",
                 "prefix:wrap=no/fallback", "url:url", "url:any"):
        if not classes.get(need):
            chk.fail("vacuous: no case of class %s (%s)" % (need, sorted(classes)))
            return
    # 2. rendezvous cases through the real Exchange methods (in-package, overlay)
    cfg, least = RV_CFG[chk.tier]
    cases = generate(chk, S_RV, "Rendezvous", cfg, least)
    if cases is None:
        return
    for c in cases:
        for e in c["expect"]:
            k = "rv:%s/%s" % (c["cs"]["method"], e["res"])
            classes[k] = classes.get(k, 0) + 1
        for pl in c["polls"]:
            if pl["status"] in (301, 302, 303, 307, 308):
                k = "rv:%s/redirect/front=%s/location=%s" % (c["cs"]["method"], c["cs"]["front"], pl["location"])
                classes[k] = classes.get(k, 0) + 1
        if len(c["polls"]) > 1:
            k = "rv:%s/sequence/front=%s/cache=%s" % (c["cs"]["method"], c["cs"]["front"], c["cs"]["cache"])
            classes[k] = classes.get(k, 0) + 1
    chk.sample(cases[-1])
    n = 0
    for rnd in range(1 if chk.tier == "quick" else 3):     # further rounds: other payload bytes and body reader scripts
        s = drive_inpkg(chk, cases, seed=chk.seed + 7919 * rnd)
        n += s.get("exchanges", 0)
    chk.note("Rendezvous: %d rendezvous objects, %d exchanges through the real client code (sequences of 1..3 polls per object)" % (len(cases), n))
    for need in ("rv:http/data", "rv:http/error", "rv:amp/data", "rv:amp/error", "rv:amp/any",
                 "rv:http/redirect/front=front/location=other", "rv:http/redirect/front=front/location=relative",
                 "rv:http/redirect/front=none/location=same", "rv:http/redirect/front=front/location=none",
                 "rv:amp/redirect/front=front/location=other", "rv:amp/redirect/front=none/location=relative",
                 "rv:http/sequence/front=front/cache=none", "rv:amp/sequence/front=front/cache=none",
                 "rv:amp/sequence/front=front/cache=root", "rv:amp/sequence/front=none/cache=path"):
        if not classes.get(need):
            chk.fail("vacuous: no case of class %s" % need)
            return
    chk.cov["expected_classes"] = classes
    chk.cov["exhaustive"] = True
    chk.cov["traces_validated_against_impl"] = 0
    # 3. endpoint equivalence: TLC behaviours of spec/Broker replayed twice on the real broker (lead's part)
    import brokerlib
    counts = {"Gen_small": 80, "Gen_core": 160} if chk.tier == "quick" else {"Gen_small": 400, "Gen_core": 1500, "Gen_big": 1000}
    n = brokerlib.twin_equivalence(chk, "C11", "amp", counts, chk.seed + 11)
    if n < 50:
        chk.fail("vacuous: only %d AMP twin runs" % n)
        return
    chk.cov["rule"] = ("cases are TLC initial states of spec/AmpPath, spec/CacheURL, spec/Rendezvous. Non-trivial: a path of more than one "
                       "token; every domain-prefix case; a URL case with a faithful cache form or a non-empty publisher path; an exchange "
                       "with a front, a cache, a status other than 200 or a body within one byte of the limit or beyond")
    chk.assumptions += ["base64url, punycode (golang.org/x/net/idna), SHA-256 and base32 are uninterpreted in the specifications and taken from the libraries by the driver",
                        "payload bytes, the spelling of abstract characters/segments and body reader scripts are seeded pseudo-random choices",
                        "the http.RoundTripper is in memory: TLS, SNI and connection reuse are outside this check",
                        "endpoint equivalence /client vs /amp/client/: gated replays of spec/Broker behaviours under the fake clock, all client polls through /amp/client/ vs all through POST /client, responses compared after de-armoring"]


def generate(chk, specdir, module, cfg, least):
    r = vlib.tlc(specdir, module, cfg, workers=1, timeout=900)
    chk.add_tlc(r)
    if r.error:
        # an invariant of the contract failing is a defect of the specification, not a verdict
        chk.fail("%s %s failed: %s\n%s" % (module, cfg, r.error, r.out[-2000:]))
        return None
    chk.note("TLC %s %s: %d cases, %d states, contract invariants hold (%.0fs)" % (module, cfg, len(r.prints), r.distinct, r.wall))
    if len(r.prints) < least:
        chk.fail("vacuous: %s %s produced only %d cases" % (module, cfg, len(r.prints)))
        return None
    return r.prints


def drive_inpkg(chk, cases, max_report=8, base=0, seed=None):
    d = vlib.scratch("c11")
    inp, outp = os.path.join(d, "rv.in.ndjson"), os.path.join(d, "rv.out.ndjson")
    if os.path.exists(outp):
        os.remove(outp)
    vlib.write_ndjson(inp, cases)
    r = vlib.go_test_inpkg("client/lib", [INPKG], "^TestVerifC11", linkflag=True, timeout=900,
                           env={"VERIF_C11_CASES": inp, "VERIF_C11_OUT": outp, "VERIF_SEED": str(chk.seed if seed is None else seed), "VERIF_IDX_BASE": str(base)})
    if r.timed_out or r.rc != 0 or not os.path.exists(outp):
        raise vlib.Inconclusive("in-package rendezvous test failed (rc=%s timeout=%s):\n%s" % (r.rc, r.timed_out, r.out[-3000:]))
    summary, reported = None, 0
    for res in vlib.read_ndjson(outp):
        if "summary" in res:
            summary = res["summary"]
            continue
        if str(res.get("sig", "")).startswith("harness/"):
            raise vlib.Inconclusive("rendezvous harness: %s" % res.get("detail", "")[:1500])
        if reported < max_report:
            if chk.violation(res.get("sig", "unknown"), res.get("detail", ""), {"driver": "inpkg:client_lib", "args": ["rendezvous"], "case": res.get("case"), "idx": res.get("idx"),
                                                                                       "seed": chk.seed if seed is None else seed}):
                reported += 1
    if summary is None:
        raise vlib.Inconclusive("in-package rendezvous test wrote no summary:\n%s" % r.out[-2000:])
    chk.cov["evaluations"] += int(summary.get("exchanges", summary.get("cases", 0)))
    chk.cov["distinct_nontrivial"] += int(summary.get("nontrivial", 0))
    return summary


def slim(case):
    import json
    s = json.dumps(case)
    if len(s) > 1500:
        c = json.loads(s)
        for k in ("dom",):
            if isinstance(c.get(k), list) and len(c[k]) > 12:
                c[k] = c[k][:12] + ["..."]
        e = c.get("expect", {})
        for k in ("pre", "pre16"):
            if isinstance(e.get(k), list) and len(e[k]) > 12:
                e[k] = e[k][:12] + ["..."]
        return c
    return case


def replay(chk, drv, path):
    import json
    with open(path) as fh:
        doc = json.load(fh)
    rp, seed = doc["replay"], doc.get("seed", chk.seed)     # the seed of the run that found it
    if rp.get("driver") == "inpkg:client_lib":
        drive_inpkg(chk, [rp["case"]], base=rp.get("idx") or 0, seed=rp.get("seed", seed))
    else:
        env = dict(os.environ, VERIF_IDX_BASE=str(rp.get("idx") or 0))
        vlib.drive_cases(chk, drv, [rp["args"][0]], [rp["case"]], [seed], tag="replay", env=env)


MANIFEST = {
    "technique": "TLA+ specs AmpPath, CacheURL, Rendezvous: TLC checks contract invariants (Decode(Encode(d,pad)) = d for all paddings; publisher path kept under /c[/s]/host/; success only for 200 within the limit) and enumerates cases with expected results; Go drivers replay them through amp.EncodePath/DecodePath/CacheURL (external) and httpRendezvous/ampCacheRendezvous.Exchange over an in-memory RoundTripper (in-package overlay)",
    "text": "The path codec, the AMP domain-prefix algorithm (literally the five steps of the AMP text on character positions, with punycode/SHA-256/base32 uninterpreted and supplied by the libraries), the cache URL construction and the request/result contract of an exchange are explicit TLA+ operators; TLC evaluates them on every point of the bounded partitions (path shapes, leading characters of 1-4 UTF-8 bytes x hyphens x dots, label lengths around 63, URL component classes, front x cache x broker x status x size around the limit x body shape) and the real code is executed on each and compared with TLC's expectation. Exhaustive over the contract's partitions; bound to code by differential replay. The endpoint equivalence clause is decided by the Broker replay.",
    "note": "Bounded: paddings of <= 5 tokens, leads of <= 5 characters (quick 3), publisher paths of <= 3 segments, six broker URL classes; concrete spellings seeded. Don't-care: which error; 4-byte characters before position 4 where character and UTF-16 positions disagree; URLs without a faithful cache form; 200 with Location on the AMP path.",
}


# --- extension part built separately: the uTLS HTTP round tripper the client's rendezvous uses when a TLS fingerprint
# --- is configured (spec/UtlsRT, lib/checks/c12_utls.py, notes/UtlsRT.md) ------------------------------------------
_run_core = run


def run(chk, args):
    only = set(args.only.split(",")) if args.only else None
    if args.replay:
        with open(args.replay) as fh:
            rp = json.load(fh)["replay"]
        if isinstance(rp, dict) and str(rp.get("kind", "")).startswith("utls-"):
            from checks import c12_utls
            return c12_utls.replay_part(chk, rp)
        return _run_core(chk, args)
    if only is None or only - {"utls"}:
        _run_core(chk, args)
    if only is None or "utls" in only:
        from checks import c12_utls
        c12_utls.run_utls_part(chk, chk.tier == "quick")


MANIFEST["note"] += " Extension part run with the check: UtlsRT (spec/UtlsRT: the uTLS round tripper's ALPN hint, parked connections and retry bound against real TLS servers on loopback, --only utls)."
