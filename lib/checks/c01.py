"""C01 - the end-to-end byte stream is exact and ordered across proxy churn.

spec/Tunnel (collapsed shape): TLC checks safety and, under per-step weak
fairness with bounded faults and one more carrier than faults, <>Delivered.
Tunnel_Gen behaviours (seeded -simulate, plus the maximal paths of the
smallest configuration) are projected onto forwarder actions and executed by
harness/cmd/corerig (real server/lib, real RedialPacketConn+kcp+smux clients,
real websocketconn carriers); the recorded application/packet/carrier events
are validated by TLC against Tunnel_Trace.  Thorough additionally runs the
system rig (harness/cmd/sysrig): the real client library over real local
WebRTC with a scripted broker and harness mini-proxies."""
import concurrent.futures
import json
import os
import random
import threading

import corerig
import vlib

LEVEL = "model_checking"
SPECDIR = os.path.join(vlib.SPEC, "Tunnel")
BOUND_MS = 60000

# D15 (DESIGN 7): see notes/C01.md.  Status is decided there; while the entry is
# open the check prints KNOWN-FINDING for exactly this signature.
KNOWN = []


def model_check(chk, cfgs, out):
    try:
        for cfg, workers, expect in cfgs:
            r = vlib.tlc(SPECDIR, "Tunnel", cfg, workers=workers, timeout=2400, keep_prints=False,
                         coverage=(cfg == "MC_one.cfg" and chk.tier != "quick"), heap=(None if cfg == "MC_big.cfg" else "4g"))
            out.append((cfg, r, expect))
    except Exception as e:
        out.append(("error", e, None))


def schedules(chk, q):
    """Fault schedules from Tunnel_Gen behaviours."""
    plan = [("Gen_two.cfg", 200 if q else 1600, 110, ("A", "B")),
            ("Gen_one.cfg", 160 if q else 1400, 110, ("A",)),
            ("Gen_long.cfg", 40 if q else 500, 200, ("A",))]
    out, infos = [], []
    with concurrent.futures.ThreadPoolExecutor(max_workers=4) as ex:
        futs = [ex.submit(corerig.simulate, chk, SPECDIR, "Tunnel_Gen", cfg, num, depth, chk.seed * 100 + i)
                for i, (cfg, num, depth, _) in enumerate(plan)]
        fsmall = ex.submit(vlib.tlc, SPECDIR, "Tunnel_Gen", "Gen_small.cfg", workers=1, timeout=300,
                           dump_dot="small.dot", keep_prints=False, heap="2g")
        behs = [f.result() for f in futs]
        rsmall = fsmall.result()
    chk.add_tlc(rsmall)
    for (cfg, num, depth, sessions), bs in zip(plan, behs):
        for bi, beh in enumerate(bs):
            rng = random.Random("%d/%s/%d" % (chk.seed, cfg, bi))
            sc, info = corerig.project_tunnel(beh, rng, sessions=sessions, name="c01-%s-%d" % (cfg[:-4], bi), big=0.04 if q else 0.06)
            sc["origin"] = {"module": "Tunnel_Gen", "config": cfg, "seed": chk.seed * 100,
                            "steps": [[a, b] for a, b in beh if a in ("Pop", "PopSkip", "MarkClosed", "WriteId", "WriteIdFailsMarked", "WriteIdFailsUnmarked", "Cut", "G_Cut", "Freeze", "AnswerLost", "StaleClose", "SrvDetach", "ReaderStalls", "ReaderResumes")]}
            out.append(sc)
            infos.append(info)
    # all maximal paths of the smallest configuration, one schedule per distinct projection
    paths = corerig.dot_paths(os.path.join(rsmall.dir, "small.dot"))
    seen = set()
    for pi, p in enumerate(paths):
        sc, info = corerig.project_tunnel(p, random.Random("small/%d" % chk.seed), sessions=("A",), name="c01-small-%d" % pi,
                                          sizes=[1400, 100000], big=0)
        key = json.dumps(sc["sessions"], sort_keys=True)
        if key in seen:
            continue
        seen.add(key)
        sc["origin"] = {"module": "Tunnel_Gen", "config": "Gen_small.cfg", "path": pi}
        out.append(sc)
        infos.append(info)
    # the bulk-outage class (queue full -> drop must stay invisible): a few schedules with several MiB each
    # way, the carrier lost mid-transfer and no carrier for 2-3 s
    brng = random.Random("bulk/%d" % chk.seed)
    cands = [s for s in out if any(len(sp["carriers"]) >= 2 for sp in s["sessions"])]
    nb = 0
    for i, s in enumerate(cands[: (6 if q else 40)]):
        b = corerig.bulk_outage(s, brng, i % 2)
        b["origin"] = dict(s.get("origin", {}), bulk_outage=True)
        out.append(b)
        infos.append({"faults": 2, "kinds": {"bulk-outage"}, "carriers": sum(len(x["carriers"]) for x in b["sessions"])})
        nb += 1
    chk.cov["bulk_outage_schedules"] = nb
    chk.cov["small_config_paths"] = len(paths)
    chk.cov["small_config_distinct_schedules"] = len(seen)
    return out, infos


def run(chk, args):
    q = chk.tier == "quick"
    chk.known.extend(KNOWN)
    rigbin = vlib.go_build("./cmd/corerig", "corerig", linkflag=True)
    if args.replay:
        return replay(chk, rigbin, args.replay)
    # 1. the model: liveness configurations (seconds), thorough: the large safety-only one
    mc_cfgs = [("MC_one.cfg", 4, None), ("MC_two.cfg", 6, None)]
    if not q:
        mc_cfgs += [("MC_big.cfg", 12, None)]
    mc_out = []
    th = threading.Thread(target=model_check, args=(chk, mc_cfgs, mc_out))
    th.start()
    # quick: two system-rig scenarios (real client library over real WebRTC) next to everything else: a
    # proxy that goes silent WITHOUT closing anything (only the client's staleness detection gets the
    # session out of it) and the D15 regression
    sys_out = {}
    sth = None
    if q:
        def sysq():
            try:
                from checks import c01_sys
                c01_sys.run_system_quick(chk, sys_out)
            except Exception as e:
                sys_out["error"] = e
        sth = threading.Thread(target=sysq)
        sth.start()
    # 2. fault schedules -> core rig
    scs, infos = schedules(chk, q)
    kinds = set().union(*[i["kinds"] for i in infos])
    chk.note("%d fault schedules from Tunnel_Gen (%d planned faults, %d carriers; kinds %s)" % (
        len(scs), sum(i["faults"] for i in infos), sum(i["carriers"] for i in infos), sorted(kinds)))
    need = {"answerlost", "freeze", "cut-before-token", "cut-bnd", "cut-body", "cut-pfx", "halfopen", "noproxy", "bulk-outage", "reader-stall"}
    if not need <= kinds:
        chk.fail("vacuous: fault kinds never generated: %s" % sorted(need - kinds))
    results, summary, out, races = corerig.run_rig(rigbin, scs, par=64, bound_ms=BOUND_MS, timeout=1500)
    chk.note("core rig: %d schedules, %d done, %d stalled, %d faults fired, %d dials, %.0f MiB, %.1fs" % (
        summary["cases"], summary["done"], summary["stalled"], summary["faults"], summary["dials"], summary["bytes"] / 1048576.0, summary["wall_ms"] / 1000.0))
    if summary.get("orphans"):
        chk.violation("C01/orphan-hook-event", "hook events for unknown carriers/ClientIDs: %s" % summary["orphans"][:3], {"orphans": summary["orphans"][:20]})
    corerig.judge(chk, "C01", rigbin, scs, results, SPECDIR, "Tunnel_Trace", bound_ms=BOUND_MS)
    fired = {}
    for n, res in results.items():
        for e in res["events"]:
            if e["ev"] == "car.fault":
                k = "%s/%s/%s" % (e["kind"], e["dir"], e["cls"])
                fired[k] = fired.get(k, 0) + 1
    chk.cov["faults_fired_by_position"] = fired
    chk.cov["faults_fired"] = summary["faults"]
    chk.cov["bytes_moved"] = summary["bytes"]
    chk.cov["evaluations"] += len(results)
    chk.cov["distinct_nontrivial"] += sum(1 for r in results.values() if r.get("faults", 0) > 0)
    chk.cov["rule"] = ("one evaluation = one Tunnel_Gen behaviour executed as a fault schedule on the real code and validated by TLC against "
                       "Tunnel_Trace; non-trivial = at least one fault of the schedule actually fired (cut at a byte position, stall, half-open, "
                       "refused dial)")
    for n in sorted(results)[:2]:
        sc = next(s for s in scs if s["name"] == n)
        chk.sample({"schedule": sc["sessions"], "origin": sc.get("origin", {}).get("steps", [])[:12], "faults_fired": results[n]["faults"],
                    "done": results[n]["done"], "wall_ms": results[n]["wall_ms"], "events": len(results[n]["events"])})
    # 3. thorough: race build of the core rig (monitor), system rig
    if not q:
        thorough_extra(chk, scs)
    if sth is not None:
        sth.join()
        if "error" in sys_out:
            raise sys_out["error"]
    th.join()
    for cfg, r, expect in mc_out:
        if cfg == "error":
            raise r
        chk.add_tlc(r)
        chk.note("TLC %s: %d distinct states, error=%s (%.0fs)" % (cfg, r.distinct, r.error, r.wall))
        if r.error != expect:
            chk.fail("model check %s: expected %s, got %s (a violation in the model alone is not a verdict)\n%s" % (cfg, expect, r.error, r.out[-1500:]))
        if r.coverage:
            zero = sorted(a for a, (d, t) in r.coverage.items() if t == 0 and a[0].isupper() and a not in ("Init", "TypeOK"))
            chk.cov["coverage_zero_actions"] = zero
    chk.cov["exhaustive"] = False
    chk.assumptions += [
        "KCP + smux (third-party) are assumed to implement the sliding-window contract; the specification verifies what snowflake adds around them",
        "core rig: the model client's dialContext is harness code (real peers run in the system rig, thorough tier); it retries its own failed dials",
        "core rig: client staleness timeout scaled from 20 s to 0.6 s",
        "liveness is a bounded-time obligation: 60 s after the last fault that fired (120 s on the isolated re-run)",
        "payload sizes 0 .. 4 MiB; content is a keyed function of (session, direction, offset)",
    ]


def thorough_extra(chk, scs):
    racebin = vlib.go_build("./cmd/corerig", "corerig-race", linkflag=True, race=True)
    sub = [dict(s, name=s["name"] + "-race") for s in scs[:: max(1, len(scs) // 200)] if max(x["up"] + x["down"] for x in s["sessions"]) <= 1500000]
    r2, sum2, out2, races = corerig.run_rig(racebin, sub, par=24, bound_ms=2 * BOUND_MS, timeout=1800, tag="race")
    chk.note("race build: %d schedules, %d done, %d stalled, %d race reports" % (sum2["cases"], sum2["done"], sum2["stalled"], races))
    chk.cov["race_reports"] = races
    if races:
        import re
        chk.cov["race_functions"] = sorted(set(re.findall(r"^  ([\w./()*]+)\(\)\n", out2, re.M)))[:12]
        chk.note("RACE functions: %s" % chk.cov["race_functions"])
    corerig.judge(chk, "C01", racebin, sub, r2, SPECDIR, "Tunnel_Trace", bound_ms=2 * BOUND_MS)
    try:
        from checks import c01_sys
    except ImportError:
        chk.cov.setdefault("skipped_clauses", []).append("system rig not built")
        return
    c01_sys.run_system(chk)


def replay(chk, rigbin, path):
    with open(path) as fh:
        rp = json.load(fh)["replay"]
    if rp.get("system"):
        from checks import c01_sys
        return c01_sys.replay(chk, rp)
    sc = rp["scenario"]
    results, summary, out, races = corerig.run_rig(rigbin, [sc], par=1, bound_ms=2 * BOUND_MS, timeout=400, tag="replay")
    corerig.judge(chk, "C01", rigbin, [sc], results, SPECDIR, "Tunnel_Trace", bound_ms=2 * BOUND_MS)
    chk.cov["evaluations"] = 1


MANIFEST = {
    "technique": "TLA+ spec Tunnel (collapsed shape: one-place slots, one in-flight copy per segment; faults Cut/Freeze/AnswerLost incl. cut between Pop and token write; half-open carriers) model-checked by TLC incl. <>Delivered under per-step weak fairness; Tunnel_Gen behaviours replayed as fault schedules into the real packet stack (core rig) and, thorough, into the real client library over real WebRTC (system rig); recorded events validated by TLC against Tunnel_Trace",
    "text": "TLC proves on the bounded model that with bounded faults and one spare carrier every segment is delivered and that the redial layer never closes while peers exist (it finds D15 by itself when the model follows the pinned code). Seeded TLC behaviours and all maximal paths of the smallest configuration are mapped to byte-position cuts (before the token, inside the ClientID, frame boundary, inside prefix, inside body), stalls, half-open carriers, refused dials and empty-pool delays on real WebSocket carriers between the real redial/KCP/smux stack and the real server; every read at both ends must extend a prefix of that session's keyed stream (TLC judges the trace), nothing may follow the last byte, and both streams must complete within 60 s of the last fault (stalls re-run alone with doubled limits).",
    "note": "Schedules are sampled, not exhaustive; KCP/smux trusted. Quick tier = core rig only (model clients with the real packet stack); real Peers/WebRTCPeer/newSession and broker answer loss only in the thorough system rig. SIGKILL/SIGSTOP of real proxy processes (binaries variant) not built.",
}


# --- extension part built separately: common/websocketconn (spec/WsConn), see notes/WsConn.md -------------------
_run_core = run


def run(chk, args):
    import json as _json
    only = set(args.only.split(",")) if args.only else None
    if args.replay:
        with open(args.replay) as fh:
            rp = _json.load(fh)["replay"]
        if isinstance(rp, dict) and rp.get("mode") == "wsconn":
            from checks import c01_wsconn
            return c01_wsconn.replay(chk, rp)
        if isinstance(rp, dict) and rp.get("kind") == "connectloop":
            from checks import c01_connectloop
            return c01_connectloop.replay_part(chk, rp)
        return _run_core(chk, args)
    if only is None or only - {"wsconn", "connectloop"}:
        _run_core(chk, args)
    # the client's collection loop under a fake clock: peer deaths at session ages from seconds to hours
    # (spec/ConnectLoop), see notes/ConnectLoop.md
    if only is None or "connectloop" in only:
        from checks import c01_connectloop
        try:
            c01_connectloop.run_connectloop_part(chk, chk.tier == "quick")
        except vlib.Inconclusive as e:
            chk.fail("connectloop part: %s" % e)
    if only is None or "wsconn" in only:
        from checks import c01_wsconn
        a2 = args
        if only is not None:   # the part's own --only vocabulary is mc,gen,herd
            import argparse
            a2 = argparse.Namespace(**dict(vars(args), only=None))
        try:
            c01_wsconn.run_wsconn_part(chk, a2)
        except vlib.Inconclusive as e:
            chk.fail("wsconn part: %s" % e)


MANIFEST["note"] += " Extension parts run with the check: WsConn (spec/WsConn: the websocket adapter under resets, --only wsconn) and ConnectLoop (spec/ConnectLoop: the client's collection loop under a fake clock with peer deaths at session ages of seconds to hours, --only connectloop)."
