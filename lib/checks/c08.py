"""C08 - local addresses are stripped from SDP, nothing else is lost.

spec/SdpStrip: the address classes of the property (RFC ranges written
arithmetically, one representative on each side of every boundary, plain and
IPv4-mapped), candidate kinds, the contract Fate/Conforms, a model of the
filter as coded (TLC checks it against the contract) and the enumeration of
descriptions.  harness/cmd/sdpdrv builds each description from a
pion-generated CRLF template, runs the real util.StripLocalAddresses /
util.IsLocal and compares textually.  The clause "before it leaves the
process" is bound by two in-package executors (real BrokerChannel.Negotiate
over a scripted RendezvousMethod; real SignalingServer.sendAnswer against an
httptest server) whose captures are judged by the same oracle.

Parts (--only): util, negotiate, sendanswer, lifecycle.  lifecycle: the
setting belongs to a proxy lifetime and proxy/lib keeps package state; TLC
(spec/SdpStrip/SdpLife.tla) enumerates sequences of lifetimes [keep, url] which
are run in ONE process each through the real Start()/Stop() against scripted
brokers (harness/inpkg/proxy_lib/lifecycle_verif_test.go, helpers of the C16
rig); every answer posted is judged against the setting of ITS lifetime."""
import json
import os
import vlib

LEVEL = "model_checking"
SPECDIR = os.path.join(vlib.SPEC, "SdpStrip")
NEGOTIATE_TEST = os.path.join(vlib.HARNESS, "inpkg", "client_lib", "negotiate_verif_test.go")
SENDANSWER_TEST = os.path.join(vlib.HARNESS, "inpkg", "proxy_lib", "sendanswer_verif_test.go")


def _mc(chk, cfg):
    r = vlib.tlc(SPECDIR, "SdpStrip", cfg, timeout=3000, keep_prints=False)
    chk.add_tlc(r)
    chk.note("TLC SdpStrip %s: %d distinct states, error=%s (%.0fs)" % (cfg, r.distinct, r.error, r.wall))
    if r.error:
        # the model of the filter does not meet the contract: a defect of the specification,
        # never a verdict about the code (the drivers below judge the code)
        chk.fail("model check %s failed: %s\n%s" % (cfg, r.error, r.out[-2500:]))
        return False
    return True


def _emit(chk, cfg, name):
    """Run an emitting configuration; write the printed cases to a scratch
    ndjson file without materialising them in Python.  Returns (path, count)."""
    r = vlib.tlc(SPECDIR, "SdpStrip", cfg, workers=1, timeout=3000, keep_prints=False)
    chk.add_tlc(r)
    if r.error:
        raise vlib.Inconclusive("case emission %s failed: %s" % (cfg, r.error))
    path = os.path.join(vlib.scratch("c08"), name + ".ndjson")
    n = 0
    with open(path, "w") as fh:
        for line in r.out.splitlines():
            if line.startswith('"{') and line.endswith('"'):
                fh.write(json.loads(line))
                fh.write("\n")
                n += 1
    chk.note("TLC SdpStrip %s: %d cases (%.0fs)" % (cfg, n, r.wall))
    return path, n


def _nth(path, k):
    with open(path) as fh:
        for i, line in enumerate(fh):
            if i == k:
                return json.loads(line)
    return None


def _drive(chk, drv, argv, outp, what, count=True, seed=None):
    r = vlib.run([drv] + [str(a) for a in argv], timeout=2400)
    if r.rc != 0 or r.timed_out or not os.path.exists(outp):
        raise vlib.Inconclusive("sdpdrv %s failed (rc=%s timeout=%s):\n%s" % (what, r.rc, r.timed_out, r.out[-3000:]))
    results = vlib.read_ndjson(outp)
    summary = [x["summary"] for x in results if "summary" in x]
    if not summary:
        raise vlib.Inconclusive("sdpdrv %s wrote no summary" % what)
    s = summary[0]
    if count:
        chk.cov["evaluations"] += int(s.get("cases", 0))
        chk.cov["distinct_nontrivial"] += int(s.get("nontrivial", 0))
    chk.cov.setdefault("parts", {})[what] = s
    seen, diverge = set(), []
    for res in results:
        if "summary" in res:
            continue
        sig = res.get("sig", "unknown")
        if sig.startswith("diverge/"):
            diverge.append(res)
            continue
        if sig in seen:
            continue
        seen.add(sig)
        if len(seen) <= 8:
            chk.violation("C08/" + sig, res.get("detail", ""), {"driver": "sdpdrv", "mode": what, "case": res.get("case"), "idx": res.get("idx"), "drvseed": seed})
    if diverge and not seen:
        chk.fail("%s: %d cases could not be judged: %s" % (what, len(diverge), diverge[0].get("detail", "")))
    chk.note("sdpdrv %s: %s -> %d non-conforming signature(s)" % (what, json.dumps(s), len(seen)))
    return s


_scripts_path = [None]


def _scripts(chk):
    """Environment scripts of the call-site machine (fault prefixes), printed by TLC."""
    if _scripts_path[0] is None:
        path, n = _emit(chk, "Gen_scripts.cfg", "scripts")
        if n < 20:
            raise vlib.Inconclusive("only %d environment scripts" % n)
        _scripts_path[0] = path
    return _scripts_path[0]


def _inpkg(chk, pkg, test_file, test_name, fin, fout, timeout=900):
    if os.path.exists(fout):
        os.remove(fout)
    env = {"VERIF_C08_IN": fin, "VERIF_C08_OUT": fout, "VERIF_SEED": str(chk.seed), "VERIF_C08_SCRIPTS": _scripts(chk)}
    r = vlib.go_test_inpkg(pkg, [test_file], "^%s$" % test_name, env=env, linkflag=True, timeout=timeout)
    if r.timed_out or r.rc != 0 or not os.path.exists(fout):
        raise vlib.Inconclusive("%s did not complete (rc=%s timeout=%s):\n%s" % (test_name, r.rc, r.timed_out, r.out[-3000:]))
    return r.wall


def run(chk, args):
    q = chk.tier == "quick"
    drv = vlib.go_build("./cmd/sdpdrv", "sdpdrv", linkflag=True)
    d = vlib.scratch("c08")
    if args.replay:
        return replay(chk, drv, args.replay)
    only = set(args.only.split(",")) if args.only else {"util", "negotiate", "sendanswer", "lifecycle"}
    life_job = None
    if "lifecycle" in only:
        # the life-cycle processes wait on real timers (5 s poll ticker per lifetime): run them beside the rest
        import concurrent.futures
        life_ex = concurrent.futures.ThreadPoolExecutor(max_workers=1)
        plans = _life_plans(chk)
        if plans is None:
            return
        life_job = life_ex.submit(_life_run, chk, plans)

    # 1. design level: the filter as coded meets the contract
    for cfg in (["MC_probe_quick.cfg", "MC_full.cfg"] if q else ["MC_probe_quick.cfg", "MC_full.cfg", "MC_probe_thorough.cfg"]):
        if not _mc(chk, cfg):
            return

    # 1b. the call-site machine: every attempt's payload conforms, whatever the transport does;
    #     the deliberately defective retry (RetryRaw) must be refuted, else the invariant is vacuous
    if not _mc(chk, "MC_callsite.cfg"):
        return
    r = vlib.tlc(SPECDIR, "SdpStrip", "MC_callsite_raw.cfg", timeout=3000, keep_prints=False)
    chk.add_tlc(r)
    if r.error != "invariant:EveryAttemptConforms":
        chk.fail("self-check: MC_callsite_raw.cfg should violate EveryAttemptConforms, TLC says %s" % r.error)
        return

    # 2. cases
    table, ntab = _emit(chk, "Gen_table.cfg", "table")
    raw, nraw = _emit(chk, "Gen_raw.cfg", "raw")
    probe, nprobe = _emit(chk, "Gen_probe_quick.cfg", "probe_quick")
    full, nfull = _emit(chk, "Gen_full.cfg", "full")
    if ntab < 500 or nraw < 15 or nprobe < 4000 or nfull < 1000:
        chk.fail("vacuous enumeration: table=%d raw=%d probe=%d full=%d" % (ntab, nraw, nprobe, nfull))
        return
    chk.sample({"table_row": _nth(table, ntab // 2)})
    chk.sample({"description": _nth(probe, nprobe // 3)})
    sets = [("probe_quick", probe), ("full", full)]
    if not q:
        sets.append(("probe_thorough", _emit(chk, "Gen_probe_thorough.cfg", "probe_thorough")[0]))

    if "util" in only:
        # 3. real util.StripLocalAddresses / util.IsLocal
        # the seed picks the textual spelling of each address and the place of the candidates among the
        # section's attributes; thorough repeats every set with two more derived seeds
        for name, path in sets:
            for k in ([0] if q else [0, 1, 2]):
                what = "desc:" + name + ("" if k == 0 else "#%d" % k)
                _drive(chk, drv, ["desc", path, os.path.join(d, name + ".out"), chk.seed + 7919 * k], os.path.join(d, name + ".out"), what, seed=chk.seed + 7919 * k)
        _drive(chk, drv, ["table", table, os.path.join(d, "table.out"), chk.seed], os.path.join(d, "table.out"), "islocal")
        _drive(chk, drv, ["raw", raw, os.path.join(d, "raw.out"), chk.seed, 2000 if q else 60000], os.path.join(d, "raw.out"), "non-sdp", seed=chk.seed)

    if "negotiate" in only:
        # 4. client call site: BrokerChannel.Negotiate, with and without keep-local
        both = os.path.join(d, "negotiate.cases.ndjson")
        with open(both, "w") as out:
            for _, path in sets[:2]:
                with open(path) as fh:
                    for line in fh:
                        out.write(line)
        s = _negotiate(chk, drv, both)
        if s["cases"] != 2 * (nprobe + nfull):
            chk.fail("negotiate: %d captures for %d cases x 2" % (s["cases"], nprobe + nfull))

    if "sendanswer" in only:
        # 5. proxy call site: SignalingServer.sendAnswer, with and without keep-local
        lst = os.path.join(d, "sendanswer.list.ndjson")
        r = vlib.run([drv, "pclist", table, lst], timeout=600)
        if r.rc != 0 or r.timed_out:
            raise vlib.Inconclusive("sdpdrv pclist failed:\n%s" % r.out[-2000:])
        s = _sendanswer(chk, drv, table, lst)
        if s["with_target_candidate"] == 0:
            # no usable network interface for pion: the clause cannot be exercised here (DESIGN 2.9)
            chk.cov.setdefault("skipped_clauses", []).append("sendAnswer binding: no PeerConnection produced the requested candidate (%s)" % s.get("skip_example", ""))
        elif s["with_target_candidate"] < 1000:
            chk.fail("sendanswer: only %d of %d PeerConnections carried the requested candidate (%s)" % (s["with_target_candidate"], s["cases"], s.get("skip_example", "")))

    if life_job is not None:
        outs = life_job.result()
        _life_judge(chk, drv, table, plans, outs)

    chk.cov["exhaustive"] = True
    chk.cov["traces_validated_against_impl"] = 0
    chk.cov["rule"] = ("a description is non-trivial when it has a candidate that is not a plain host candidate the filter must keep "
                       "(a candidate that must be stripped, a don't-care one, a non-host type, a malformed line, a session-level "
                       "candidate); every IsLocal evaluation with a definite expected value and every non-SDP text counts; "
                       "call-site captures count when the description is non-trivial in the same sense")
    chk.assumptions += [
        "descriptions are built from pion-generated offers (CRLF line ends, one application section or audio + application); lines other than candidates are whatever pion produced in this run",
        "address spellings of a class are drawn from the forms net.ParseIP accepts with VERIF_SEED",
        "sendAnswer binding: candidates are put into a real PeerConnection with SettingEngine.SetNAT1To1IPs (IPv4, host and srflx only); other kinds reach sendAnswer's code path only through the shared util.StripLocalAddresses",
    ]


def _life_plans(chk):
    """Lifetime sequences from SdpLife.tla (model-checked first; the server-reusing Start must be refuted)."""
    def t(cfg, **kw):
        r = vlib.tlc(SPECDIR, "SdpLife", cfg, timeout=600, **kw)
        chk.add_tlc(r)
        return r
    r = t("MC_life.cfg", keep_prints=False)
    if r.error:
        chk.fail("model check MC_life.cfg failed: %s" % r.error)
        return None
    r = t("MC_life_reuse.cfg", keep_prints=False)
    if r.error != "invariant:EachLifetimeItsOwnSetting":
        chk.fail("self-check: MC_life_reuse.cfg should violate EachLifetimeItsOwnSetting, TLC says %s" % r.error)
        return None
    g = t("Gen_life.cfg" if chk.tier == "quick" else "Gen_life_thorough.cfg", workers=1)
    if g.error:
        chk.fail("Gen_life failed: %s" % g.error)
        return None
    plans = [p for p in g.prints if isinstance(p, dict) and len(p.get("lives", [])) >= 2]
    if len(plans) < 8:
        chk.fail("only %d lifetime sequences" % len(plans))
        return None
    for i, p in enumerate(plans):
        p["name"] = "c08-life-%d" % i
    return plans


def _life_run(chk, plans):
    import proxyrig as pr
    binary = pr.build()
    return pr.run_plans(binary, "TestVerifC08Lifecycle", plans, parallel=16, timeout=240)


def _life_context(plan, life):
    if life <= 1:
        return "first-lifetime"
    cur, prev = plan["lives"][life - 1], plan["lives"][life - 2]
    return "after-a-lifetime-with-keep=%s-on-%s-broker-url" % (str(prev["keep"]).lower(), "the-same" if prev["url"] == cur["url"] else "another")


def _life_judge(chk, drv, table, plans, outs):
    d = vlib.scratch("c08")
    events, skipped, done = [], 0, 0
    for i, out in enumerate(outs):
        evs = out.events
        if any(e.get("ev") == "skip" for e in evs):
            skipped += 1
            continue
        if out.timed_out or not any(e.get("ev") == "end" for e in evs):
            chk.fail("lifecycle %s: executor did not complete (rc=%s)\n%s" % (plans[i]["name"], out.rc, out.out[-1500:]))
            continue
        lives = [e for e in evs if e.get("ev") == "life"]
        if len(lives) != len(plans[i]["lives"]) or any(not e.get("stopped") or e.get("answers", 0) < 1 for e in lives):
            chk.fail("lifecycle %s: not every lifetime posted an answer and stopped: %s" % (plans[i]["name"], json.dumps(lives)))
            continue
        done += 1
        for e in evs:
            e["plan"] = i
            if e.get("ev") == "answer":
                e["context"] = _life_context(plans[i], e["life"])
            events.append(e)
    if skipped:
        chk.cov.setdefault("skipped_clauses", []).append("life-cycle binding: no non-loopback interface (%d processes)" % skipped)
    if not events:
        return
    capt, obs, judged = os.path.join(d, "life.events.ndjson"), os.path.join(d, "Observed.tla"), os.path.join(d, "life.out")
    vlib.write_ndjson(capt, events)
    r = vlib.run([drv, "observed", capt, obs], timeout=300)
    if r.rc != 0 or not os.path.exists(obs):
        raise vlib.Inconclusive("sdpdrv observed failed:\n%s" % r.out[-2000:])
    # TLC classifies the addresses the real proxy produced
    g = vlib.tlc(SPECDIR, "SdpStrip", "Gen_observed.cfg", workers=1, timeout=600, files={"Observed.tla": obs}, keep_prints=False)
    chk.add_tlc(g)
    if g.error:
        raise vlib.Inconclusive("Gen_observed failed: %s" % g.error)
    tab2 = os.path.join(d, "table+observed.ndjson")
    with open(tab2, "w") as out, open(table) as base:
        out.write(base.read())
        for line in g.out.splitlines():
            if line.startswith('"{') and line.endswith('"'):
                out.write(json.loads(line) + "\n")
    s = _drive(chk, drv, ["judgelife", tab2, capt, judged], judged, "lifecycle")
    chk.note("proxy/lib life cycle: %d processes, %d lifetimes through the real Start()/Stop(), %d answers (%d in lifetimes that must strip)" % (
        done, s["lifetimes"], s["cases"], s["nontrivial"]))
    if s["candidates_not_in_table"]:
        chk.fail("lifecycle: %d candidates could not be classified" % s["candidates_not_in_table"])
    if s["answers_in_keeping_lifetimes_with_local_host_candidate"] == 0:
        # this machine gives pion no local (private / unique-local) address: a surviving candidate could not be seen
        chk.cov.setdefault("skipped_clauses", []).append("life-cycle binding: the proxy's PeerConnections gathered no local host candidate on this machine")


def _negotiate(chk, drv, cases_path):
    d = vlib.scratch("c08")
    conc, tplf, capt, judged = (os.path.join(d, n) for n in ("negotiate.concrete.ndjson", "negotiate.template.json", "negotiate.captured.ndjson", "negotiate.out"))
    r = vlib.run([drv, "build", cases_path, conc, str(chk.seed), tplf], timeout=600)
    if r.rc != 0 or r.timed_out:
        raise vlib.Inconclusive("sdpdrv build failed:\n%s" % r.out[-2000:])
    wall = _inpkg(chk, "client/lib", NEGOTIATE_TEST, "TestVerifC08Negotiate", conc, capt)
    s = _drive(chk, drv, ["judge", cases_path, capt, judged, chk.seed, tplf], judged, "negotiate", seed=chk.seed)
    chk.note("client/lib: %d real Negotiate calls under fault scripts, %d payloads judged, %d calls sent more than once (%.0fs)" % (s["cases"], s.get("payloads", 0), s.get("calls_with_retry", 0), wall))
    return s


def _sendanswer(chk, drv, table, lst):
    d = vlib.scratch("c08")
    capt, judged = os.path.join(d, "sendanswer.captured.ndjson"), os.path.join(d, "sendanswer.out")
    wall = _inpkg(chk, "proxy/lib", SENDANSWER_TEST, "TestVerifC08SendAnswer", lst, capt)
    s = _drive(chk, drv, ["judgepc", table, capt, judged], judged, "sendanswer")
    chk.note("proxy/lib: %d real sendAnswer calls under fault scripts, %d judged (%d request bodies, %d calls sent more than once), %d skipped (%.0fs)" % (
        s["cases"], s["with_target_candidate"], s.get("payloads", 0), s.get("calls_with_retry", 0), s["skipped"], wall))
    return s


def replay(chk, drv, path):
    with open(path) as fh:
        rp = json.load(fh)["replay"]
    d = vlib.scratch("c08")
    mode, case, idx = rp.get("mode", ""), rp.get("case"), int(rp.get("idx") or 0)
    fin, fout = os.path.join(d, "replay.in"), os.path.join(d, "replay.out")
    if rp.get("drvseed") is not None:
        chk.seed = int(rp["drvseed"])
    if mode.startswith("desc:") and case is not None:
        # concrete spellings depend on (seed, index): the case is replayed at its original index by padding
        vlib.write_ndjson(fin, [case] * (idx + 1))
        _drive(chk, drv, ["desc", fin, fout, chk.seed], fout, "desc:replay", seed=chk.seed)
    elif mode == "negotiate" and isinstance(case, dict) and "desc" in case:
        vlib.write_ndjson(fin, [case["desc"]] * (idx + 1))
        _negotiate(chk, drv, fin)
    elif mode == "negotiate" and case is not None:
        vlib.write_ndjson(fin, [case] * (idx + 1))
        _negotiate(chk, drv, fin)
    elif mode == "islocal" and case is not None:
        vlib.write_ndjson(fin, [case])
        _drive(chk, drv, ["table", fin, fout, chk.seed], fout, "islocal")
    elif mode == "sendanswer" and case is not None:
        table, _ = _emit(chk, "Gen_table.cfg", "table")
        vlib.write_ndjson(fin, [{"typ": case["typ"], "addr": case["addr"]}])
        _sendanswer(chk, drv, table, fin)
    elif mode == "lifecycle":
        plans = _life_plans(chk)
        if plans is not None:
            table, _ = _emit(chk, "Gen_table.cfg", "table")
            _life_judge(chk, drv, table, plans, _life_run(chk, plans))
    elif mode == "non-sdp":
        raw, _ = _emit(chk, "Gen_raw.cfg", "raw")
        for n in (2000, 60000):
            _drive(chk, drv, ["raw", raw, fout, chk.seed, n], fout, "non-sdp")
    else:
        chk.fail("cannot replay %r" % mode)


MANIFEST = {
    "technique": "TLA+ spec SdpStrip: address classes from the RFC ranges, per-candidate contract (strip / keep / don't-care), model of the filter checked against it by TLC, enumeration of descriptions; Go driver builds each from a pion template and compares the real util.StripLocalAddresses / IsLocal textually; in-package executors capture what Negotiate and sendAnswer send",
    "text": "TLC checks on every enumerated description that the filter as coded conforms to the contract (exactly the host candidates of a private / CGN / link-local / unique-local / loopback / unspecified address are deleted, order kept), and emits every description with the fate of each candidate. The driver concretises them on a pion-generated CRLF offer (98 addresses on and around every range boundary in plain, IPv4-mapped and several textual spellings; host/srflx/prflx/relay, udp/tcp, pion- and browser-style lines; 13 malformed kinds; position among up to 3 candidates; 1-2 media sections; session-level candidates) and demands textual equality minus the stripped lines; IsLocal is compared on every address in 4- and 16-byte form; 22 classes of non-SDP text plus seeded random corruptions must not panic. The same oracle judges what the real BrokerChannel.Negotiate hands to its RendezvousMethod and what the real SignalingServer.sendAnswer posts, with and without keep-local.",
    "note": "Don't-care: IPv6 link-local hosts, malformed candidate lines, session-level candidates, whether kept-local candidates are really kept, non-SDP text beyond totality. sendAnswer is exercised with IPv4 host/srflx candidates only (what SetNAT1To1IPs can put into a real PeerConnection).",
}
