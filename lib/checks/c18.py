"""C18 - bridge is told the right client address or none.

This module holds the map + sanitiser part:
  spec/ClientIDMap/ClientIDMap.tla    the ring clientIDMap refines the abstract
                                      "last N Sets" association (ClientIDMapAbs),
                                      model-checked for capacities 0..3 (thorough:
                                      ..5) over the complete reachable state space;
                                      TLC emits every Set sequence (3 ids incl. the
                                      all-zero ClientID, 2 addresses) with the
                                      abstract Get vector at every point; replayed
                                      against the real clientIDMap (in-package).
  spec/ClientIDMap/ClientAddr.tla     input classes of client_ip with the set of
                                      allowed outcomes; concretised and run against
                                      the real clientAddr through the same URL query
                                      decoding as ServeHTTP.

The RemoteAddr()-of-accepted-connections part (ServerMux rig) is added by
`run_rig_part` when it exists; `run` calls `run_map_part` and then it."""
import concurrent.futures as cf
import json
import os
import shutil
import time

import vlib

LEVEL = "model_checking"
SPECDIR = os.path.join(vlib.SPEC, "ClientIDMap")
INPKG = os.path.join(vlib.HARNESS, "inpkg", "server_lib", "clientidmap_verif_test.go")


def _inpkg(chk, test, cases, tag):
    d = vlib.scratch("c18")
    inp, outp = os.path.join(d, tag + ".in.ndjson"), os.path.join(d, tag + ".out.ndjson")
    vlib.write_ndjson(inp, cases)
    r = vlib.go_test_inpkg("server/lib", [INPKG], test + "$", timeout=900, linkflag=True,
                           env={"VERIF_IN": inp, "VERIF_OUT": outp, "VERIF_SEED": str(chk.seed)})
    if r.rc != 0 or r.timed_out or not os.path.exists(outp):
        raise vlib.Inconclusive("in-package harness %s failed:\n%s" % (test, r.out[-3000:]))
    summary, reported = None, 0
    for res in vlib.read_ndjson(outp):
        if "summary" in res:
            summary = res["summary"]
        elif res.get("sig", "").startswith("harness/"):
            raise vlib.Inconclusive("harness problem: %s" % res)
        elif reported < 8:
            if chk.violation("C18/" + res["sig"], res["detail"], {"test": test, "case": res.get("case")}):
                reported += 1
    if summary is None:
        raise vlib.Inconclusive("harness %s wrote no summary" % test)
    return summary


def run_map_part(chk, args):
    q = chk.tier == "quick"
    only = set(args.only.split(",")) if getattr(args, "only", None) else None
    L = 6 if q else 7
    caps = [0, 1, 2, 3]
    mc_caps = caps if q else caps + [4, 5]
    with cf.ThreadPoolExecutor(max_workers=12) as ex:
        futs = {}
        if only is None or "map_mc" in only:
            for n in mc_caps:
                name = "MC_n%d.cfg" % n
                with open(os.path.join(SPECDIR, "MC_n%d.cfg" % min(n, 3))) as fh:
                    text = fh.read().replace("N = %d" % min(n, 3), "N = %d" % n)
                futs[("mc", n)] = ex.submit(vlib.tlc, SPECDIR, "ClientIDMap", "_" + name, files={"_" + name: text}, workers=2, timeout=900,
                                            keep_prints=False, coverage=(n == 2))
                time.sleep(0.15)
        if only is None or "map_replay" in only:
            for n in caps:
                futs[("gen", n)] = ex.submit(vlib.tlc, SPECDIR, "ClientIDMap", "Gen_n%d_l%d.cfg" % (n, L), workers=1, timeout=900)
                time.sleep(0.15)
        if only is None or "addr" in only:
            futs[("addr", 0)] = ex.submit(vlib.tlc, SPECDIR, "ClientAddr", "Gen_addr.cfg", workers=1, timeout=300)
        res = {k: f.result() for k, f in futs.items()}
    cases = []
    for (kind, n), r in sorted(res.items()):
        chk.add_tlc(r)
        if kind == "mc":
            chk.note("TLC ClientIDMap capacity %d: ring refines the abstract map on %d reachable states, error=%s (%.0fs)" % (n, r.distinct, r.error, r.wall))
            if r.error:
                chk.fail("ClientIDMap model check N=%d failed: %s\n%s" % (n, r.error, r.out[-1500:]))
            if r.coverage:
                zero = sorted(a for a, (d_, t_) in r.coverage.items() if t_ == 0 and a in ("Set", "Get", "McNext"))
                if zero:
                    chk.fail("vacuity: ClientIDMap actions never taken: %s" % zero)
        elif r.error:
            raise vlib.Inconclusive("case generation %s N=%d failed: %s" % (kind, n, r.error))
        elif kind == "gen":
            if len(r.prints) < 1000:
                chk.fail("vacuous: only %d Set sequences for capacity %d" % (len(r.prints), n))
            cases += r.prints
    if cases:
        chk.sample(cases[len(cases) // 2])
        s = _inpkg(chk, "TestVerifClientIDMap", cases, "map")
        chk.note("clientIDMap: %d Set sequences of length %d (capacities %s, 3 ids incl. the zero ClientID, 2 addresses), Get of every id checked at all %d points each; %d non-trivial" % (
            s["cases"], L, caps, L + 1, s["nontrivial"]))
        chk.cov["evaluations"] += s["cases"]
        chk.cov["distinct_nontrivial"] += s["nontrivial"]
    if ("addr", 0) in res:
        classes = res[("addr", 0)].prints
        if len(classes) < 60:
            chk.fail("vacuous: only %d client_ip classes" % len(classes))
        chk.sample([c for c in classes if c["deco"] == "zone"][0])
        s = _inpkg(chk, "TestVerifClientAddr", classes, "addr")
        chk.note("clientAddr: %d input classes, %d concrete client_ip strings through URL decoding; %d classes whose contract is not plainly 'addr'" % (
            s["cases"], s["evaluations"], s["nontrivial"]))
        chk.cov["evaluations"] += s["evaluations"]
        chk.cov["distinct_nontrivial"] += s["nontrivial"]
    if not q and (only is None or "apalache" in only):
        import unbounded    # thorough-tier extra (Apalache inductive invariant, spec/ClientIDMap/ClientIDMapTyped.tla); can only add a note
        unbounded.clientidmap_inductive(chk)
    chk.cov["rule"] = (chk.cov.get("rule", "") + " Map: a case is one sequence of Sets emitted by TLC with the abstract Get vector at every point; non-trivial = at some point "
                       "an id that has been set is absent again (forgotten).  Sanitiser: a case is one (base, decoration) class; non-trivial = the contract allows 'empty'.").strip()
    chk.assumptions += [
        "Get is applied to every id before the first and after every Set instead of being enumerated as an operation (superset of observation points); Get is assumed not to depend on earlier Gets beyond what this exposes",
        "client_ip reaches clientAddr through net/url query decoding exactly as in ServeHTTP; net.ParseIP of the bare literal defines which address a class denotes",
    ]


def apalache_extra(chk):
    """Thorough-tier extra: nothing depends on it.  Apalache needs type
    annotations that the TLC modules do not carry; it is only attempted when an
    annotated copy exists, and any failure or stall is a note, not a verdict."""
    ann = os.path.join(SPECDIR, "ClientIDMapTyped.tla")
    if not os.path.exists(ann) or shutil.which("apalache-mc") is None:
        chk.note("Apalache inductive-invariant extra: skipped (no annotated module)")
        return
    d = vlib.scratch("apalache")
    shutil.copy(ann, d)
    r = vlib.run(["apalache-mc", "check", "--init=IndInit", "--inv=IndInv", "--length=1", "--out-dir=" + os.path.join(d, "out"), "ClientIDMapTyped.tla"], cwd=d, timeout=120)
    chk.note("Apalache extra: rc=%s timeout=%s" % (r.rc, r.timed_out))


def run(chk, args):
    if args.replay:
        return replay(chk, args.replay)
    run_map_part(chk, args)
    try:
        from checks import c18_rig
    except ImportError:
        c18_rig = None
    if c18_rig is not None:
        c18_rig.run_rig_part(chk, args)
    else:
        chk.note("c18_rig not present: RemoteAddr() attribution part skipped")
    # the proxy side: which client_ip the relay is told per session (spec/ProxySession ToldAddrRight), see notes/C18_proxy.md
    try:
        from checks import c18_proxy
    except ImportError:
        c18_proxy = None
    if c18_proxy is not None:
        c18_proxy.run_proxy_addr_part(chk, args)
    chk.cov["exhaustive"] = True
    chk.cov["traces_validated_against_impl"] += 0


def replay(chk, path):
    with open(path) as fh:
        rp = json.load(fh)["replay"]
    if rp.get("test") in ("TestVerifClientIDMap", "TestVerifClientAddr"):
        s = _inpkg(chk, rp["test"], [rp["case"]], "replay")
        chk.note("replayed 1 case: %s" % s)
    elif rp.get("part") == "proxy-addr":
        from checks import c18_proxy
        c18_proxy.run_proxy_addr_part(chk, args)
    elif "scenario" in rp:
        from checks import c05, c18_rig
        import corerig
        rigbin = vlib.go_build("./cmd/corerig", "corerig", linkflag=True)
        sc = rp["scenario"]
        results, summary, out, races = corerig.run_rig(rigbin, [sc], par=1, timeout=300, tag="replay")
        c05.judge(chk, "C18", rigbin, [sc], results)
        chk.cov["evaluations"] += 1
    else:
        raise vlib.Inconclusive("unknown replay file")


MANIFEST = {
    "technique": "TLA+ specs ClientIDMap (ring machine refines the abstract last-N-Sets association ClientIDMapAbs, checked by TLC on the complete reachable state space for capacities 0..5) and ClientAddr (input classes with allowed outcomes); TLC emits every Set sequence with the abstract Get vectors and every client_ip class; in-package harness replays them against the real clientIDMap and clientAddr",
    "text": "The bounded association is specified abstractly (Get(id) = address of the latest Set(id) if it is among the last N Sets, every Set counting) and the ring buffer of server/lib/turbotunnel.go is modelled as a machine whose refinement of that specification TLC verifies for every reachable state (the machine is finite). All Set sequences of length 7 over 3 ids (including the all-zero ClientID that unwritten slots contain) and 2 addresses for capacities 0..3 are executed on the real clientIDMap with Get of every id compared at every point, together with the size of the lookup map. The sanitiser contract is a TLA+ operator over (base, decoration) classes of client_ip; each class is concretised with several strings, sent through the URL query decoding of ServeHTTP and the result of the real clientAddr is classified and compared.",
    "note": "Bounded: capacities 0..3 replayed (0..5 model-checked), sequences of 7 Sets, 3 ids, 2 addresses. An IPv6 literal with a zone is a declared don't-care (empty or the address without zone). The attribution of RemoteAddr() across interleaved sessions is decided by the server-rig part of this check.",
}
