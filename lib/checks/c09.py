"""C09 - packet framing round-trips under any read fragmentation.
spec/Encap: TLC checks the decoder machine against the contract for every
reader script (design level) and enumerates (stream, truncation, script,
expected) cases; harness/cmd/encapdrv replays every case through the real
common/encapsulation package."""
import os
import vlib

LEVEL = "model_checking"
SPECDIR = os.path.join(vlib.SPEC, "Encap")


def run(chk, args):
    q = chk.tier == "quick"
    drv = vlib.go_build("./cmd/encapdrv", "encapdrv", linkflag=False)
    if args.replay:
        return replay(chk, drv, args.replay)
    # 1. design-level model checking: machine = contract for all reader scripts
    mc_cfgs = ["MC_quick.cfg"] if q else ["MC_quick.cfg", "MC_thorough.cfg", "MC_big.cfg"]
    for cfg in mc_cfgs:
        r = vlib.tlc(SPECDIR, "Encap", cfg, timeout=3000, keep_prints=False)
        chk.add_tlc(r)
        chk.note("TLC %s: %d distinct states, error=%s (%.0fs)" % (cfg, r.distinct, r.error, r.wall))
        if r.error:
            # a violation in the model alone is a defect of the specification, not a verdict
            chk.fail("model check %s failed: %s\n%s" % (cfg, r.error, r.out[-2000:]))
            return
    # 2. case enumeration by TLC + replay through the real code
    gen_cfgs = ["Gen_quick.cfg"] if q else ["Gen_quick.cfg", "Gen_thorough.cfg", "Gen_big.cfg"]
    for cfg in gen_cfgs:
        r = vlib.tlc(SPECDIR, "Encap", cfg, workers=1, timeout=3000)
        chk.add_tlc(r)
        if r.error:
            chk.fail("case generation %s failed: %s" % (cfg, r.error))
            return
        cases = r.prints
        chk.note("TLC %s: %d read cases" % (cfg, len(cases)))
        if len(cases) < 1000:
            chk.fail("vacuous: only %d cases generated" % len(cases))
            return
        for c in cases[:1] + cases[len(cases) // 2: len(cases) // 2 + 1]:
            chk.sample(c)
        vlib.drive_cases(chk, drv, ["read"], cases, [chk.seed], tag="read")
    for cfg in (["GenW_quick.cfg"] if q else ["GenW_quick.cfg", "GenW_thorough.cfg"]):
        r = vlib.tlc(SPECDIR, "Encap", cfg, workers=1, timeout=3000)
        chk.add_tlc(r)
        if r.error:
            chk.fail("case generation %s failed: %s" % (cfg, r.error))
            return
        chk.note("TLC %s: %d write cases" % (cfg, len(r.prints)))
        chk.sample(r.prints[len(r.prints) // 3])
        vlib.drive_cases(chk, drv, ["write"], r.prints, [chk.seed], tag="write")
    vlib.drive_cases(chk, drv, ["extra"], None, tag="extra")
    chk.cov["exhaustive"] = True
    chk.cov["traces_validated_against_impl"] = 0
    chk.cov["rule"] = ("cases are TLC initial states of spec/Encap (chunk sequences over the boundary lengths x prefix widths incl. "
                       "non-minimal and over-long, every interesting truncation point, every cyclic reader script up to the "
                       "configured length; writer op sequences); a read case is non-trivial when the stream is truncated or the "
                       "reader fragments (any directive other than All); every writer/budget/allocation case counts")
    chk.assumptions += ["io.ReadFull/io.CopyN of the Go standard library are atomic steps of the decoder model",
                        "body bytes are seeded pseudo-random (content classes are not enumerated by TLC)"]
    # 3. the same contract at the call sites (client ReadFrom/WriteTo, server turbotunnelMode): lib/checks/c09_callsites.py
    from checks import c09_callsites
    c09_callsites.run_callsite_part(chk, args)


def replay(chk, drv, path):
    import json
    with open(path) as fh:
        rp = json.load(fh)["replay"]
    if rp.get("part") == "callsites":
        from checks import c09_callsites
        return c09_callsites.replay(chk, rp)
    mode = rp["args"][0]
    if rp.get("case") is None:
        vlib.drive_cases(chk, drv, ["extra"], None, tag="replay")
    else:
        vlib.drive_cases(chk, drv, [mode], [rp["case"]], [chk.seed], tag="replay")

MANIFEST = {
    "technique": "TLA+ specs Encap + EncapSites: TLC model-checks decoder machine = contract for all reader scripts and enumerates cases; Go drivers replay every case into encapsulation.ReadData/WriteData/WritePadding/MaxDataForSize and into the two call sites (client encapsulationPacketConn.ReadFrom/WriteTo, server turbotunnelMode read/write loops incl. real ServeHTTP over WebSocket)",
    "text": "The decoding contract is an explicit TLA+ operator; TLC proves on the bounded grammar (all boundary lengths, prefix widths incl. non-minimal and over-long, truncation points, cyclic reader scripts) that a conforming decoder's result is independent of read fragmentation, and emits every case with its expected result; each case is executed against the real package with a scripted io.Reader. Exhaustive over the contract's partitions, so model_checking bound to code by differential replay.",
    "note": "Bounded: <=3 chunks per stream, reader scripts of length <=3 (cyclic), lengths on each side of the prefix-size boundaries; body bytes seeded pseudo-random; io.ReadFull/io.CopyN trusted.",
}
