"""C16 extension - the DATA PATH of a proxy session (spec/ProxyRelay).

Not a registered check of its own: lib/checks/c16.py (and the C20 race
monitor) call run_relay_part(chk, q).  spec/ProxyRelay models one established
session client data channel <-> proxy <-> relay WebSocket at the grain of the
code (OnMessage / pipe / copiers / conn.Write / OnClose / handler, traffic
counters, EventOnProxyConnectionOver); TLC model-checks it (prefix delivery
per direction, both ends closed, pc.Close once, slot once, figures right,
liveness: a session one of whose ends closes gets over) and prints behaviours
(-simulate with two overlapping sessions, environment at rest; goal-directed
paths of the dot dump with the environment acting at any time) which are
replayed against the real SnowflakeProxy (harness/inpkg/proxy_lib/
relay_verif_test.go on the C16 rig) with keyed payloads; TLC validates every
recorded log against ProxyRelay_Trace and, for the slots, ProxySession_Trace.
VERIF_RACE=1 (C20) makes the rig binary a -race build (vlib.go_test_inpkg)."""
import concurrent.futures
import json
import os
import random
import re
import zlib

import vlib
import proxyrig as pr
from checks import c16

SPECDIR = os.path.join(vlib.SPEC, "ProxyRelay")
TEST = "TestVerifRelayReplay"
ENV_ACTS = {"ClientSend", "RelaySend", "ClientCloseDc", "ClientAbort", "ClientVanish", "RelayCloseWs", "ClientStallsReading", "ClientResumes"}
END_ACTS = {"ClientCloseDc", "ClientAbort", "RelayCloseWs"}
ALPHABET = {"client.stall", "client.resume", "conn.write.counted", "relay.accept", "client.send", "relay.send", "client.close", "client.abort", "client.vanish", "relay.close", "dc.onmsg",
            "relay.recv", "client.recv", "conn.write", "dc.onclose", "event.over", "relay.end", "client.sawclose", "cl.end",
            "conn.pcclose", "dh.end", "end", "diverged", "harness.note"}
INVARIANTS = "TypeOK UpPrefix DownPrefix PcCloseOnce OverOnce SlotOnce FiguresRight ClosedBoth"


def establish(k):
    return [{"act": a, "args": g} for a, g in [
        ("GetInc", []), ("Get", []), ("Poll", []), ("Offer", ["in_ws", "good", "real"]), ("RelayOK", []), ("PCOk", []), ("AnswerOK", []),
        ("DCOpen", [k]), ("HandlerStart", [k]), ("DCSeen", []), ("HandlerDial", [k]), ("RelayAccept", [k])]]


def concrete(m, rng):
    """abstract size -> bytes"""
    if m == 0:
        return 0
    if m == 1:
        return rng.randint(1, 300)
    if m == 2:
        return rng.randint(1000, 6000)
    return rng.choice([16384, 16385, rng.randint(17000, 40000), rng.randint(40000, 65000)])


def obs_of(state_txt):
    """per-session observables of a TLC state text: the k-th occurrence of a field belongs to session k"""
    f = lambda name: [int(x) for x in re.findall(r"\b%s \|-> (\d+)" % name, state_txt)]
    return {"up": f("upAtRelay"), "down": f("downAtClient"), "over": f("nOver"), "ret": f("retd")}


def to_plan(name, labels, states, seed, racy=False, bulk=False):
    """TLC path (action labels, optional state texts aligned with them) -> rig plan.
    Sessions are renumbered in the order they start (the rig numbers them by their slot)."""
    rng = random.Random(seed * 7919 + zlib.crc32(name.encode()) % 1000)
    ren, steps = {}, []
    sent = {}        # rig session -> {"up": [(abs, conc)], "down": [...]}
    path = [pr.parse_label(l) for l in labels]
    nstart = sum(1 for p in path if p["act"] == "Start")
    ended = set()
    gate_open = set()
    # a window CopyLoopEnds(s) ... ConnClose(s) that contains environment steps needs the cl.end gate
    need_gate = set()
    win = {}
    for p in path:
        if p["act"] == "CopyLoopEnds":
            win[p["args"][0]] = True
        elif p["act"] == "ConnClose":
            win.pop(p["args"][0], None)
        elif p["act"] in ENV_ACTS and win.get(p["args"][0]):
            need_gate.add(p["args"][0])
    parked = set(p["args"][0] for p in path if p["act"] == "PipeWriteFails")
    # a chunk that is counted (ConnWriteAdd) and only later sent or dropped, with environment steps in between,
    # needs the conn.write.counted gate: positions (index of ConnWriteAdd, index of the send-or-drop)
    held_writes = {}
    for i, p in enumerate(path):
        if p["act"] == "ConnWriteAdd":
            j = next((j for j in range(i + 1, len(path)) if path[j]["act"] in ("CopyToClient", "CopyToClientDropped") and path[j]["args"][0] == p["args"][0]), None)
            if j is not None and any(path[x]["act"] in ENV_ACTS for x in range(i, j)):
                held_writes[i] = j
    release_at = {j: path[i]["args"][0] for i, j in held_writes.items()}
    arm_before = set()
    for i in held_writes:
        k0 = next((x for x in range(i, -1, -1) if path[x]["act"] == "RelaySend" and path[x]["args"][0] == path[i]["args"][0]), None)
        if k0 is not None:
            arm_before.add(k0)

    def conc_total(k, d, a_total):
        tot_a = tot_c = 0
        for (a, c) in sent[k][d]:
            if tot_a + a > a_total:
                break
            tot_a, tot_c = tot_a + a, tot_c + c
        return tot_c

    for i, p in enumerate(path):
        act, args = p["act"], p["args"]
        if act == "Start":
            k = len(ren) + 1
            ren[args[0]] = k
            sent[k] = {"up": [], "down": []}
            steps += establish(k)
            if len(ren) == nstart:
                steps += [{"act": a, "args": []} for a in ("GetInc", "Get", "Poll")]
            continue
        if i in release_at:
            k = ren[release_at[i]]
            if any(path[x]["act"] == "DcOnClose" and path[x]["args"][0] == release_at[i] for x in range(0, i)):
                steps.append({"act": "AwaitOver", "args": [k]})
            steps.append({"act": "ReleaseWrite", "args": [k]})
        if i in held_writes:
            steps.append({"act": "AwaitCounted", "args": [ren[args[0]]]})
        if i in arm_before:
            steps.append({"act": "ArmWrite", "args": [ren[args[0]]]})
        if act == "ConnClose" and args[0] in gate_open:
            gate_open.discard(args[0])
            steps.append({"act": "ReleaseClEnd", "args": [ren[args[0]]]})
        if act not in ENV_ACTS:
            continue
        k = ren[args[0]]
        if args[0] in need_gate and act in END_ACTS and args[0] not in gate_open and k not in ended:
            steps.append({"act": "ArmClEnd", "args": [k]})
            gate_open.add(args[0])
        st = {"act": act, "args": [k]}
        if act in ("ClientSend", "RelaySend"):
            c = concrete(args[1], rng)
            if bulk and act == "RelaySend":
                # more than any buffer on the way holds
                c = rng.choice([2, 3]) * 1024 * 1024 + rng.randint(1, 60000)
                st["act"] = "RelaySendBulk"
            sent[k]["up" if act == "ClientSend" else "down"].append((args[1], c))
            st["args"].append(c)
            if act == "ClientSend" and args[0] in gate_open and args[0] in parked:
                # messages sent while the handler is held after copyLoop: send until one is parked in its pipe write
                if any(s2["act"] == "ClientSendUntilStuck" and s2["args"][0] == k for s2 in steps):
                    continue
                st = {"act": "ClientSendUntilStuck", "args": [k, max(1, c % 50), 8]}
        if act in END_ACTS:
            ended.add(k)
        # what has to be observed before the next environment step: only if the proxy ran to rest in between
        nxt = next((j for j in range(i + 1, len(path)) if path[j]["act"] in ENV_ACTS or path[j]["act"] == "Start"), len(path))
        if states is not None and not racy and nxt > i + 1 and st["act"] != "ClientSendUntilStuck":
            o = obs_of(states[nxt - 1])
            st["settle"] = {}
            for orig, kk in ren.items():
                idx = orig - 1
                if idx < len(o["up"]):
                    st["settle"][str(kk)] = {"up": conc_total(kk, "up", o["up"][idx]), "down": conc_total(kk, "down", o["down"][idx]),
                                             "over": o["over"][idx], "ret": o["ret"][idx]}
        steps.append(st)
        if st["act"] == "RelaySendBulk":
            steps.append({"act": "AwaitBulkQuiet", "args": [k]})
    for orig in list(gate_open):
        steps.append({"act": "ReleaseClEnd", "args": [ren[orig]]})
    # whatever is still open is closed by the relay; at the end every closed session must be over
    for orig, k in ren.items():
        if k not in ended:
            steps.append({"act": "RelayCloseWs", "args": [k]})
            ended.add(k)
    final = {str(k): {"up": 0, "down": 0, "over": 1, "ret": 1} for k in ren.values()}
    steps.append({"act": "ClientRecvSettle", "args": [], "settle": final})
    return {"name": name, "capacity": len(ren) + 1, "pattern": "suffix", "allow": True, "seed": seed, "steps": steps,
            "epilogue": False, "wait_ms": 20000, "sessions": len(ren)}


def simulate(chk, num, seed):
    txt = pr.cfg_text("Gen_sim.cfg", _specdir=SPECDIR)
    d = vlib.scratch("relaysim-%d" % seed)
    r = vlib.tlc(SPECDIR, "ProxyRelay", "Gen_sim.cfg", workers=1, timeout=600, simulate="file=%s/sim,num=%d" % (d, num), depth=500, seed=seed, keep_prints=False)
    chk.add_tlc(r)
    if r.error:
        raise vlib.Inconclusive("ProxyRelay simulation: TLC reported %s" % r.error)
    out = []
    for f in sorted(os.listdir(d), key=lambda x: [int(t) if t.isdigit() else t for t in re.split(r"(\d+)", x)]):
        if not f.startswith("sim_"):
            continue
        with open(os.path.join(d, f)) as fh:
            body = fh.read()
        parts = re.split(r"(?m)^\\\* <(.+?) line \d+, col.*$", body)
        # parts: [head, label1, state1, label2, state2, ...]
        labels, states = [], []
        for j in range(1, len(parts) - 1, 2):
            if parts[j].startswith("Init") or parts[j].startswith("Finished"):
                continue
            labels.append(parts[j])
            states.append(parts[j + 1])
        if labels:
            out.append((labels, states))
    return out


def richness(labels):
    acts = [pr.parse_label(l) for l in labels]
    kinds = set(a["act"] for a in acts)
    sizes = set((a["act"], a["args"][1]) for a in acts if a["act"] in ("ClientSend", "RelaySend"))
    return len(kinds) + len(sizes) + 2 * sum(1 for a in acts if a["act"] in ("ClientVanish", "ClientAbort", "CopyToClientDropped"))


RACY_GOALS = [
    # the client sends and closes at once: every message OnMessage got is in the figures
    ("burst-close", ["ClientSend", "ClientSend", "ClientCloseDc"]),
    ("burst-abort", ["ClientSend", "ClientSend", "ClientAbort"]),
    # the relay sends and closes at once
    ("relay-burst-close", ["RelaySend", "RelayCloseWs"]),
    # a chunk from the relay is counted while the channel is already gone
    ("dropped-chunk", ["RelaySend", "ConnWriteAdd", "ClientCloseDc", "DcOnClose", "CopyToClientDropped"]),
    # the relay side has ended, the copier towards it dies on its next write, one more client message is parked
    # in its pipe write while the handler has not yet closed anything: conn.Close() must release it
    ("parked-message", ["RelayCloseWs", "CopyLoopEnds", "ClientSend", "CopyUpFails", "ClientSend", "DcOnMessageStart", "ConnClose", "PipeWriteFails"]),
    ("vanish-then-relay-close", ["ClientSend", "ClientVanish", "RelaySend", "RelayCloseWs"]),
]
# bulk download with a reader that does not keep up (RelaySend is made a multi-megabyte push), then one end goes away
BULK_GOALS = [
    ("bulk-stall-abort", ["ClientStallsReading", "RelaySend", "ClientAbort"]),
    ("bulk-stall-closedc", ["ClientStallsReading", "RelaySend", "ClientCloseDc"]),
    ("bulk-stall-vanish-relayclose", ["ClientStallsReading", "RelaySend", "ClientVanish", "RelayCloseWs"]),
    ("bulk-stall-relayclose", ["ClientStallsReading", "RelaySend", "RelayCloseWs"]),
    ("bulk-stall-resume-close", ["ClientStallsReading", "RelaySend", "ClientResumes", "ClientCloseDc"]),
    ("bulk-flowing-abort", ["RelaySend", "ClientAbort"]),
]


def gen_plans(chk, quick):
    plans = []
    g = pr.dump_graph(chk, "Gen_racy.cfg", _specdir=SPECDIR, _module="ProxyRelay")
    chk.note("ProxyRelay: racy graph %d states, %d edges" % (g.nstates, g.nedges))
    for name, goal in RACY_GOALS:
        for v in ([0] if quick else [0, 1, 2]):
            steps = g.path(["Start"] + goal, rot=chk.seed - 1 + v)
            if steps is None:
                raise vlib.Inconclusive("ProxyRelay vacuity: no behaviour takes %s" % goal)
            plans.append(to_plan("relay-%s%s" % (name, "-v%d" % v if v else ""), [pr.label_of(s) for s in steps], None, chk.seed + 10 * v, racy=True))
    for name, goal in BULK_GOALS:
        steps = g.path(["Start"] + goal, rot=chk.seed - 1)
        if steps is None:
            raise vlib.Inconclusive("ProxyRelay vacuity: no behaviour takes %s" % goal)
        plans.append(to_plan("relay-" + name, [pr.label_of(s) for s in steps], None, chk.seed, racy=True, bulk=True))
    del g
    sims = simulate(chk, 40 if quick else 300, chk.seed * 100 + 7)
    sims = [s for s in sims if sum(1 for l in s[0] if l.startswith("Start")) == 2]
    order = sorted(range(len(sims)), key=lambda i: (-richness(sims[i][0]), i))
    take = 6 if quick else 40
    seen = set()
    for i in order:
        key = " ".join(l for l in sims[i][0] if l.split("(")[0] in ENV_ACTS)
        if key in seen:
            continue
        seen.add(key)
        plans.append(to_plan("relay-sim-%d" % i, sims[i][0], sims[i][1], chk.seed))
        if len(seen) >= take:
            break
    if len(seen) < 3:
        raise vlib.Inconclusive("ProxyRelay vacuity: only %d sampled behaviours with two sessions" % len(seen))
    return plans


def relay_events(events):
    return [e for e in events if e.get("ev") in ALPHABET or (e.get("ev") == "tok.ret" and e.get("g") == "h")]


def validate(events, nsess, lag=False, hang=False):
    txt = pr.cfg_text("Trace.cfg", _specdir=SPECDIR, Sessions="{%s}" % ", ".join(str(i) for i in range(1, nsess + 1)),
                      AsIs_LoggerLag="TRUE" if lag else "FALSE", AsIs_PipeHang="TRUE" if hang else "FALSE")
    data = "".join(json.dumps(e, separators=(",", ":")) + "\n" for e in relay_events(events))
    r = pr.tlc_safe("ProxyRelay_Trace", "TraceRun.cfg", cfgtxt=txt, data=data, workers=1, timeout=600, specdir=SPECDIR)
    if r.error is None:
        return "accepted", None, r
    if r.error.startswith("invariant:"):
        return "invariant", r.error.split(":", 1)[1], r
    un = [p for p in r.prints if isinstance(p, dict) and "unexplained" in p]
    return "rejected", (un[0] if un else None), r


def diverged_sig(ev, dv):
    """signature of a divergence: the final settle names what is missing of getting over"""
    act = dv[0].get("act")
    if act == "ClientRecvSettle":
        sess = sorted(set(e.get("s") for e in ev if e.get("ev") == "relay.accept"))
        noslot = [s for s in sess if not any(e.get("ev") == "dh.end" and e.get("s") == s for e in ev)]
        noover = [s for s in sess if not any(e.get("ev") == "dc.onclose" and e.get("s") == s for e in ev)]
        kind = "slot-not-returned" if noslot else ("no-over-event" if noover else "other")
        return "C16/relay/not-over/%s" % kind, "every end of the session(s) has gone away, but %s after %s ms: %s" % (
            "the handler has not ended and the slot is still held (sessions %s)" % noslot if noslot else "no connection-over event was published (sessions %s)" % noover,
            dv[0].get("t", 0) - dv[0].get("since", 0),
            json.dumps([{k: v for k, v in e.items() if k in ("ev", "s", "n", "sent")} for e in ev if e.get("ev") in (
                "client.stall", "client.abort", "client.close", "client.vanish", "relay.close", "dc.onclose", "cl.end", "conn.pcclose", "dh.end")][-10:]))
    return "C16/relay/diverged/%s" % act, "the proxy never got to what step %s expects (%s)" % (act, dv[0].get("why"))


def judge(out):
    """-> (status, signature, what): ok | skip | broken | violation | diverged"""
    ev = out.events
    if any(e.get("ev") == "skip" for e in ev):
        return "skip", None, ""
    if out.timed_out or not ev or any(e.get("ev") == "harness.error" for e in ev):
        return "broken", None, "rig failure (rc=%s timeout=%s): %s" % (out.rc, out.timed_out, out.out[-1200:])
    if "panic:" in out.out or "fatal error:" in out.out:
        m = re.search(r"(panic: .*|fatal error: .*)", out.out)
        return "violation", "C16/relay/crash", "the proxy process crashed: %s" % (m.group(1)[:200] if m else "")
    if "WARNING: DATA RACE" in out.out:
        # a -race build (VERIF_RACE=1) whose reports go to the process output (under C20 they go to its log files)
        rep = out.out[out.out.index("WARNING: DATA RACE"):][:6000]
        tops = re.findall(r"(?m)^(?:Read|Write|Previous read|Previous write) at .*:\n  (\S+?)\(\)", rep)
        pair = sorted(set(t.split("/")[-1] for t in tops[:2]))
        return "violation", "C16/relay/data-race/%s" % "+".join(pair), "the race detector reports a data race during the replay:\n%s" % out.out[out.out.index("WARNING: DATA RACE"):][:1500]
    bad = [e for e in ev if e.get("ev") in ("relay.recv", "client.recv") and e.get("ok") is False]
    if bad:
        return "violation", "C16/relay/wrong-bytes/%s" % bad[0]["ev"], "session %s: %s delivered bytes that do not continue the session's stream (out of order, duplicated or from another session): %s" % (
            bad[0].get("s"), bad[0]["ev"], json.dumps(bad[0]))
    dv = [e for e in ev if e.get("ev") == "diverged"]
    n = out.plan["sessions"]
    verdict, detail, r = validate(ev, n)
    out.tlc = r
    if verdict == "invariant":
        return "violation", "C16/relay/%s" % detail, "invariant %s fails on the recorded execution" % detail
    if verdict == "rejected":
        e = (detail or {}).get("event", {})
        if dv and e.get("t", 0) >= dv[0].get("since", 0) + c16.STALE_MS:
            return ("diverged",) + diverged_sig(ev, dv)
        if e.get("ev") == "dc.onclose":
            # which deviation explains the figures?
            v2, d2, _ = validate(ev, n, lag=True)
            kind = "stale" if v2 in ("invariant", "accepted") else "wrong"
            return "violation", "C16/relay/figures-%s" % kind, "the traffic figures read at OnClose (%s) are not the bytes counted so far for the session (model of the repaired code); %s" % (
                json.dumps(e), "they are explained by amounts still waiting in the logger's channels" if kind == "stale" else "no deviation explains them")
        if e.get("ev") == "event.over":
            return "violation", "C16/relay/event-figures", "the figures a listener of the proxy's dispatcher received (%s) are not the ones of any session that has just got over: %s" % (
                json.dumps(e), json.dumps([[x.get("s"), x.get("in"), x.get("out")] for x in ev if x.get("ev") == "dc.onclose"]))
        if e.get("ev") == "end":
            v2, d2, _ = validate(ev, n, hang=True)
            return "violation", "C16/relay/not-over", "at the end of the recording a session one of whose ends closed is not over (event, slot, copiers, pc.Close): %s" % json.dumps(
                [x for x in ev if x.get("ev") in ("dc.onclose", "event.over", "dh.end", "conn.pcclose")][-8:])
        return "violation", "C16/relay/trace-rejected/%s" % e.get("ev"), "recorded execution is not a behaviour of ProxyRelay: first unexplained event %s" % json.dumps(e)
    if dv:
        return ("diverged",) + diverged_sig(ev, dv)
    if not any(e.get("ev") == "end" for e in ev):
        return "broken", None, "recording has no end event: " + out.out[-600:]
    # the slots of the same execution: C16's own trace specification
    s2, sig2, what2 = c16.judge(out)
    if s2 != "ok":
        return s2, (sig2 or "").replace("C16/", "C16/relay-slots/"), what2
    return "ok", None, None


def model_check(chk, quick):
    runs = [("MC_quick.cfg", None)] if quick else [("MC_quick.cfg", None), ("MC_one.cfg", None)]   # (sessions share no state in the model: two at once are only replayed)
    for cfg, _ in runs:
        r = pr.tlc_safe("ProxyRelay", cfg, workers=max(2, vlib.NCPU // 2), timeout=1800, specdir=SPECDIR, coverage=(cfg == "MC_quick.cfg" and not quick))
        chk.add_tlc(r)
        chk.note("TLC ProxyRelay %s: %d distinct states, error=%s (%.0fs)" % (cfg, r.distinct, r.error, r.wall))
        if r.error:
            chk.fail("ProxyRelay model check %s failed: %s\n%s" % (cfg, r.error, r.out[-2500:]))
            return
        if r.coverage:
            zero = sorted(a for a, (d, t) in r.coverage.items() if t == 0 and a not in ("LoggerDrain",))
            if zero:
                chk.fail("ProxyRelay vacuity: actions never taken in %s: %s" % (cfg, zero))
    for cfg, exp in (("MC_asis_lag.cfg", "invariant:FiguresRight"), ("MC_asis_hang.cfg", "deadlock")):
        r = pr.tlc_safe("ProxyRelay", cfg, workers=2, timeout=600, specdir=SPECDIR)
        chk.add_tlc(r)
        if r.error != exp:
            chk.fail("ProxyRelay sensitivity: %s should give %s, TLC says %s" % (cfg, exp, r.error))
            return
    chk.note("TLC ProxyRelay sensitivity: pinned logger -> FiguresRight violated, pinned pipe -> deadlock (parked OnMessage), as expected")


def run_relay_part(chk, q):
    """q: True = quick tier.  Returns a summary dict."""
    quick = bool(q)
    binary = pr.build()
    plans = gen_plans(chk, quick)
    chk.note("ProxyRelay: %d behaviours to replay" % len(plans))
    with concurrent.futures.ThreadPoolExecutor(max_workers=2) as ex:
        mc = ex.submit(model_check, chk, quick)
        outs = pr.run_plans(binary, TEST, plans, parallel=20, timeout=240)
        chk.note("ProxyRelay: replays done (slowest %.0fs)" % max(o.wall for o in outs))
        with concurrent.futures.ThreadPoolExecutor(max_workers=12) as ex2:
            verdicts = list(ex2.map(judge, outs))
        mc.result()
    summary = {"behaviours": 0, "events": 0, "sessions": 0, "bytes_up": 0, "bytes_down": 0, "skipped": 0}
    pending = {}
    for out, (status, sig, what) in zip(outs, verdicts):
        if getattr(out, "tlc", None) is not None:
            chk.add_tlc(out.tlc)
        if status == "ok":
            summary["behaviours"] += 1
            summary["events"] += len(relay_events(out.events))
            summary["sessions"] += out.plan["sessions"]
            summary["bytes_up"] += sum(e["n"] for e in out.ev("relay.recv"))
            summary["bytes_down"] += sum(e["n"] for e in out.ev("client.recv"))
            chk.cov["traces_validated_against_impl"] += 1
            chk.cov["evaluations"] += len(relay_events(out.events))
            chk.cov["distinct_nontrivial"] += 1
            chk.sample({"plan": out.plan["name"], "steps": " ".join("%s%s" % (s["act"], s["args"]) for s in out.plan["steps"] if s["act"] in ENV_ACTS or s["act"].startswith(("Arm", "Release", "ClientSendUntil")))[:900],
                        "over": [[e.get("s"), e.get("in"), e.get("out")] for e in out.ev("dc.onclose")]}, limit=3)
        elif status == "skip":
            summary["skipped"] += 1
        elif status == "broken":
            chk.fail("ProxyRelay %s: %s" % (out.plan["name"], what))
        else:
            pending.setdefault(sig, (out, status, what))
    # confirm divergences / unexplained events by an isolated re-run; invariants and wrong bytes at once
    todo = []
    for sig, (out, status, what) in sorted(pending.items()):
        if status == "violation" and ("/trace-rejected/" not in sig and "/not-over" not in sig):
            chk.violation(sig, "%s [behaviour %s]" % (what, out.plan["name"]), {"kind": "relay", "plan": out.plan, "trace": relay_events(out.events)[-80:]})
        else:
            todo.append((sig, out, status, what))
    if todo:
        todo = todo[:5]
        plans2 = []
        for sig, out, status, what in todo:
            p2 = dict(out.plan)
            p2["wait_ms"] = 2 * p2["wait_ms"]
            p2["name"] += "-confirm"
            plans2.append(p2)
        chk.note("ProxyRelay: confirming %d signature(s) by isolated re-runs" % len(plans2))
        outs2 = pr.run_plans(binary, TEST, plans2, parallel=len(plans2), timeout=400)
        for (sig, out, status, what), o2 in zip(todo, outs2):
            s2, sig2, what2 = judge(o2)
            if s2 in ("violation", "diverged") and sig2 == sig:
                chk.violation(sig, "%s [behaviour %s, confirmed by an isolated re-run]" % (what, out.plan["name"]),
                              {"kind": "relay", "plan": out.plan, "trace": relay_events(out.events)[-80:]})
            else:
                chk.fail("ProxyRelay %s: %s (%s) was not reproduced by an isolated re-run (second run: %s %s)" % (out.plan["name"], sig, what, s2, sig2))
    if summary["skipped"]:
        chk.cov.setdefault("skipped_clauses", []).append("ProxyRelay replays: no non-loopback interface")
    elif not chk.violations and not chk.inconclusive and (summary["bytes_up"] < 20000 or summary["bytes_down"] < 20000):
        chk.fail("ProxyRelay vacuity: only %d / %d bytes relayed" % (summary["bytes_up"], summary["bytes_down"]))
    chk.note("ProxyRelay: %(behaviours)d behaviours validated, %(sessions)d sessions, %(events)d events, %(bytes_up)d bytes up, %(bytes_down)d bytes down" % summary)
    chk.assumptions += [
        "ProxyRelay: a vanished client is a harness client that never sends, reads or closes again (its transport keeps answering keep-alives); "
        "payloads are a keyed byte stream per session and direction (content classes are not enumerated by TLC)",
        "ProxyRelay: the copier ws->conn has one hook for its three steps; the trace specification places its read-and-count using the size of the session's next conn.write event",
    ]
    return summary


def replay(chk, rp):
    binary = pr.build()
    out = pr.run_one(binary, TEST, rp["plan"], 400)
    status, sig, what = judge(out)
    chk.note("ProxyRelay replay %s: %s %s" % (rp["plan"]["name"], status, sig or ""))
    if status == "ok":
        chk.cov["traces_validated_against_impl"] += 1
    elif status in ("violation", "diverged"):
        chk.violation(sig, what, {"kind": "relay", "plan": rp["plan"], "trace": relay_events(out.events)[-80:]})
    else:
        chk.fail("ProxyRelay replay: %s" % what)
