"""C18, rig part - RemoteAddr() of every connection accepted by the real
server equals the sanitised client_ip of the most recent carrier that
presented the session's ClientID when the session was established.

Exposes run_rig_part(chk, args) for lib/checks/c18.py (whose map/sanitiser part
is a separate engineer's).  Machinery: spec/ServerMux (invariants
RemoteAddrRight, SetIsSanitised), ServerMux_Gen behaviours with many client_ip
spellings per carrier, harness/cmd/corerig, trace validation against
ServerMux_Trace.  The two accesses of the address memory are logged before
and after the call, and TLC places the linearisation point between them."""
import os

import corerig
import vlib
from checks import c05

SPECDIR = c05.SPECDIR


def forgetting(chk, rigbin):
    """The bounded memory forgets: between a carrier's attachment and its
    session's first packet 10240 (= clientIDAddrMapCapacity) other carriers
    attach.  The lookup must fail exactly when the model's window has lost the
    entry, and RemoteAddr() of the accepted connection must then be the EMPTY
    address (ServerMux: AddrFor / RemoteAddrRight), never a nil net.Addr
    (server.go handleConn dereferences it).  TLC judges the trace; a rejection
    whose accepted address is nil gets the signature of that defect."""
    sc = {"name": "c18-forget", "seed": chk.seed, "stale_ms": 60000, "sessions": [
        {"up": 5000, "down": 5000, "carriers": [{"label": "", "ip": "192.0.2.7", "pres": "id", "flood": 10240}]}],
        "origin": {"module": "ServerMux", "steps": [["S_SetAddr", [1]], ["10240 x S_SetAddr of other ids"], ["S_GetAddr", ["A"]], ["S_Accept", ["A"]]]}}
    results, summary, out, races = corerig.run_rig(rigbin, [sc], par=1, timeout=300, tag="forget")
    res = results["c18-forget"]
    flood = [e for e in res["events"] if e["ev"] == "srv.flood"]
    acc = [e for e in res["events"] if e["ev"] == "app.accept"]
    look = [e for e in res["events"] if e["ev"] == "srv.accept"]
    if not flood or flood[0]["n"] < 10240 or not acc or not look:
        chk.fail("forgetting scenario did not reach 10240 attachments / an accept: %s %s" % (flood, acc))
        return
    if look[0]["found"]:
        chk.fail("forgetting scenario: the lookup still found the ClientID after %d later attachments (vacuous)" % flood[0]["n"])
    bad = corerig.validate(chk, SPECDIR, "ServerMux_Trace", "Trace.cfg", [res], shards=1)
    for r, kind, detail, local, ev in bad:
        if acc[0]["addr"] == "<nil>":
            sig = "C18/forgotten-remoteaddr-is-nil"
            what = ("after %d later attachments the ClientID was evicted from the address memory and Accept() returned a connection whose "
                    "RemoteAddr() is a nil net.Addr (TLC: %s %s); the specification demands the empty address" % (flood[0]["n"], kind, detail))
        else:
            sig = corerig.signature("C18", r, kind, detail, local, ev)
            what = "forgetting scenario: %s %s at event %s %s" % (kind, detail, local, ev)
        chk.violation(sig, what, {"scenario": sc, "event_index": local, "event": ev, "kind": kind, "detail": detail,
                                  "events": [e for e in res["events"] if e["ev"] not in ("srv.in", "srv.out", "app.read")][:40]})
    chk.cov["rig_forgotten_attachments"] = flood[0]["n"]
    chk.cov["rig_forgotten_remoteaddr"] = acc[0]["addr"]
    chk.cov["evaluations"] += 1
    chk.cov["distinct_nontrivial"] += 1
    chk.note("forgetting: after %d later attachments the lookup found=%s and RemoteAddr() of the accepted connection is %r" % (flood[0]["n"], look[0]["found"], acc[0]["addr"]))


def reread_scenarios(chk, quick):
    """Deterministic companions of the generated behaviours: one session per
    scenario, established through a carrier with a given client_ip (valid v4,
    valid v6, absent, invalid); once its streams are complete the epilogue
    attaches further carriers presenting the SAME ClientID with a different, an
    absent and an invalid client_ip, opens a later stream and - in the flood
    scenario - lets more other ClientIDs attach than the address memory holds
    (10240 = clientIDAddrMapCapacity, a constant of server/lib).  One of them
    loses its first carrier before the later reads."""
    out = []
    for i, ip in enumerate(["192.0.2.7", "2001:db8::5", None, "not-an-ip", "::ffff:203.0.113.9"]):
        out.append({"name": "c18-reread-%d" % i, "seed": chk.seed * 100 + i, "addr_reads": True, "sessions": [
            {"up": 4000, "down": 4000, "carriers": [{"label": "", "ip": ip, "pres": "id"}]}],
            "origin": {"module": "ServerMux", "steps": [["S_SetAddr", [1]], ["S_GetAddr", ["A"]], ["S_Accept", ["A"]], ["later: S_SetAddr of the same id x3, reads"]]}})
    out.append({"name": "c18-reread-cut", "seed": chk.seed * 100 + 7, "addr_reads": True, "sessions": [
        {"up": 60000, "down": 60000, "carriers": [
            {"label": "", "ip": "198.51.100.200", "pres": "id", "fault": {"kind": "cut", "dir": "up", "cls": "time", "nth": 0, "after_ms": 40}},
            {"label": "", "ip": "0.0.0.0", "pres": "id"}]}],
        "origin": {"module": "ServerMux", "steps": [["S_Accept", ["A"]], ["S_Cut", [1, "bnd"]], ["S_Open", [2]], ["reads"]]}})
    out.append({"name": "c18-reread-flood", "seed": chk.seed * 100 + 9, "addr_reads": True, "flood_after": 10300, "stale_ms": 60000, "sessions": [
        {"up": 3000, "down": 3000, "carriers": [{"label": "", "ip": "203.0.113.77", "pres": "id"}]}],
        "origin": {"module": "ServerMux", "steps": [["S_Accept", ["A"]], ["10300 x S_SetAddr of other ids"], ["reads"]]}})
    return out


def run_rig_part(chk, args):
    q = chk.tier == "quick"
    rigbin = vlib.go_build("./cmd/corerig", "corerig", linkflag=True)
    # design level: three carriers of one session with three addresses; ring of capacity 1 and 0
    import threading
    mc_out = []

    def mc():
        try:
            for cfg in ["MC_addr3.cfg", "MC_ring1.cfg", "MC_ring0.cfg"] + ([] if q else ["MC_q1.cfg"]):
                mc_out.append((cfg, vlib.tlc(SPECDIR, "MC_ServerMux", cfg, workers=6, timeout=900, keep_prints=False, heap="6g")))
        except Exception as e:
            mc_out.append(("error", e))
    th = threading.Thread(target=mc)
    th.start()
    # behaviours with many client_ip spellings; small payloads (addresses matter here, not bytes)
    num = 24 if q else 300
    scenarios, infos = c05.generate(chk, ["Gen_b.cfg", "Gen_c.cfg", "Gen_a.cfg"], num, 80, "c18", sizes=[3000, 20000, 60000], kinds=("cut",))
    # The address is fixed when the session is established: RemoteAddr() of every accepted connection is read
    # again at later moments (harness/rig/c18addr.go: after later carriers of the same ClientID, at the end, after
    # probe carriers with another / no / an invalid client_ip, for a later stream); TLC compares every read with
    # sessAddr (ServerMux_Trace.TAddrRead).
    for sc in scenarios:
        sc["addr_reads"] = True
    scenarios += reread_scenarios(chk, q)
    results, summary, out, races = corerig.run_rig(rigbin, scenarios, par=48, timeout=600, tag="c18")
    chk.note("core rig (addresses): %d scenarios, %d done, %d stalled, %d dials" % (summary["cases"], summary["done"], summary["stalled"], summary["dials"]))
    if summary.get("orphans"):
        chk.violation("C18/orphan-hook-event", "hook events for unknown carriers/ClientIDs: %s" % summary["orphans"][:3], {"orphans": summary["orphans"][:20]})
    c05.judge(chk, "C18", rigbin, scenarios, results)
    if not q:
        forgetting(chk, rigbin)
    th.join()
    for cfg, r in mc_out:
        if cfg == "error":
            raise r
        chk.add_tlc(r)
        chk.note("TLC %s: %d distinct states, error=%s (%.0fs)" % (cfg, r.distinct, r.error, r.wall))
        if r.error:
            chk.fail("model check %s failed in the model alone: %s\n%s" % (cfg, r.error, r.out[-1500:]))
    # measured coverage of the rig part
    accepts, ips, multi, changed = 0, set(), 0, 0
    rereads, reread_kinds, reread_after_change = 0, {}, 0
    for n, res in results.items():
        seen, at_accept = {}, {}
        for e in res["events"]:
            if e["ev"] == "app.accept" and e.get("nth") == 1:
                at_accept[e["id"]] = e["addr"]
            if e["ev"] == "app.addr":
                rereads += 1
                reread_kinds[e["when"]] = reread_kinds.get(e["when"], 0) + 1
                a = seen.get(e["id"], [])
                if a and e["id"] in at_accept and a[-1] != at_accept[e["id"]]:
                    reread_after_change += 1     # the latest Set for this ClientID differs from the address the connection had when accepted
            if e["ev"] == "car.open":
                ips.add(e["ip"])
            if e["ev"] == "srv.attached":
                seen.setdefault(e["id"], []).append(e["addr"])
            if e["ev"] == "app.accept":
                accepts += 1
                a = seen.get(e["id"], [])
                if len(set(a)) > 1:
                    multi += 1
                    if a and a[0] != e["addr"]:
                        changed += 1
    chk.cov["rig_accepts_checked"] = chk.cov.get("rig_accepts_checked", 0) + accepts
    chk.cov["rig_client_ip_values"] = sorted(ips)
    chk.cov["rig_accepts_after_several_addresses"] = multi
    chk.cov["rig_accepts_where_latest_differs_from_first"] = changed
    chk.cov["evaluations"] += len(results)
    chk.cov["distinct_nontrivial"] += sum(1 for n in results if any(e["ev"] == "app.accept" for e in results[n]["events"]))
    if accepts < 20 or len(ips) < 8:
        chk.fail("vacuous rig part: %d accepts, %d client_ip values" % (accepts, len(ips)))
    if multi == 0:
        chk.fail("vacuous rig part: no session was established after carriers with different addresses")
    chk.cov["rig_later_reads_of_remoteaddr"] = rereads
    chk.cov["rig_later_reads_by_moment"] = reread_kinds
    chk.cov["rig_later_reads_after_a_different_set"] = reread_after_change
    chk.note("later reads of RemoteAddr(): %d (%s); %d of them after a carrier with a different sanitised address had attached for the same ClientID" % (
        rereads, ", ".join("%s %d" % kv for kv in sorted(reread_kinds.items())), reread_after_change))
    need = ("attached", "end", "probe", "later-stream", "evicted")
    if reread_after_change < 10 or any(k not in reread_kinds for k in need):
        chk.fail("vacuous rig part: later reads of RemoteAddr() incomplete: %s, after a different Set: %d" % (reread_kinds, reread_after_change))
    chk.assumptions += [
        "rig part: the expected address of each concrete client_ip string is the table SanitTable of spec/ServerMux (contract restricted to the strings the rig sends)",
        "rig part: forgetting (10240 later attachments before the session is established) is provoked once, in the thorough tier only (the capacity is a constant of server/lib)",
        "rig part: RemoteAddr() of every accepted connection is read again after later carriers of the same ClientID (different / absent / invalid client_ip), at the end, for a later stream and after 10300 other ClientIDs attached; every read must equal the address looked up at session establishment (sessAddr)",
    ]
