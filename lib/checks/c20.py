"""C20 - no data races in broker, server, proxy or client under load.

In-family part: (1) spec/Locks/BrokerLocks.tla - the table of critical sections
of the broker with their lock sets; TLC checks NoConcurrentConflict (and that
the table of the pinned tree violates it: vacuity guard); (2) binding: every
event the broker rig records inside a critical section carries a TryLock probe
of the lock the table names; TLC validates the recorded executions against
Broker_Trace with RequireLocked = TRUE.

Monitor: the model-driven executions of the other checks (broker herds on the
timeout boundaries with a concurrent metrics rollover, turbotunnel adapters,
peers, server core rig, proxy rig) are rebuilt with -race; every race report
whose stacks reach snowflake code is a violation (signature: the two racing
functions)."""
import json
import os
import re
import subprocess
import sys

import brokerlib
import vlib

LEVEL = "exploration"
MOD = "git.torproject.org/pluggable-transports/snowflake.git/v2/"

# properties whose quick drivers are re-run under the race detector: (id, extra args)
SUBCHECKS_QUICK = [("C17", []), ("C15", []), ("C05", []), ("C16", []), ("C03", ["--only", "bridgelist"])]
SUBCHECKS_THOROUGH = [("C17", []), ("C15", []), ("C05", []), ("C16", []), ("C03", ["--only", "bridgelist"]), ("C01", []), ("C18", []), ("C06", []), ("C11", ["--only", "utls"])]


def parse_races(text):
    """-> list of (signature, report text).  An access is attributed to the
    repository when a frame of the repository (harness files excluded) is among
    the 6 innermost frames of its stack.  A report is judged when at least one
    access is attributed to the repository and neither access is harness code;
    reports that involve harness code, or only library code, get an
    'external:' signature and are noted, not judged."""
    out = []
    for rep in text.split("WARNING: DATA RACE")[1:]:
        rep = rep.split("==================")[0]
        stacks = re.split(r"\n\s*\n", rep.strip())
        tops = []
        harness = False
        for st in stacks[:2]:
            frames = re.findall(r"^\s+(\S+)\(.*\n\s+(\S+\.go):\d+", st, re.M)
            if not frames:
                frames = [(f, "") for f in re.findall(r"^\s+(\S+)\(", st, re.M)]
            pick = None
            for n, (fn, path) in enumerate(frames[:6]):
                is_harness = "_verif_test.go" in path or "/harness/" in path or fn.startswith("verifharness")
                if is_harness:
                    if n == 0 or pick is None:
                        harness = harness or n <= 1
                    continue
                if fn.startswith(MOD) or path.startswith(vlib.REPO + "/"):
                    pick = fn[len(MOD):] if fn.startswith(MOD) else fn
                    break
            tops.append(pick)
        names = sorted(re.sub(r"\.(func|deferwrap)\d+(\.\d+)*$", "", t) if t else "(library)" for t in tops)
        if harness or all(t is None for t in tops):
            out.append(("external:" + "|".join(names) + ("(harness)" if harness else ""), rep))
        else:
            # at least one access is in repository code and the other is not in harness code: memory the
            # repository shares with a library (e.g. a buffer it queued without copying) is its own business
            out.append(("race:" + "|".join(names), rep))
    return out


def report(chk, races, source):
    seen_ext = set()
    for sig, rep in races:
        if sig.startswith("external:"):
            if sig not in seen_ext:
                seen_ext.add(sig)
                chk.note("race report outside snowflake code (not judged): %s [%s]" % (sig, source))
            continue
        chk.violation("C20/" + sig, "data race reported by the race detector during %s" % source, {"source": source, "report": rep[:6000]})
    chk.cov.setdefault("race_reports", {})[source] = len([1 for s, _ in races if not s.startswith("external:")])


def broker_part(chk, q):
    # 1. lock table
    r = vlib.tlc(os.path.join(vlib.SPEC, "Locks"), "BrokerLocks", "Fixed.cfg", timeout=300, keep_prints=False)
    chk.add_tlc(r)
    if r.error:
        chk.fail("spec/Locks: the lock table of the repaired tree violates %s (table and code must be brought in line)\n%s" % (r.error, r.out[-1500:]))
        return
    r = vlib.tlc(os.path.join(vlib.SPEC, "Locks"), "BrokerLocks", "Pinned.cfg", timeout=300, keep_prints=False)
    chk.add_tlc(r)
    if r.error != "invariant:NoConcurrentConflict":
        chk.fail("vacuity: the lock table of the pinned tree no longer violates NoConcurrentConflict")
        return
    # 2. lock probes on model-driven executions, validated by TLC with RequireLocked
    counts = {"Gen_small": 80, "Gen_core": 150, "Gen_big": 100} if q else {"Gen_small": 400, "Gen_core": 1500, "Gen_big": 1500}
    scen = brokerlib.generate_replays(chk, counts, chk.seed + 20)
    scen += brokerlib.generate_herds(40 if q else 400, chk.seed + 20, len(scen) + 1)
    by_sc, _ = brokerlib.run_rig(chk, scen)
    nprobe = 0
    ok = {}
    for sid, evs in by_sc.items():
        for e in evs:
            if "locked" in e:
                nprobe += 1
                if e["locked"] is not True:
                    chk.violation("C20/unlocked:%s%s" % (e["ev"], ("/" + e["site"]) if e.get("site") else ""),
                                  "critical section entered without its lock (TryLock probe succeeded): %s" % json.dumps(e),
                                  {"scenario": [s for s in scen if s["id"] == sid][0], "events": evs})
        end = [e for e in evs if e["ev"] == "end"]
        if end and not end[0]["pending"]:
            ok[sid] = evs
    chk.cov["lock_probes"] = nprobe
    if nprobe < 1000:
        chk.fail("vacuous: only %d lock probes recorded" % nprobe)
    findings, accepted = brokerlib.validate(chk, ok, locked=True)
    chk.cov["traces_validated_against_impl"] += accepted
    for sid, kind, ev in findings:
        if ev.get("locked") is False:
            chk.violation("C20/unlocked:%s" % ev["ev"], "trace rejected by Broker_Trace (RequireLocked): %s" % json.dumps(ev), {"scenario": [s for s in scen if s["id"] == sid][0]})
        else:
            chk.note("trace finding owned by another property: %s (scenario %s)" % (kind, sid))
    chk.cov["evaluations"] += len(scen)
    # 3. race detector on herds at the timeout boundaries, with a metrics rollover in the middle of a wave
    herds = brokerlib.generate_herds(80 if q else 600, chk.seed + 21, 1)
    for s_ in herds:
        s_["rollduring"], s_["rollover"] = True, False
        s_["georeload"] = True      # the operator's SIGHUP reload of the GeoIP tables arrives while polls are served
    reps = brokerlib.generate_replays(chk, {"Gen_core": 100 if q else 600}, chk.seed + 22)
    for n, s_ in enumerate(reps):
        s_["id"] = 10000 + n
    _, outs = brokerlib.run_rig(chk, herds + reps, race=True, shards=8, tag="race")
    report(chk, parse_races("\n".join(outs)), "broker herds and replays (-race)")
    chk.cov["evaluations"] += len(herds) + len(reps)
    chk.cov["distinct_nontrivial"] += len(herds)
    chk.sample({"herd": herds[0]["steps"][:3]})


def sub_part(chk, q):
    d = vlib.scratch("c20-sub")
    logs = os.path.join(d, "racelogs")
    os.makedirs(logs, exist_ok=True)
    subs = SUBCHECKS_QUICK if q else SUBCHECKS_THOROUGH
    procs = []
    for pid, extra in subs:
        modpath = os.path.join(vlib.VERIF, "lib", "checks", pid.lower() + ".py")
        if not os.path.exists(modpath):
            chk.note("no check module for %s yet: not part of the race monitor" % pid)
            continue
        env = dict(os.environ, VERIF_RACE="1", GORACE="log_path=%s/%s exitcode=0 halt_on_error=0" % (logs, pid),
                   VERIF_EVIDENCE_DIR=os.path.join(d, "evidence"), VERIF_REPLAY_DIR=os.path.join(d, "replays"), VERIF_SEED=str(chk.seed))
        cmd = [os.path.join(vlib.VERIF, "bin", "check"), pid, "--tier", "quick"] + extra
        outp = open(os.path.join(d, pid + ".out"), "w")
        procs.append((pid, subprocess.Popen(cmd, env=env, stdout=outp, stderr=subprocess.STDOUT, start_new_session=True), outp))
    import time
    deadline = time.time() + (900 if q else 3000)
    for pid, p, outp in procs:
        try:
            p.wait(timeout=max(1, deadline - time.time()))
        except subprocess.TimeoutExpired:
            import signal
            try:
                os.killpg(p.pid, signal.SIGKILL)
            except ProcessLookupError:
                pass
            p.wait()
            chk.note("race run of %s stopped at the time limit (reports so far are used)" % pid)
        outp.close()
        text = ""
        for f in sorted(os.listdir(logs)):
            if f.startswith(pid + "."):
                with open(os.path.join(logs, f), errors="replace") as fh:
                    text += fh.read() + "\n"
        with open(os.path.join(d, pid + ".out"), errors="replace") as fh:
            o = fh.read()
        text += o   # reports of binaries that do not honour log_path
        tail = [l for l in o.splitlines() if l.startswith("[" + pid + "]")]
        chk.note("race run of %s: exit %s; %s" % (pid, p.returncode, tail[-1][:160] if tail else "no summary"))
        report(chk, parse_races(text), "the %s drivers (-race)" % pid)
        chk.cov["evaluations"] += 1
        if p.returncode not in (0, 1) and not tail:
            chk.note("race run of %s gave no verdict of its own (only race reports are used here)" % pid)


def run(chk, args):
    q = chk.tier == "quick"
    only = (args.only or "broker,sub").split(",")
    if "broker" in only:
        broker_part(chk, q)
    if "sub" in only:
        sub_part(chk, q)
    chk.cov["rule"] = ("executions: TLC-generated replays and seeded herds of the broker rig (lock probes + -race), and the quick drivers of the "
                       "listed properties rebuilt with -race; non-trivial = herd scenarios with a metrics rollover inside a wave")
    chk.assumptions += ["the race detector only sees accesses that the model-driven executions perform",
                        "race reports whose both stacks lie in third-party code or harness code are noted, not judged"]


MANIFEST = {
    "technique": "TLA+ lock-table spec BrokerLocks (NoConcurrentConflict by TLC) bound by TryLock probes at hooked critical sections validated against Broker_Trace(RequireLocked); Go race detector attached as a monitor to the model-driven executions of the broker, turbotunnel, peers, server and proxy drivers",
    "text": "Race freedom is decided by the specification only at the grain of the shared state it models (matching heaps, id map, gauge, metrics counters and address sets): the lock sets are explicit, TLC shows no two conflicting accesses can overlap, and every recorded execution must show the named lock held at every hooked critical section. Below that grain the happens-before race detector monitors the same model-generated schedules (herds on the timeout boundaries with a period rollover, adapter stress, churn, shutdown). Exploration level: finite schedules, not exhaustive over memory interleavings.",
    "note": "The -race monitor is outside the TLA+ family and is attached at zero modelling cost; it sees only what the drivers execute. Third-party races (pion, kcp, smux) are noted, not judged.",
}
