"""C06 - proxies relay only to bridges inside their accepted pattern.

Parts (``--only`` takes a comma-separated subset; default: all that exist):

  matcher  spec/Matcher/Matcher.tla: TLC checks the LAW
           IsSupersetOf(p,q) /\\ IsMember(q,h) => IsMember(p,h) for all rules /
           hostnames of the bound, and emits every (rule, rule) and (rule, host)
           pair with the TLA+ value; harness/cmd/matchdrv compares each with the
           real common/namematcher and evaluates the law on the real code over
           the same domain.
  broker   spec/Matcher/RelayPolicy.tla (PMode = "broker"): the poll-time
           policy; every allowed x presumed x poll-pattern(absent|value) case
           is sent through the real /proxy handler by the in-package test
           harness/inpkg/broker/relaypattern_verif_test.go.
  proxy    RelayPolicy.tla (PMode = "proxy"): relay-URL classes with the
           contract Forbidden / the decision Accepted; bound to the real
           runSession by harness/inpkg/proxy_lib/relayurl_verif_test.go (the
           decision only: does the session go on to answer the offer).
  rig      DESIGN C06 (d): the observation of the actual dial at decoy
           listeners, lib/checks/c06_proxy.py (proxy rig of C16, own table from
           spec/ProxySession); proxy_url_cases() offers the RelayPolicy cases
           to it as well.

Verdict rules: a result whose signature starts with law/, broker/ or proxy/ is
behaviour of the real code that C06 forbids -> violation.  diff/ and diverge/
results say that the model is not the code in a way the property does not
forbid -> no verdict (exit 2) unless a violation was found as well."""
import json
import os
import vlib

LEVEL = "model_checking"
SPECDIR = os.path.join(vlib.SPEC, "Matcher")
BROKER_TEST = os.path.join(vlib.HARNESS, "inpkg", "broker", "relaypattern_verif_test.go")
PROXY_TEST = os.path.join(vlib.HARNESS, "inpkg", "proxy_lib", "relayurl_verif_test.go")
VIOLATION_PREFIXES = ("law/", "broker/", "proxy/")


def _tlc(chk, module, cfg, **kw):
    r = vlib.tlc(SPECDIR, module, cfg, timeout=3000, **kw)
    chk.add_tlc(r)
    return r


def _report(chk, results, driver, max_report=8):
    """Turn driver results into violations / divergences.  Returns (nviol, ndiverge)."""
    nv, nd = 0, []
    seen = set()
    for res in results:
        sig = res.get("sig", "unknown")
        if sig.startswith(VIOLATION_PREFIXES):
            if sig in seen:
                continue
            seen.add(sig)
            if len(seen) <= max_report:
                chk.violation("C06/" + sig, res.get("detail", ""), {"driver": driver, "case": res.get("case"), "idx": res.get("idx")})
            nv += 1
        else:
            nd.append(res)
    return nv, nd


def _diverged(chk, nd, nviol, what):
    if nd and not nviol:
        sigs = sorted({r.get("sig", "?") for r in nd})
        chk.fail("%s: the model differs from the code on %d case(s) without a violation of the property (model must be corrected); "
                 "signatures: %s; first: %s" % (what, len(nd), ", ".join(sigs[:6]), nd[0].get("detail", "")))
    elif nd:
        chk.note("%s: %d model/code differences accompany the violation(s)" % (what, len(nd)))


# --------------------------------------------------------------------------
def part_matcher(chk, replay_case=None):
    q = chk.tier == "quick"
    drv = vlib.go_build("./cmd/matchdrv", "matchdrv", linkflag=False)
    model_law_failed = None
    if replay_case is None:
        # Law_*: hostnames over {a, b, .}; Law_wide_*: hostnames that may also contain the rule characters ^ and $
        # (anything can come out of url.Hostname()), which makes the law's antecedent true far more often
        # Law_case: rules and hostnames with an upper-case letter and a blank - the matcher compares bytes, so the
        # law must (and does) hold there as well; it is what entitles RelayPolicy to judge the RAW pattern string
        for cfg in (["Law_wide_quick.cfg", "Law_case.cfg", "Sem_quick.cfg"] if q else
                    ["Law_quick.cfg", "Law_wide_quick.cfg", "Law_case.cfg", "Sem_quick.cfg", "Law_thorough.cfg", "Law_wide_thorough.cfg", "Sem_thorough.cfg", "Law_big.cfg"]):
            r = _tlc(chk, "Matcher", cfg, keep_prints=False, dump_trace=True)
            chk.note("TLC Matcher %s: %d distinct states, error=%s (%.0fs)" % (cfg, r.distinct, r.error, r.wall))
            if r.error:
                # a counterexample of the model alone is no verdict: the driver below
                # evaluates the law on the real code over the same domain
                model_law_failed = "%s: %s" % (cfg, r.error)
                break
        if not q and not model_law_failed:
            import unbounded    # thorough-tier extra (tlapm proof of the law for all strings); can only add a note
            unbounded.matcher_proof(chk)
        tag = "quick" if q else "thorough"
        rp = _tlc(chk, "Matcher", "Pairs_%s.cfg" % tag, workers=1)
        rm = _tlc(chk, "Matcher", "Members_wide_%s.cfg" % tag, workers=1)   # contains the hostnames over {a, b, .}
        if rp.error or rm.error:
            chk.fail("case emission failed: %s %s" % (rp.error, rm.error))
            return
        rpc = _tlc(chk, "Matcher", "Pairs_case.cfg", workers=1)
        rmc = _tlc(chk, "Matcher", "Members_case.cfg", workers=1)
        if rpc.error or rmc.error:
            chk.fail("case emission failed: %s %s" % (rpc.error, rmc.error))
            return
        pairs, members = rp.prints + rpc.prints, rm.prints + rmc.prints
        chk.note("TLC emitted %d (rule, rule) and %d (rule, hostname) pairs" % (len(pairs), len(members)))
        if len(pairs) < 7000 or len(members) < 3000:
            chk.fail("vacuous: only %d / %d pairs emitted" % (len(pairs), len(members)))
            return
        chk.sample({"matcher_pair": next(p for p in pairs if p["sup"] and len(p["p"]) > 1 and p["p"] != p["q"])})
        chk.sample({"matcher_member": next(m for m in members if m["mem"] and len(m["p"]) > 1)})
    else:
        # replay of a law counterexample: the single triple, with the model's values recomputed by TLC is not
        # needed - the law is evaluated on the real code
        c = replay_case
        pairs = [{"p": list(c["p"]), "q": list(c["q"]), "sup": True}]
        members = [{"p": list(c["q"]), "h": list(c["h"]), "mem": True}, {"p": list(c["p"]), "h": list(c["h"]), "mem": True}]
    d = vlib.scratch("c06")
    fp, fm, fo = (os.path.join(d, n) for n in ("pairs.ndjson", "members.ndjson", "match.out.ndjson"))
    vlib.write_ndjson(fp, pairs)
    vlib.write_ndjson(fm, members)
    r = vlib.run([drv, fp, fm, fo], timeout=1200)
    if r.rc != 0 or r.timed_out or not os.path.exists(fo):
        raise vlib.Inconclusive("matchdrv failed (rc=%s):\n%s" % (r.rc, r.out[-3000:]))
    results = vlib.read_ndjson(fo)
    summary = [x["summary"] for x in results if "summary" in x]
    results = [x for x in results if "summary" not in x]
    if not summary:
        raise vlib.Inconclusive("matchdrv wrote no summary")
    s = summary[0]
    chk.cov["evaluations"] += int(s["cases"])
    chk.cov["distinct_nontrivial"] += int(s["nontrivial"])
    chk.cov.setdefault("parts", {})["matcher"] = s
    chk.note("matchdrv: %d pairs + %d members compared, law evaluated on %d triples of the real code (%d with a true antecedent), %d differences, %d law violations" % (
        s["pairs"], s["members"], s["law_triples"], s["law_antecedent_true"], s["diffs"], s["law_violations"]))
    nv, nd = _report(chk, results, "matchdrv")
    if replay_case is None:
        if model_law_failed and not nv:
            chk.fail("TLC found a counterexample in the model (%s) that the real namematcher does not reproduce: the model is wrong" % model_law_failed)
        if s["law_antecedent_true"] < 300 or s["superset_true"] < 100:
            chk.fail("vacuous: the law's antecedent was true only %d times" % s["law_antecedent_true"])
        _diverged(chk, nd, nv, "matcher")


# --------------------------------------------------------------------------
def _policy_cases(chk, pmode):
    r = _tlc(chk, "RelayPolicy", "PolicyMC_%s.cfg" % pmode, keep_prints=False)
    chk.note("TLC RelayPolicy PolicyMC_%s: %d distinct states, error=%s (%.0fs)" % (pmode, r.distinct, r.error, r.wall))
    if r.error:
        chk.fail("model check PolicyMC_%s failed: %s\n%s" % (pmode, r.error, r.out[-2000:]))
        return None
    g = _tlc(chk, "RelayPolicy", "PolicyGen_%s.cfg" % pmode, workers=1)
    if g.error:
        chk.fail("case emission PolicyGen_%s failed: %s" % (pmode, g.error))
        return None
    return g.prints


def proxy_url_cases(chk):
    """Relay-URL cases for the proxy rig (DESIGN C06 (d)): list of dicts
    {pattern, nontls, url, class, hostname, forbidden, dontcare, accepted, dials}."""
    return _policy_cases(chk, "proxy")


def _run_inpkg(chk, pkg, test_file, test_name, cases, tag, linkflag, timeout):
    d = vlib.scratch("c06")
    fin, fout = os.path.join(d, tag + ".in.ndjson"), os.path.join(d, tag + ".out.ndjson")
    vlib.write_ndjson(fin, cases)
    if os.path.exists(fout):
        os.remove(fout)
    env = {"VERIF_C06_CASES": fin, "VERIF_C06_OUT": fout, "VERIF_SEED": str(chk.seed)}
    r = vlib.go_test_inpkg(pkg, [test_file], "^%s$" % test_name, env=env, linkflag=linkflag, timeout=timeout)
    if r.timed_out or not os.path.exists(fout):
        raise vlib.Inconclusive("%s did not complete (rc=%s timeout=%s):\n%s" % (test_name, r.rc, r.timed_out, r.out[-3000:]))
    results = vlib.read_ndjson(fout)
    summary = [x["summary"] for x in results if "summary" in x]
    if not summary:
        raise vlib.Inconclusive("%s wrote no summary:\n%s" % (test_name, r.out[-2000:]))
    if r.rc != 0:
        raise vlib.Inconclusive("%s failed (rc=%s):\n%s" % (test_name, r.rc, r.out[-3000:]))
    return [x for x in results if "summary" not in x], summary[0], r.wall


def _histories(chk, cases, hist):
    """Arrange the single-poll cases of each configuration into poll sequences for one BrokerContext each
    (forward, reverse and a seeded shuffle, so that every pair of polls is seen in both orders) and append
    TLC's own multi-poll histories.  Only the order is chosen here; polls and verdicts are TLC's."""
    import random
    by_cfg, order = {}, []
    for i, c in enumerate(cases):
        k = (tuple(c["allowed"]), tuple(c["presumed"]))
        if k not in by_cfg:
            by_cfg[k] = []
            order.append(k)
        by_cfg[k].append({"present": c["present"], "value": c["value"], "reject": c["reject"], "idx": i})
    lines = []
    rng = random.Random(chk.seed)
    for k in order:
        polls = by_cfg[k]
        sh = list(polls)
        rng.shuffle(sh)
        for name, seq in (("forward", polls), ("reverse", polls[::-1]), ("shuffle", sh)):
            lines.append({"allowed": list(k[0]), "presumed": list(k[1]), "order": name, "polls": seq})
    n = len(cases)
    for hy in hist:
        polls = []
        for x in hy["polls"]:
            polls.append(dict(x, idx=n))
            n += 1
        lines.append({"allowed": hy["allowed"], "presumed": hy["presumed"], "order": "tlc-history", "polls": polls})
    return lines


def part_broker(chk, replay_case=None):
    if replay_case is None:
        for cfg in (("PolicyMC_history_none.cfg",) if chk.tier == "quick" else ("PolicyMC_history_none.cfg", "PolicyMC_history_effective.cfg")):
            r = _tlc(chk, "RelayPolicy", cfg, keep_prints=False)
            chk.note("TLC RelayPolicy %s: %d distinct states, error=%s (%.0fs)" % (cfg, r.distinct, r.error, r.wall))
            if r.error:
                chk.fail("model check %s failed: %s\n%s" % (cfg, r.error, r.out[-2000:]))
                return
        # guard against a vacuous HistoryIndependent: a verdict memo keyed by the raw pattern string must be refuted
        r = _tlc(chk, "RelayPolicy", "PolicyMC_history_raw.cfg", keep_prints=False)
        if r.error != "invariant:HistoryIndependent":
            chk.fail("self-check: PolicyMC_history_raw.cfg should violate HistoryIndependent, TLC says %s" % r.error)
            return
        # poll patterns range over the rule alphabet plus an upper-case letter, space and tab; thorough also
        # lets the allowed pattern contain upper case and blanks
        cases = _policy_cases(chk, "broker" if chk.tier == "quick" else "broker_wide")
        if cases is None:
            return
        g = _tlc(chk, "RelayPolicy", "PolicyGen_history.cfg", workers=1)
        if g.error:
            chk.fail("case emission PolicyGen_history failed: %s" % g.error)
            return
        hist = g.prints
        nrej = sum(1 for c in cases if c["reject"])
        chk.note("TLC emitted %d broker policy cases (%d must be rejected) and %d two-poll histories" % (len(cases), nrej, len(hist)))
        if len(cases) < 20000 or nrej < 1000 or nrej == len(cases) or len(hist) < 1500 or not any(c["present"] and ("A" in c["value"] or " " in c["value"] or "\t" in c["value"]) for c in cases):
            chk.fail("vacuous broker policy enumeration: %d cases, %d rejects, %d histories" % (len(cases), nrej, len(hist)))
            return
        chk.sample({"broker_poll": next(c for c in cases if c["reject"] and not c["present"] and len(c["allowed"]) > 1)})
        lines = _histories(chk, cases, hist)
    else:
        lines = [replay_case]
    results, s, wall = _run_inpkg(chk, "broker", BROKER_TEST, "TestVerifC06RelayPattern", lines, "broker", False, 600)
    chk.cov["evaluations"] += int(s["cases"])
    chk.cov["distinct_nontrivial"] += int(s["nontrivial"])
    chk.cov.setdefault("parts", {})["broker"] = s
    chk.note("broker: %d polls through the real /proxy handler on %d contexts (each configuration in forward, reverse and shuffled order, plus TLC's histories): "
             "%d rejected explicitly and not registered, %d registered, %d client probes (%.0fs)" % (
                 s["cases"], s["configs"], s["rejected"], s["registered"], s["client_probes"], wall))
    # the replay object of a broker result is the whole history up to and including the offending poll
    byidx = {}
    for ln in lines:
        for pos, pl in enumerate(ln["polls"]):
            byidx[(ln["order"], pl["idx"])] = dict(ln, polls=ln["polls"][:pos + 1])
    for res in results:
        c = res.get("case") or {}
        hy = byidx.get((c.get("order"), res.get("idx")))
        if hy is not None:
            res["case"] = dict(c, history=hy)
    # report the shortest history of each signature
    results.sort(key=lambda r: len(((r.get("case") or {}).get("history") or {}).get("polls") or []) or 1 << 30)
    nv, nd = _report(chk, results, "broker-inpkg")
    if replay_case is None:
        _diverged(chk, nd, nv, "broker")


def part_proxy(chk, replay_case=None):
    if replay_case is None:
        cases = proxy_url_cases(chk)
        if cases is None:
            return
        nf = sum(1 for c in cases if c["forbidden"])
        chk.note("TLC emitted %d relay-URL cases (%d forbidden, %d accepted, %d don't-care)" % (
            len(cases), nf, sum(1 for c in cases if c["accepted"]), sum(1 for c in cases if c["dontcare"])))
        if len(cases) < 2000 or nf < 500 or nf == len(cases):
            chk.fail("vacuous relay-URL enumeration")
            return
        chk.sample({"relay_url": next(c for c in cases if c["forbidden"] and c["class"][3] == "userinfo" and len(c["hostname"]) > 1)})
    else:
        cases = [replay_case]
    if not os.path.exists(PROXY_TEST):
        chk.note("proxy part: no in-package binding present; cases are for the proxy rig only")
        return
    results, s, wall = _run_inpkg(chk, "proxy/lib", PROXY_TEST, "TestVerifC06RelayURL", cases, "proxy", True, 900)
    chk.cov["evaluations"] += int(s["cases"])
    chk.cov["distinct_nontrivial"] += int(s["nontrivial"])
    chk.cov.setdefault("parts", {})["proxy"] = s
    chk.note("proxy: %d relay URLs through the real runSession: %d refused before answering, %d went on to answer (%.0fs)" % (
        s["cases"], s["refused"], s["answered"], wall))
    nv, nd = _report(chk, results, "proxy-inpkg")
    if replay_case is None:
        _diverged(chk, nd, nv, "proxy")


def part_rig(chk, args):
    """DESIGN C06 (d): the real SnowflakeProxy.Start() against a tampering broker with decoy relay listeners
    (built with the proxy rig of C16; lib/checks/c06_proxy.py).  Its expected table comes from spec/ProxySession."""
    try:
        from checks import c06_proxy
    except ImportError as e:
        chk.note("rig part: lib/checks/c06_proxy.py not available (%s); the dial observation is not part of this run" % e)
        chk.cov.setdefault("skipped_clauses", []).append("C06(d) proxy rig not present")
        return
    s = c06_proxy.run_proxy_part(chk, args)
    if s is not None:
        chk.cov.setdefault("parts", {})["rig"] = s


PARTS = [("matcher", lambda chk, args: part_matcher(chk)), ("broker", lambda chk, args: part_broker(chk)),
         ("proxy", lambda chk, args: part_proxy(chk)), ("rig", part_rig)]


def run(chk, args):
    if args.replay:
        with open(args.replay) as fh:
            rp = json.load(fh)["replay"]
        if rp.get("part") == "proxy":
            return part_rig(chk, args)
        part = {"matchdrv": part_matcher, "broker-inpkg": part_broker, "proxy-inpkg": part_proxy}[rp["driver"]]
        c = rp["case"]
        if rp["driver"] == "matchdrv":
            c = {k: list(v) if isinstance(v, str) else v for k, v in c.items()}
        elif rp["driver"] == "broker-inpkg":
            c = c["history"]
        return part(chk, replay_case=c)
    only = set(args.only.split(",")) if args.only else None
    for name, fn in PARTS:
        if only and name not in only:
            continue
        fn(chk, args)
    chk.cov["exhaustive"] = True
    chk.cov["traces_validated_against_impl"] = 0
    chk.cov["rule"] = ("matcher: every (rule, rule, hostname) triple of the bounded domain is evaluated on the real code; a triple is "
                       "non-trivial when the law's antecedent is true (judged superset and member of the smaller pattern). "
                       "broker: every allowed x presumed x poll-pattern case is one real poll; non-trivial = the poll must be "
                       "rejected (and was seen rejected explicitly and unregistered). proxy: every relay-URL case is one real "
                       "runSession; non-trivial = the URL is forbidden for this pattern/flag")
    chk.assumptions += [
        "rules range over the alphabets {^, $, a, .} and {^, $, a, A, blank}, hostnames over {a, b, .}, {a, b, ., ^, $} and {a, A, blank, .}; poll patterns over {^, $, a, ., A, space, tab}; the matcher treats all bytes other than a leading ^ and a trailing $ alike",
        "broker part: polls that need not be rejected are only checked to be registered (they wait 10 s of real time for a client and are abandoned)",
        "proxy part binds the accept/refuse decision of runSession; the TCP-level observation of the dial is the rig part (lib/checks/c06_proxy.py, DESIGN C06 (d))",
    ]


MANIFEST = {
    "technique": "TLA+ specs Matcher + RelayPolicy: TLC proves the superset law on the bounded domain and enumerates every pair / broker-policy case / relay-URL class with the expected value; Go drivers evaluate each against the real namematcher, the real broker /proxy handler and the real proxy runSession",
    "text": "The matcher operators (New, IsMember, IsSupersetOf) are TLA+ definitions over strings-as-sequences; TLC checks the law IsSupersetOf(p,q) /\\ IsMember(q,h) => IsMember(p,h) for all rules over {^,$,a,.} and hostnames over {a,b,.} (and over {a,b,.,^,$}) up to length 3 (quick) / 4-5 (thorough) and that the judged relation is the semantic one; every (rule,rule) and (rule,host) pair is emitted and compared with the real package (differential conformance), and the law is evaluated on the real code over the same domain. RelayPolicy models the broker's poll-time check (RejectedNeverRegistered, ExplicitReject) and the proxy's relay-URL decision (AcceptedNeverForbidden); all 9702 allowed x presumed x poll-pattern cases are sent through the real HTTP handler (rejected ones must answer 'incorrect relay pattern', leave no registration and no client may be matched), and every relay-URL class is returned by a scripted broker to the real runSession.",
    "note": "Bounded string lengths; character classes collapsed to a four/five letter alphabet. The proxy part observes the decision (session refused vs answered); the TCP dial at decoy listeners is observed by the rig part (real SnowflakeProxy.Start() against a tampering broker, lib/checks/c06_proxy.py, table from spec/ProxySession).",
}
