"""BridgeList part (the broker's bridge table: broker/bridge-list.go, common/bridgefingerprint,
BrokerContext.InstallBridgeListProfile / GetBridgeInfo / DefaultBridges, and the use broker/ipc.go makes of it),
called from the C03 check:

    from checks import c03_bridgelist
    c03_bridgelist.run_bridgelist_part(chk, q)     # q: quick tier?  adds to chk, never sets the verdict itself
    c03_bridgelist.replay_part(chk, rp)            # for replay files with rp["kind"] starting with "bridgelist"

spec/BridgeList/BridgeListContract.tla  the documented contract as operators over abstract files (sequences of line
                                        classes + file variants): Effects, Allowed (the SET of permitted outcomes:
                                        don't-cares are sets), Lookup, ExpectOffer.
spec/BridgeList/BridgeList.tla          the loader machine statement by statement + readers under the RW lock; TLC:
                                        MeetsContract, AllOrNothing, LastWins, NoIntermediate, OldOrNew, RaceFree,
                                        MachineIsCode; eight what-if variants must each violate their invariant (two
                                        of them are the code before the repairs 8bae0ec / 5086704); Emit / EmitOffer
                                        print every enumerated file with its allowed outcomes.
spec/BridgeList/BridgeList_Trace.tla    traces of real lookups concurrent with real reloads must be explained.
spec/BridgeList/BridgeProfile.tla       InstallBridgeListProfile's publication order and what one concurrent
                                        poll / offer can observe of it.

Binding: harness/inpkg/broker/bridgelist_verif_test.go (in package main of the broker, injected by overlay): spells
TLC's files (several renderings per class, seed-derived), feeds them to the real LoadBridgeInfo (fresh holder and a
holder with a previous table), compares table + error + every lookup with TLC's allowed outcomes; runs lookups during
reload sequences (private logs, monotonic time; -race with VERIF_RACE=1) for TLC to judge; drives the real IPC pair
ClientOffers / ProxyPolls / ProxyAnswers on the built-in and on installed tables."""
import collections
import json
import os
import re
import subprocess
import time

import extgraph
import vlib

SPECDIR = os.path.join(vlib.SPEC, "BridgeList")
TEST = os.path.join(vlib.HARNESS, "inpkg", "broker", "bridgelist_verif_test.go")
TESTNAME = "TestVerifBridgeList"
MAX_REPORT = 6
KNOWN = []

INVS = "TypeOK MeetsContract AllOrNothing LastWins NoIntermediate OldOrNew MachineIsCode LockOK RaceFree".split()

# what-if variant -> the invariant it must violate (checked alone, with TypeOK)
WHATIF = [
    ("noscanerr", "AllOrNothing"),     # the code before 8bae0ec
    ("notrail", "MeetsContract"),      # the code before 5086704
    ("skipbad", "AllOrNothing"),
    ("firstwins", "LastWins"),
    ("inplace", "NoIntermediate"),
    ("clearfirst", "OldOrNew"),
    ("merge", "AllOrNothing"),
    ("nolock", "RaceFree"),
]

PROFILES = [("Profile_legacy.cfg", None), ("Profile_ext.cfg", None), ("Profile_invalid.cfg", None), ("Profile_atomic.cfg", "invariant:ProfileAtomic")]


def case_configs(q):
    """(cfg, least number of cases)"""
    if q:
        return [("Cases_q2.cfg", 8000), ("Cases_q3a.cfg", 10000), ("Cases_q3b.cfg", 10000)]
    return [("Cases_q2.cfg", 8000), ("Cases_t3.cfg", 130000), ("Cases_t4.cfg", 300000), ("Cases_t5.cfg", 60000)]


# --------------------------------------------------------------------------
# TLC

def emit_cases(cfg, dst, timeout=1500):
    """Run TLC on an emitting configuration with its output streamed to a file (hundreds of thousands of cases:
    nothing is kept in memory); the printed JSON objects are appended to dst, one per line.  Returns (TLCResult, n)."""
    import shutil
    with vlib._seq_lock:
        vlib._tlc_seq[0] += 1
        seq = vlib._tlc_seq[0]
    d = vlib.scratch("tlcbl-%d-%s" % (seq, cfg.replace(".cfg", "")))
    for f in os.listdir(SPECDIR):
        if f.endswith((".tla", ".cfg")):
            shutil.copy(os.path.join(SPECDIR, f), d)
    cmd = ["tlc", "-metadir", os.path.join(d, "meta"), "-workers", "1", "-config", cfg, "BridgeList.tla"]
    env = dict(os.environ)
    env["JAVA_TOOL_OPTIONS"] = (env.get("JAVA_TOOL_OPTIONS", "") + " -Xss64m").strip()
    raw = os.path.join(d, "stdout.txt")
    t0 = time.time()
    with open(raw, "wb") as fh:
        p = subprocess.Popen(cmd, cwd=d, env=env, stdin=subprocess.DEVNULL, stdout=fh, stderr=subprocess.STDOUT, start_new_session=True)
        try:
            p.wait(timeout=timeout)
        except subprocess.TimeoutExpired:
            import signal
            try:
                os.killpg(p.pid, signal.SIGKILL)
            except ProcessLookupError:
                pass
            p.wait()
            raise vlib.Inconclusive("TLC timeout after %ss: BridgeList %s" % (timeout, cfg))
    res = vlib.TLCResult()
    res.wall, res.cmd, res.dir = time.time() - t0, "tlc -workers 1 -config %s BridgeList.tla" % cfg, d
    n, other = 0, []
    with open(raw, encoding="utf-8", errors="replace") as fh, open(dst, "w") as out:
        for line in fh:
            if line.startswith('"{'):
                try:
                    out.write(json.loads(line))
                    out.write("\n")
                    n += 1
                    continue
                except ValueError:
                    pass
            if len(other) < 400:
                other.append(line)
    os.remove(raw)
    res.out = "".join(other)
    m = re.search(r"(\d+) states generated, (\d+) distinct states found", res.out)
    if m:
        res.generated, res.distinct = int(m.group(1)), int(m.group(2))
    v = extgraph.tlc_verdict(res.out)
    if p.returncode != 0 and v is None:
        v = "other"
    if v == "other":
        raise vlib.Inconclusive("TLC failed: %s\n%s" % (res.cmd, res.out[-2500:]))
    res.error = v
    return res, n


def whatif_cfg(mut, inv):
    consts = extgraph.with_constants(extgraph.read_cfg_constants(os.path.join(SPECDIR, "MC_conc_q.cfg")), Mut='"%s"' % mut)
    return extgraph.cfg_text(consts, "Spec", invariants=["TypeOK", inv])


def model_check(chk, q):
    """the machine against the contract (sequential on every file of the small domain, concurrent with readers),
    the what-if variants, the profile order.  Returns the Bg jobs; collect() reads them."""
    jobs = {"seq": extgraph.Bg(vlib.tlc, SPECDIR, "BridgeList", "MC_seq.cfg", workers=2, timeout=900, keep_prints=False, coverage=True),
            "conc": extgraph.Bg(vlib.tlc, SPECDIR, "BridgeList", "MC_conc_q.cfg" if q else "MC_conc.cfg", workers=2 if q else 6, timeout=1500,
                                keep_prints=False, coverage=True, heap=None if q else "6g")}
    for mut, inv in WHATIF:
        jobs["wi:" + mut] = extgraph.Bg(extgraph.tlc_raw, None, SPECDIR, "BridgeList", "WI_%s.cfg" % mut, whatif_cfg(mut, inv), workers=1, timeout=600)
    for cfg, _ in PROFILES:
        jobs["pf:" + cfg] = extgraph.Bg(profile_run, cfg)
    return jobs


def profile_run(cfg):
    """BridgeProfile: verdict, TLCResult, printed observation"""
    with vlib._seq_lock:
        vlib._tlc_seq[0] += 1
        seq = vlib._tlc_seq[0]
    import shutil
    d = vlib.scratch("tlcblp-%d" % seq)
    for f in os.listdir(SPECDIR):
        if f.endswith((".tla", ".cfg")):
            shutil.copy(os.path.join(SPECDIR, f), d)
    r = vlib.run(["tlc", "-metadir", os.path.join(d, "meta"), "-workers", "1", "-config", cfg, "BridgeProfile.tla"], cwd=d, timeout=300)
    if r.timed_out:
        raise vlib.Inconclusive("TLC timeout: BridgeProfile %s" % cfg)
    res = vlib.TLCResult()
    res.out, res.wall, res.cmd = r.out, r.wall, "tlc -workers 1 -config %s BridgeProfile.tla" % cfg
    m = re.search(r"(\d+) states generated, (\d+) distinct states found", r.out)
    if m:
        res.generated, res.distinct = int(m.group(1)), int(m.group(2))
    v = extgraph.tlc_verdict(r.out)
    if v is None and re.search(r"Postcondition \S+ .*is (false|violated)", r.out):
        v = "postcondition"
    if v == "other" and "ostcondition" in r.out:
        v = "postcondition"
    printed = None
    for line in r.out.splitlines():
        if line.startswith('"{'):
            try:
                printed = json.loads(json.loads(line))
            except ValueError:
                pass
    return v, res, printed


def collect(chk, jobs, q):
    ok = True
    finals = {}
    for name in ("seq", "conc"):
        r = jobs[name].get()
        chk.add_tlc(r)
        chk.note("TLC BridgeList %s: %d distinct states, error=%s (%.0fs)" % (name, r.distinct, r.error, r.wall))
        if r.error:
            chk.fail("BridgeList model check (%s) failed in the model alone (no verdict): %s\n%s" % (name, r.error, r.out[-2500:]))
            ok = False
        if r.coverage:
            # must-cover: every statement of the loader is taken; the readers' in the concurrent configuration
            need = ["Scan", "DecodeLine", "Trailing", "Fingerprint", "PutRec", "AfterLoop", "Lock", "Swap", "Unlock"]
            if name == "conc":
                need += ["StartLoad", "Call", "RLock", "ReadRet"]
            zero = sorted(a for a in need if r.coverage.get(a, (0, 0))[1] == 0)
            if zero:
                chk.fail("vacuity: BridgeList actions never taken in %s: %s" % (name, zero))
                ok = False
    for mut, inv in WHATIF:
        v, r = jobs["wi:" + mut].get()
        chk.add_tlc(r)
        if v != "invariant:" + inv:
            chk.fail("vacuity: BridgeList what-if %s gives %s, expected the violation of %s" % (mut, v, inv))
            ok = False
    for cfg, want in PROFILES:
        v, r, printed = jobs["pf:" + cfg].get()
        chk.add_tlc(r)
        if v != want:
            chk.fail("BridgeProfile %s gives %s, expected %s\n%s" % (cfg, v, want, r.out[-1500:]))
            ok = False
        if printed and want is None:
            finals[bool(printed["valid"])] = printed["final"]
            chk.cov.setdefault("bridgelist_profile_observations", {})[cfg] = ["/".join("%s=%s" % (k, o[k]) for k in ("p", "a", "c", "t")) for o in printed["seen"]]
    chk.cov["bridgelist_whatif"] = [m for m, _ in WHATIF]
    return ok, finals


# --------------------------------------------------------------------------
# the harness

def test_binary():
    return vlib.go_test_compile_inpkg("broker", [TEST], "bridgelist.test")


def run_harness(binary, cases, tag, seed, scenarios, reloads, limit, timeout=1500):
    d = vlib.scratch("bl-run")
    outp, traces = os.path.join(d, tag + ".out.ndjson"), os.path.join(d, tag + ".traces.ndjson")
    for f in (outp, traces):
        if os.path.exists(f):
            os.remove(f)
    env = vlib.goenv({"VERIF_BL_CASES": cases, "VERIF_BL_OUT": outp, "VERIF_BL_TRACES": traces, "VERIF_SEED": str(seed),
                      "VERIF_BL_SCENARIOS": str(scenarios), "VERIF_BL_RELOADS": str(reloads), "VERIF_BL_LIMIT": str(limit),
                      # a -race build spends milliseconds on every 64 KiB line: it runs one big rendering in 12 (the plain build runs all)
                      "VERIF_BL_BIGSKIP": "12" if vlib.want_race(False) else "1"})
    r = vlib.run([binary, "-test.run=^%s$" % TESTNAME, "-test.timeout=%ds" % max(60, timeout - 20), "-test.count=1"],
                 cwd=os.path.join(vlib.REPO, "broker"), env=env, timeout=timeout)
    race = "WARNING: DATA RACE" in r.out
    if r.timed_out or not os.path.exists(outp):
        raise vlib.Inconclusive("%s did not complete (rc=%s timeout=%s):\n%s" % (TESTNAME, r.rc, r.timed_out, r.out[-3000:]))
    results = vlib.read_ndjson(outp)
    summary = [x["summary"] for x in results if "summary" in x]
    if not summary:
        raise vlib.Inconclusive("%s wrote no summary:\n%s" % (TESTNAME, r.out[-2000:]))
    if r.rc != 0 and not race:
        raise vlib.Inconclusive("%s failed (rc=%s):\n%s" % (TESTNAME, r.rc, r.out[-3000:]))
    return results, summary[0], traces, (r.out if race else None), r.wall


def items_of(sig):
    """the culprit set of a load signature: its non-ok classes and its variant"""
    tail = sig.split("/")[-1]
    var, _, classes = tail.rpartition(":")
    s = set(c for c in classes.split("+") if c != "ok")
    if var:
        s.add("variant=" + var.replace("bomnofinal", "bom"))
    return frozenset(s)


def report_loads(chk, results):
    """one report per minimal culprit set (a file with a long line AND a blank one fails for the reason the file
    with the long line alone fails); the kind of failure is that of the smallest file"""
    xs = [x for x in results if x.get("part") == "load" and x["sig"].startswith("BridgeList/load/")]
    done, n = [], 0
    for x in sorted(xs, key=lambda x: (len(items_of(x["sig"])), x["size"], x["sig"])):
        it = items_of(x["sig"])
        if any(d <= it for d in done):
            continue
        done.append(it)
        what = "/".join(x["sig"].split("/")[2:-1])
        sig = "BridgeList/load/%s/%s" % (what, "+".join(sorted(it)) or "ok")
        if n < MAX_REPORT or any(k.get("key") == sig for k in chk.known):
            if chk.violation(sig, x["detail"], {"kind": "bridgelist-load", "seed": chk.seed, "case": x.get("case")}):
                n += 1
    return n


def report_other(chk, results):
    n = 0
    for x in sorted((x for x in results if "sig" in x), key=lambda x: (x.get("size", 0), x["sig"])):
        if x.get("part") == "load" and x["sig"].startswith("BridgeList/load/"):
            continue
        if x["sig"].startswith("harness/"):
            chk.fail("BridgeList harness: %s: %s" % (x["sig"], x.get("detail", "")[:600]))
        elif x["sig"].startswith("BridgeList/fingerprint/"):
            chk.violation(x["sig"], x["detail"], {"kind": "bridgelist-fingerprint"})
        else:
            sig = x["sig"]
            if sig.startswith("BridgeList/offer/install/"):
                sig = "BridgeList/offer/install-result-not-allowed"      # a consequence of a load result reported above
            if n < 4 or any(k.get("key") == sig for k in chk.known):
                if chk.violation(sig, x["detail"], {"kind": "bridgelist-offer", "seed": chk.seed, "case": x.get("case")}):
                    n += 1


def report_profiles(chk, results, finals):
    n = 0
    for x in results:
        p = x.get("profile")
        if not p:
            continue
        n += 1
        want = finals.get(not p["err"])
        if not want or len(want) != 1:
            chk.fail("BridgeProfile printed no final state for valid=%s" % (not p["err"]))
            continue
        want = want[0]
        got = {k: p[k] for k in ("table", "allowed", "presumed")}
        if got == want and (p["err"] or p["polls_judged_by_new_pattern"]):
            continue
        if not p["err"]:
            chk.violation("BridgeList/profile/installed-profile-not-in-force/%s" % "+".join(k for k in ("table", "allowed", "presumed") if got[k] != want[k]),
                          "InstallBridgeListProfile returned nil on the file %s but left table=%s allowed=%s presumed=%s (polls judged by the new pattern: %s); "
                          "spec/BridgeList/BridgeProfile: after a nil return all three are the new ones" % (
                              p["file"], got["table"], got["allowed"], got["presumed"], p["polls_judged_by_new_pattern"]),
                          {"kind": "bridgelist-offer", "seed": chk.seed, "case": p})
        elif got["table"] != "old":
            chk.violation("BridgeList/profile/error-returned-but-table-changed",
                          "InstallBridgeListProfile returned an error on the file %s but the table is now %s" % (p["file"], p["table_rows"]),
                          {"kind": "bridgelist-offer", "seed": chk.seed, "case": p})
        else:
            # the patterns after a FAILED install: the model says untouched, nothing documented demands it
            chk.note("BridgeList: after a failed InstallBridgeListProfile the patterns are allowed=%s presumed=%s (the model of the code says old/old; "
                     "not demanded: main() exits on that error)" % (got["allowed"], got["presumed"]))
            chk.cov["bridgelist_profile_diverge"] = chk.cov.get("bridgelist_profile_diverge", 0) + 1
    return n


def brief(e):
    return json.dumps(e, sort_keys=True)[:300]


def validate_traces(chk, traces_path, tag):
    traces = vlib.read_ndjson(traces_path) if os.path.exists(traces_path) else []
    if not traces:
        return 0, 0, []
    nshard = max(1, min(6, len(traces) // 8))
    jobs = []
    for i in range(nshard):
        ts = traces[i::nshard]
        f = os.path.join(vlib.scratch("bl-tv"), "%s-%d.ndjson" % (tag, i))
        vlib.write_ndjson(f, ts)
        jobs.append((ts, extgraph.Bg(vlib.tlc, SPECDIR, "BridgeList_Trace", "Trace.cfg", workers=1, timeout=1200, files={"traces.ndjson": f}, heap="3g")))
    accepted, rejected, events = 0, [], 0
    for ts, bg in jobs:
        r = bg.get()
        chk.add_tlc(r)
        if r.error:
            raise vlib.Inconclusive("BridgeList trace validation (model only): %s\n%s" % (r.error, r.out[-2500:]))
        rej = extgraph.trace_verdict(r, len(ts), "BridgeList")
        accepted += len(ts) - len(rej)
        events += sum(len(t["events"]) for t in ts)
        byid = {t["id"]: t for t in ts}
        rejected += [(byid[tid], hw) for tid, hw in sorted(rej.items())]
    return accepted, events, rejected


def trace_signature(t, hw):
    evs = t["events"]
    e = evs[hw - 1] if 0 < hw <= len(evs) else {}
    ev = e.get("ev", "?")
    if ev == "got":
        pending = None
        for x in evs[:hw - 1]:
            if x["ev"] == "load":
                pending = x
            elif x["ev"] == "loaded":
                pending = None
        return "BridgeList/conc/lookup-answer-of-no-table/%s/%s" % ("found" if e.get("found") else "not-found", "during-a-reload" if pending else "between-reloads")
    if ev == "loaded":
        return "BridgeList/conc/reload-result-not-allowed/%s" % ("error" if e.get("err") else "nil")
    return "BridgeList/conc/unexplained-%s" % ev


def report_traces(chk, rejected):
    seen = collections.Counter()
    for t, hw in rejected:
        sig = trace_signature(t, hw)
        seen[sig] += 1
        if seen[sig] > 1:
            continue
        e = t["events"][hw - 1] if hw <= len(t["events"]) else {}
        ctx = [brief(x) for x in t["events"][max(0, hw - 1 - 400):hw - 1] if x["ev"] in ("load", "loaded")][-3:]
        what = ("lookups concurrent with reloads of the real bridgeListHolder: the first event spec/BridgeList/BridgeList_Trace cannot explain is #%d %s "
                "(an answer must be the answer of a table that was current between the call and the return; a load that fails leaves the table alone); "
                "starting table %s, the loader's records before it: %s" % (hw, brief(e), t["prev"], " ".join(ctx)))
        small = dict(t, events=t["events"][max(0, hw - 60):hw])
        chk.violation(sig, what, {"kind": "bridgelist-conc", "seed": chk.seed, "first_unexplained": hw, "trace_tail": small})


def race_signature(text):
    """the functions of the first DATA RACE report that belong to the broker"""
    m = re.search(r"WARNING: DATA RACE\n(.*?)\n==================", text, re.S)
    body = m.group(1) if m else text
    fns = []
    for f in re.findall(r"^\s+[\w./-]*broker\.((?:\(\*?\w+\)\.)?\w+)", body, re.M):
        f = f.replace("(*", "").replace(")", "")
        if not f.startswith(("vbl", "TestVerif")) and f not in fns:
            fns.append(f)
    return "BridgeList/race/" + "+".join(fns[:2] or ["unknown"])


# --------------------------------------------------------------------------

def run_bridgelist_part(chk, q):
    chk.known.extend(k for k in KNOWN if k not in chk.known)
    t_start = time.time()
    try:
        build = extgraph.Bg(test_binary)
        d = vlib.scratch("bl-cases")
        cfgs = case_configs(q)
        emit = [(cfg, least, os.path.join(d, cfg + ".ndjson")) for cfg, least in cfgs]
        ejobs = [(cfg, least, dst, extgraph.Bg(emit_cases, cfg, dst)) for cfg, least, dst in emit]
        offer_dst = os.path.join(d, "offer.ndjson")
        ojob = extgraph.Bg(emit_cases, "Offer.cfg", offer_dst)
        mjobs = model_check(chk, q)

        r, noffer = ojob.get()
        chk.add_tlc(r)
        if r.error or noffer < 6:
            raise vlib.Inconclusive("spec/BridgeList Offer.cfg: error=%s, %d cases\n%s" % (r.error, noffer, r.out[-1500:]))
        # the scanner limit the renderings of long / longbad must exceed comes from the specification
        with open(os.path.join(SPECDIR, "BridgeListContract.tla")) as fh:
            m = re.search(r"^ScannerLimit == (\d+)", fh.read(), re.M)
        limit = int(m.group(1)) if m else 65536
        cases = os.path.join(d, "all.ndjson")
        ncases, rid = 0, 0
        with open(cases, "w") as out:
            for src in [offer_dst]:
                with open(src) as fh:
                    for line in fh:
                        out.write(line.rstrip("\n")[:-1] + ',"rid":%d}\n' % rid)
                        rid += 1
            for cfg, least, dst, bg in ejobs:
                r, n = bg.get()
                chk.add_tlc(r)
                chk.note("TLC BridgeList %s: %d files with their allowed outcomes (%.0fs)" % (cfg, n, r.wall))
                if r.error:
                    chk.fail("spec/BridgeList %s: %s - the contract's own laws (ContractLaws, the code's choice is allowed) must hold\n%s" % (cfg, r.error, r.out[-1500:]))
                    return
                if n < least:
                    chk.fail("vacuous: %s produced only %d cases" % (cfg, n))
                    return
                with open(dst) as fh:
                    for line in fh:
                        out.write(line.rstrip("\n")[:-1] + ',"rid":%d}\n' % rid)
                        rid += 1
                        ncases += 1
                os.remove(dst)
        with open(cases) as fh:
            for k, line in enumerate(fh):
                if k in (noffer + 40, noffer + ncases // 2):
                    c = json.loads(line)
                    chk.sample({"bridgelist_file": c["lines"], "variant": c["v"], "cut": c["cut"], "allowed_on_reload": [{"error": o["e"], "table": o["t"]} for o in c["reload"]]}, limit=6)
        binary = build.get()
        scen, reloads = (16, 12) if q else (60, 30)
        results, s, traces_path, race, wall = run_harness(binary, cases, "main", chk.seed, scen, reloads, limit)
        chk.note("BridgeList: %d files x (fresh, reload) through the real LoadBridgeInfo: %d refused, %d loaded, %d renderings larger than the scanner limit; "
                 "%d offers through the real IPC on %d tables (%d matched); %d reload scenarios with %d concurrent lookups (%.0fs)" % (
                     s["load_cases"], s["load_errors"], s["load_ok"], s["files_over_limit"], s["offers"], 2 * s["offer_cases"], s["offers_matched"],
                     s["traces"], s["lookups"], wall))
        if s["load_cases"] != ncases or s["offer_cases"] != noffer:
            raise vlib.Inconclusive("the harness ran %d+%d cases of %d+%d" % (s["load_cases"], s["offer_cases"], ncases, noffer))
        # must-cover on the real side: both verdicts, long files, matches and refusals, lookups
        if min(s["load_errors"], s["load_ok"], s["files_over_limit"], s["offers_matched"], s["lookups"]) == 0 or s["offers_matched"] == s["offers"]:
            chk.fail("vacuity: the BridgeList harness did not see both verdicts / long files / matches and refusals: %s" % json.dumps(s))
        if race:
            chk.violation(race_signature(race), "the race detector reports a data race while lookups run concurrently with reloads of the bridge list:\n" + race[:3000],
                          {"kind": "bridgelist-conc", "race_report": race[:6000]})
        report_loads(chk, results)
        report_other(chk, results)
        ok, finals = collect(chk, mjobs, q)
        nprof = report_profiles(chk, results, finals) if finals else 0
        accepted, events, rejected = validate_traces(chk, traces_path, "main")
        report_traces(chk, rejected)
        chk.note("TLC BridgeList_Trace: %d traces (%d events) accepted, %d rejected" % (accepted, events, len(rejected)))
        if s["traces"] and accepted + len(rejected) != s["traces"]:
            chk.fail("BridgeList: %d traces written, %d judged" % (s["traces"], accepted + len(rejected)))
        if s["diverge_from_code_model"]:
            chk.note("BridgeList: %d results are allowed by the contract but differ from the model of the code's own choices (classes %s): information only" % (
                s["diverge_from_code_model"], s["diverge_classes"]))
        chk.cov["evaluations"] += s["loads"] + s["offers"] + s["traces"] + nprof + s["fingerprint_evals"]
        chk.cov["distinct_nontrivial"] += s["nontrivial"] + s["offers"] + s["traces"]
        chk.cov["traces_validated_against_impl"] += accepted
        chk.cov["bridgelist"] = dict(s, trace_events=events, traces_accepted=accepted, traces_rejected=len(rejected), wall_s=round(time.time() - t_start, 1))
    except vlib.Inconclusive as e:
        chk.fail(str(e))
    chk.assumptions += [
        "BridgeList: a line class stands for the renderings the driver knows (5-15 per class, chosen from the seed); files of up to 3 lines over all "
        "17 classes, up to 5 lines over reduced class sets (thorough); records use three fingerprints (the documented default, one of 20 and one of 32 bytes)",
        "BridgeList: don't-cares (long well-formed line, blank line, lower-case hex, member names differing in case, absent displayName / "
        "webSocketAddress, a member twice, byte order mark) accept refusal of the file as well as the documented effect, chosen per line",
        "BridgeList: lookups concurrent with reloads are ordered by the monotonic clock read before each call and after each return "
        "(windows only widen); runs of identical answers inside one segment of the loader's time line are represented by their first and last element",
        "BridgeList: the mixture a poll can observe while InstallBridgeListProfile assigns its two pattern strings is stated by spec/BridgeList/BridgeProfile "
        "and not exercised on the real code (the only caller is main(), before the listeners start; the stores are unsynchronised by design of that call order)",
    ]


def replay_part(chk, rp):
    """re-executes a replay object written by this part"""
    kind = rp.get("kind", "")
    case = rp.get("case") or {}
    seed = int(rp.get("seed", chk.seed))
    binary = test_binary()
    d = vlib.scratch("bl-replay")
    offer_dst, dst = os.path.join(d, "offer.ndjson"), os.path.join(d, "one.ndjson")
    r, noffer = emit_cases("Offer.cfg", offer_dst)
    chk.add_tlc(r)
    lines = []
    with open(offer_dst) as fh:
        offers = [json.loads(l) for l in fh]
    same = lambda c: c["lines"] == case.get("lines") and c["v"] == case.get("v") and c["cut"] == case.get("cut")   # noqa: E731
    if kind == "bridgelist-load":
        # TLC prints the allowed outcomes of exactly this file again
        n = max(1, len(case.get("lines", [])))
        found = None
        for cfg, _ in case_configs(False):
            cd = os.path.join(d, cfg + ".ndjson")
            r, _ = emit_cases(cfg, cd)
            chk.add_tlc(r)
            with open(cd) as fh:
                for line in fh:
                    c = json.loads(line)
                    if same(c):
                        found = c
                        break
            os.remove(cd)
            if found:
                break
        if not found:
            raise vlib.Inconclusive("replay: no configuration of spec/BridgeList emits the file %s" % json.dumps(case.get("lines")))
        found["rid"] = case.get("rid", 0)
        lines = [dict(offers[0], rid=10 ** 6)] + [found]
        scen = 0
    elif kind == "bridgelist-offer":
        lines = [dict(c, rid=case.get("rid", i)) for i, c in enumerate(offers) if same(c) or not case]
        scen = 0
    else:
        # concurrent part: run the scenarios of the tier again
        q = chk.tier == "quick"
        lines = [dict(c, rid=i) for i, c in enumerate(offers)]
        cd = os.path.join(d, "q2.ndjson")
        r, _ = emit_cases("Cases_q2.cfg", cd)
        chk.add_tlc(r)
        with open(cd) as fh:
            lines += [dict(json.loads(l), rid=len(offers) + i) for i, l in enumerate(fh)]
        scen = 16 if q else 60
    vlib.write_ndjson(dst, lines)
    results, s, traces_path, race, wall = run_harness(binary, dst, "replay", seed, scen, 12, 65536)
    if kind == "bridgelist-load":
        results = [x for x in results if x.get("part") == "load"]
    if race:
        chk.violation(race_signature(race), "data race (replay):\n" + race[:3000], {"kind": "bridgelist-conc", "race_report": race[:6000]})
    report_loads(chk, results)
    report_other(chk, [x for x in results if x.get("part") != "load" or kind != "bridgelist-load"])
    accepted, events, rejected = validate_traces(chk, traces_path, "replay")
    report_traces(chk, rejected)
    chk.cov["evaluations"] += s["loads"] + s["offers"] + s["traces"]
    chk.cov["traces_validated_against_impl"] += accepted
    return True


# standalone use (debugging): bin/check C03_BRIDGELIST
LEVEL = "model_checking"


def run(chk, args):
    if args.replay:
        with open(args.replay) as fh:
            return replay_part(chk, json.load(fh)["replay"])
    run_bridgelist_part(chk, chk.tier == "quick")
    chk.cov["rule"] = ("one evaluation = one LoadBridgeInfo call on a rendering of a TLC-enumerated file judged against TLC's set of allowed outcomes "
                       "(table, error, every lookup), one offer through the real IPC pair, or one reload scenario with concurrent lookups judged by TLC; "
                       "non-trivial = the file has a line that is not a plain well-formed record or is not the plain variant; offers and scenarios all count")
