"""C13 - untrusted session descriptions cannot crash client or proxy.
spec/SdpJson: the contract of (De)SerializeSessionDescription and of its
callers over abstract JSON documents and SDP text classes; TLC checks the
round trip and totality on the documented functions and prints every case with
the outcomes the contract allows.  harness/cmd/sdpjsondrv concretises the cases and
runs the real util functions; in-package drivers (go test -overlay) feed the
same strings through the real proxy pollOffer (scripted httptest broker),
remoteIPFromSDP, and the real client BrokerChannel.Negotiate (scripted
rendezvous).  A panic, or a result that is neither value nor error, is a
violation."""
import collections
import json
import os
import threading
import vlib

LEVEL = "model_checking"
SPECDIR = os.path.join(vlib.SPEC, "SdpJson")
INPKG = os.path.join(vlib.HARNESS, "inpkg")
MIN_CASES = {"quick": 8000, "thorough": 80000}
SITES = [("proxy", "proxy/lib", os.path.join(INPKG, "proxy_lib", "c13_verif_test.go"), "TestVerifC13Proxy"),
         ("client", "client/lib", os.path.join(INPKG, "client_lib", "c13_verif_test.go"), "TestVerifC13Client")]


def run(chk, args):
    drv = vlib.go_build("./cmd/sdpjsondrv", "sdpjsondrv")
    if args.replay:
        return replay(chk, drv, args.replay)
    t = chk.tier
    # 1. design level: round trip and totality of the documented functions
    r = vlib.tlc(SPECDIR, "SdpJson", "MC_%s.cfg" % t, workers=1, timeout=900, keep_prints=False)
    chk.add_tlc(r)
    chk.note("TLC MC_%s: %d distinct states, error=%s (%.0fs)" % (t, r.distinct, r.error, r.wall))
    if r.error:
        # a violation in the model alone is a defect of the specification, not a verdict
        chk.fail("model check MC_%s failed: %s\n%s" % (t, r.error, r.out[-3000:]))
        return
    # 2. cases enumerated by TLC
    g = vlib.tlc(SPECDIR, "SdpJson", "Gen_%s.cfg" % t, workers=1, timeout=900)
    chk.add_tlc(g)
    if g.error:
        chk.fail("case generation Gen_%s failed: %s" % (t, g.error))
        return
    cases = g.prints
    modes = collections.Counter(c["mode"] for c in cases)
    hostile = sum(1 for c in cases if c["mode"] == "doc" and not c["wf"])
    wellformed = modes["doc"] - hostile
    notstring = sum(1 for c in cases if c["mode"] == "doc" and c["doc"]["top"].startswith("object")
                    and any(m["n"] in ("type", "sdp") and m["k"] != "str" for m in c["doc"]["mem"]))
    chk.note("TLC Gen_%s: %d cases %s; documents: %d well-formed, %d hostile (%d with a non-string member) (%.0fs)" % (
        t, len(cases), dict(modes), wellformed, hostile, notstring, g.wall))
    if len(cases) != r.distinct or len(cases) < MIN_CASES[t] or min(modes[m] for m in ("doc", "rt", "text")) == 0 \
            or wellformed == 0 or hostile < 1000 or notstring == 0:
        chk.fail("vacuous or inconsistent case set: %d cases (model check saw %d), %s, well-formed %d, hostile %d" % (
            len(cases), r.distinct, dict(modes), wellformed, hostile))
        return
    for c in (cases[0], next(c for c in cases if c["mode"] == "rt"), cases[-1]):
        chk.sample(c)
    execute(chk, drv, cases, chk.seed)
    if t == "thorough":
        # the documents again with two more concretisations: escaping style, member values and damage positions are a
        # function of (seed, case index), so the index is shifted (the shifted index is what a replay file records)
        docs = [(i, c) for i, c in enumerate(cases) if c["mode"] == "doc"]
        for k in (1, 2):
            execute(chk, drv, [dict(c, _idx=i + 1000000 * k) for i, c in docs], chk.seed)
    chk.cov["distinct_nontrivial"] = sum(1 for c in cases if c["nt"])
    chk.cov["exhaustive"] = True
    chk.cov["traces_validated_against_impl"] = 0
    chk.cov["cases_per_mode"] = dict(modes)
    chk.cov["rule"] = ("cases are TLC initial states of spec/SdpJson: documents = top-level JSON kind x kind of the 'type' member x kind of the "
                       "'sdp' member x shape (canonical, reordered, white space, extra members, decoy duplicates, upper-case names) over ten "
                       "text classes; round trips = 4 SDP types x the SDP text grammar (header x media x connection line x candidate x line "
                       "ending x damage, plus whole-text classes); the same texts for remoteIPFromSDP. Every document is executed at three "
                       "sites (util, proxy pollOffer, client Negotiate). A case is non-trivial when the document is not what a well-behaved "
                       "peer sends (not WellFormed) or the text is not a plain valid SDP; distinct_nontrivial counts abstract cases, "
                       "evaluations counts executions on the real code")
    chk.assumptions += ["SDP text and JSON documents are seeded representatives of the abstract classes (addresses, ports, damage "
                        "positions, escaping style are seeded, not enumerated)",
                        "the scripted broker / rendezvous wrap the hostile string with the real messages encoders, as the real broker does; "
                        "bytes that are not UTF-8 therefore reach the proxy/client as U+FFFD (they reach util.Deserialize raw in sdpdrv)",
                        "a panic in a goroutine other than the caller's cannot be recovered by the in-package drivers; it would end the "
                        "test binary and is reported as 'no verdict' with the panic text"]


_round = [0]


def execute(chk, drv, cases, seed):
    """Run the cases at all sites.  Returns nothing; violations go to chk."""
    _round[0] += 1
    conc = os.path.join(vlib.scratch("c13"), "conc-%d.ndjson" % _round[0])
    s = vlib.drive_cases(chk, drv, ["run"], cases, [seed, conc], tag="sdp")
    nexec = sum(1 for c in cases if c["mode"] in ("doc", "rt"))
    if int(s.get("cases", -1)) != nexec:
        raise vlib.Inconclusive("sdpjsondrv executed %s cases, expected %d" % (s.get("cases"), nexec))
    chk.note("sdpjsondrv (seed %d): %d doc+rt cases through util.(De)SerializeSessionDescription" % (seed, nexec))
    vlib.repo_modfile()
    results = {}

    def one(site, pkg, f, test):
        outp = os.path.join(vlib.scratch("c13"), "%s-out-%d.ndjson" % (site, _round[0]))
        if os.path.exists(outp):
            os.remove(outp)
        try:
            r = vlib.go_test_inpkg(pkg, [f], "^%s$" % test, env={"VERIF_C13_CASES": conc, "VERIF_C13_OUT": outp},
                                   linkflag=True, timeout=900)
            results[site] = (r, outp)
        except Exception as e:   # noqa
            results[site] = (e, outp)

    ths = [threading.Thread(target=one, args=s) for s in SITES]
    for th in ths:
        th.start()
    for th in ths:
        th.join()
    ndoc = sum(1 for c in cases if c["mode"] == "doc")
    ntext = sum(1 for c in cases if c["mode"] == "text")
    for site, pkg, f, test in SITES:
        r, outp = results[site]
        if isinstance(r, Exception):
            raise vlib.Inconclusive("in-package driver %s failed: %s" % (site, r))
        if r.timed_out or r.rc != 0 or not os.path.exists(outp):
            raise vlib.Inconclusive("in-package driver %s (%s) failed (rc=%s timeout=%s); a panic outside the calling goroutine "
                                    "would show here:\n%s" % (site, pkg, r.rc, r.timed_out, r.out[-3000:]))
        summary = None
        reported = 0
        for res in vlib.read_ndjson(outp):
            if "summary" in res:
                summary = res["summary"]
                continue
            if res.get("sig", "").startswith("harness:"):
                raise vlib.Inconclusive("in-package driver %s: %s" % (site, res.get("detail")))
            if reported < 8 or any(k.get("key") == res.get("sig") for k in chk.known):
                if chk.violation(res.get("sig", "unknown"), res.get("detail", ""),
                                 {"site": res.get("site", site), "case": res.get("case"), "idx": res.get("idx")}):
                    reported += 1
        want = ndoc + ntext if site == "proxy" else ndoc
        if summary is None or int(summary.get("cases", -1)) != want:
            raise vlib.Inconclusive("in-package driver %s executed %s cases, expected %d" % (site, summary, want))
        chk.cov["evaluations"] += want
        chk.note("%s: %d cases through the real %s (%.1fs)" % (
            site, want, "pollOffer / remoteIPFromSDP" if site == "proxy" else "BrokerChannel.Negotiate", r.wall))


def replay(chk, drv, path):
    with open(path) as fh:
        f = json.load(fh)
    rp = f["replay"]
    case = rp["case"]
    if isinstance(case, str):
        case = json.loads(case)
    case = dict(case)
    case["_idx"] = rp.get("idx", 0)
    execute(chk, drv, [case], f.get("seed", chk.seed))


MANIFEST = {
    "technique": "TLA+ spec SdpJson: contract (round trip; value-or-error for every string; WellFormed documents yield the value they "
                 "spell) over abstract JSON documents x SDP text classes, and the documented functions and caller paths; TLC checks "
                 "them against the contract and emits the cases; Go drivers run util.(De)SerializeSessionDescription, and - in-package, "
                 "through go test -overlay - the real proxy pollOffer behind a scripted httptest broker, remoteIPFromSDP, and the real "
                 "client BrokerChannel.Negotiate behind a scripted rendezvous; recover() turns a panic into a violation",
    "text": "Totality over JSON shapes is decided by enumeration: TLC enumerates every combination of top-level kind, kind of the type "
            "and sdp members and document shape, plus an SDP text grammar, computes the allowed outcomes from the contract and checks "
            "the documented functions against it; every case is concretised and executed on the real code at the three untrusted "
            "entry points. Exhaustive over the contract's partitions, hence model_checking bound to the code by differential replay.",
    "note": "Concrete bytes are seeded representatives of each class; anything not WellFormed only has to give value-or-error; "
            "text that is not UTF-8 is exempt from equality; pion's own SetRemoteDescription is outside the property.",
}


# --- extension part built separately: the NAT probe server probetest/probetest.go (spec/ProbeTest), see notes/ProbeTest.md
_run_core = run


def run(chk, args):
    import json as _json
    import threading as _threading
    only = set(args.only.split(",")) if args.only else None
    if args.replay:
        with open(args.replay) as fh:
            rp = _json.load(fh)["replay"]
        if isinstance(rp, dict) and str(rp.get("kind", "")).startswith("probetest"):
            from checks import c13_probetest
            return c13_probetest.replay(chk, rp)
        return _run_core(chk, args)
    if only is None or only - {"probetest"}:
        _run_core(chk, args)
    if only is None or "probetest" in only:
        from checks import c13_probetest
        c13_probetest.run_probetest_part(chk, args)
