"""EventBus part (common/event: the dispatcher and the event structs), called from the C15 check:

    from checks import c15_eventbus
    c15_eventbus.run_eventbus_part(chk, args)          # adds to chk, never sets the verdict itself
    c15_eventbus.replay_part(chk, rp)                  # for replay files with rp["kind"] == "eventbus..."

spec/EventBus/EventBus.tla        the dispatcher as a concurrent object: dispatchers, mutators (Add / Remove),
                                  receivers of six kinds (plain, slow, panicking, re-entrant x3) called under
                                  the lock.  TLC: LockOK, LockedStable, DeliveryLaw, RegistrationOrder,
                                  RemoveLaw, PanicReleasesLock, NoWedge, NoStuck; liveness DispatchReturns,
                                  MutateReturns for the repository's usage patterns; the re-entrant kinds must
                                  violate NoWedge (documented deadlock).
spec/EventBus/EventBus_Trace.tla  every trace recorded from the real dispatcher must be a behaviour of EventBus.
spec/EventBus/EventStrings.tla    every event value over its field classes with the result String() must give;
                                  the producer sites extracted from the real source with the provenance of their
                                  Error field: TLC decides SiteSafe / ProducibleTotal.

Binding: harness/cmd/eventbusdrv (external, exported API only): `replay` executes gated schedules (edge cover +
walks of TLC's state graphs, -simulate, what-if counterexamples) and free-running herds against the real
dispatcher with gated / panicking / re-entrant receivers and goroutine-dump quiescence; `strings` runs String()
of the real structs on TLC's cases; `sites` reads the producers' source."""
import collections
import json
import os
import random
import re

import extgraph
import vlib

SPECDIR = os.path.join(vlib.SPEC, "EventBus")
MAX_REPORT = 6
KNOWN = []

# the table of MC_EventBus!KindOf (every trace starts with it and TLC compares)
KINDS = ["plain", "gated", "panic", "reAdd", "reRemove", "reDispatch", "plain", "gated"]

INVS = "TypeOK PanicReleasesLock LockOK LockedStable DeliveryLaw RegistrationOrder NoWedge NoStuck".split()
PROPS = ["RemoveLaw"]

# (name, base cfg, overrides, expected verdicts, GenSpec cfg for a counterexample schedule)
WHATIF = [
    ("nolock", "MC_wi.cfg", {"Mut": '"nolock"'}, {"invariant:LockOK"}, "Gen_wi.cfg"),
    ("snapshot", "MC_wi.cfg", {"Mut": '"snapshot"'}, {"invariant:LockedStable"}, "Gen_wi.cfg"),      # checked without LockOK (violated at once too)
    ("prepend", "MC_wi.cfg", {"Mut": '"prepend"'}, {"invariant:RegistrationOrder"}, "Gen_wi.cfg"),
    ("removefirst", "MC_wi.cfg", {"Mut": '"removefirst"'}, {"action:RemoveLaw"}, "Gen_wi.cfg"),
    ("nodefer", "MC_wi.cfg", {"Mut": '"nodefer"'}, {"invariant:PanicReleasesLock"}, "Gen_wi.cfg"),
    ("dedupe", "MC_wi.cfg", {"Mut": '"dedupe"'}, {"action:RemoveLaw"}, "Gen_wi.cfg"),
    ("reAdd", "MC_re.cfg", {"Listeners": "{1, 4}"}, {"invariant:NoWedge"}, None),
    ("reRemove", "MC_re.cfg", {"Listeners": "{1, 5}"}, {"invariant:NoWedge"}, None),
    ("reDispatch", "MC_re.cfg", {"Listeners": "{1, 6}"}, {"invariant:NoWedge"}, None),
]


# --------------------------------------------------------------------------
# behaviours -> schedules

def cmd_of(label):
    m = re.match(r'^(\w+?)(?:\((.*)\))?$', label)
    if not m:
        return None
    a, args = m.group(1), [x.strip().strip('"') for x in (m.group(2) or "").split(",") if x.strip()]
    if a in ("GDispatch", "DCall"):
        return {"op": "Dispatch", "d": int(args[0])}
    if a in ("GRelease", "DRelease"):
        return {"op": "Release", "d": int(args[0])}
    if a == "GAdd":
        return {"op": "Add", "m": int(args[0]), "x": int(args[1])}
    if a == "GRemove":
        return {"op": "Remove", "m": int(args[0]), "x": int(args[1])}
    if a == "MCall":
        return {"op": "Add" if args[1] == "add" else "Remove", "m": int(args[0]), "x": int(args[2])}
    return None


def key_of(s):
    if s["mode"] == "herd":
        return ("herd", json.dumps(s["herd"], sort_keys=True))
    return ("gated",) + tuple((x["op"], x.get("d"), x.get("m"), x.get("x")) for x in s["steps"])


def nontrivial(s):
    """non-trivial: listeners change while events are dispatched, or a receiver is slow / panics / re-enters"""
    if s["mode"] == "herd":
        return bool(s["herd"]["mutators"])
    ops = [x["op"] for x in s["steps"]]
    special = any(x["op"] in ("Add", "Remove") and KINDS[x["x"] - 1] != "plain" for x in s["steps"])
    return "Dispatch" in ops and (special or "Remove" in ops or "Release" in ops)


def dump_graph(cfg):
    d = vlib.scratch("eb-dot")
    dot = os.path.join(d, cfg.replace(".cfg", ".dot"))
    r = vlib.tlc(SPECDIR, "MC_EventBus", cfg, workers=1, timeout=900, dump_dot=dot, keep_prints=False, heap="3g")
    if r.error:
        raise vlib.Inconclusive("EventBus GenSpec %s: %s\n%s" % (cfg, r.error, r.out[-1500:]))
    return extgraph.Graph(dot, cmd_of), r


def simulate(cfg, num, depth, seed):
    d = vlib.scratch("eb-sim-%s-%d" % (cfg, seed))
    r = vlib.tlc(SPECDIR, "MC_EventBus", cfg, workers=1, timeout=600, simulate="file=%s/t,num=%d" % (d, num),
                 depth=depth, seed=seed, keep_prints=False)
    if r.error:
        raise vlib.Inconclusive("EventBus simulation %s: %s" % (cfg, r.error))
    out = []
    for f in sorted(os.listdir(d)):
        steps = []
        with open(os.path.join(d, f)) as fh:
            for line in fh:
                m = re.match(r'^\\\* <(\w+(?:\([^)]*\))?) line ', line)
                if m and m.group(1).startswith("G"):
                    c = cmd_of(m.group(1))
                    if c is not None:
                        steps.append(c)
        if steps:
            out.append(steps)
    return r, out


def herd_scheds(rng, n):
    """free-running herds: receivers that return (plain 1, 7; slow 2, 8) and sometimes the panicking one (3)"""
    out = []
    for _ in range(n):
        pool = [1, 2, 7, 8] + ([3] if rng.random() < 0.25 else [])
        muts = []
        for _ in range(rng.choice([0, 1, 1, 2, 2])):
            muts.append([{"op": rng.choice(["add", "add", "remove"]), "x": rng.choice(pool)} for _ in range(rng.randint(1, 5))])
        # at most MaxLen = 12 registrations: pre + adds
        pre = [rng.choice(pool) for _ in range(rng.randint(0, 3))]
        out.append({"mode": "herd", "herd": {"pre": pre, "dispatchers": [rng.randint(1, 4) for _ in range(rng.randint(1, 4))],
                                              "mutators": muts, "yield": rng.choice([0, 1, 3, 10, 50])}})
    return out


# --------------------------------------------------------------------------
# model checking

def wi_cfg(base, over, spec, props=True):
    consts = extgraph.with_constants(extgraph.read_cfg_constants(os.path.join(SPECDIR, base)), **over)
    invs = [i for i in INVS if not (over.get("Mut") == '"snapshot"' and i == "LockOK")]
    return extgraph.cfg_text(consts, spec, invariants=invs, properties=PROPS if props else ())


def model_check(chk, q):
    cfgs = ["MC_repo_q.cfg", "MC_wi.cfg"] if q else ["MC_repo_q.cfg", "MC_wi.cfg", "MC_repo.cfg", "MC_repo2.cfg"]
    jobs = [(cfg, extgraph.Bg(vlib.tlc, SPECDIR, "MC_EventBus", cfg, workers=(6 if cfg == "MC_repo2.cfg" else 2), timeout=1500, keep_prints=False,
                              coverage=(not q and cfg == "MC_repo.cfg"), heap="4g" if cfg == "MC_repo2.cfg" else None)) for cfg in cfgs]
    guards = []
    for name, base, over, want, gen in WHATIF:
        gbg = bg = None
        if gen is not None:
            gbg = extgraph.Bg(extgraph.tlc_raw, None, SPECDIR, "MC_EventBus", "WG_%s.cfg" % name, wi_cfg(gen, over, "GenSpec"), workers=1, timeout=300)
        if gen is None or not q:
            bg = extgraph.Bg(extgraph.tlc_raw, None, SPECDIR, "MC_EventBus", "WI_%s.cfg" % name, wi_cfg(base, over, "Spec"), workers=1, timeout=300)
        guards.append((name, want, gen, gbg, bg))
    live = None
    if not q:   # the wedge as a liveness violation
        consts = extgraph.with_constants(extgraph.read_cfg_constants(os.path.join(SPECDIR, "MC_re.cfg")))
        live = extgraph.Bg(extgraph.tlc_raw, None, SPECDIR, "MC_EventBus", "WL_re.cfg",
                           extgraph.cfg_text(consts, "Spec", invariants=["TypeOK"], properties=["DispatchReturns"]), workers=1, timeout=300)
    for cfg, bg in jobs:
        r = bg.get()
        chk.add_tlc(r)
        chk.note("TLC EventBus %s: %d distinct states, error=%s (%.0fs)" % (cfg, r.distinct, r.error, r.wall))
        if r.error:
            chk.fail("EventBus model check %s failed in the model alone (no verdict): %s\n%s" % (cfg, r.error, r.out[-2500:]))
        if r.coverage:
            zero = sorted(a for a, (d, t) in r.coverage.items() if t == 0 and a not in ("Init", "DSelfThrough"))
            chk.cov.setdefault("coverage_zero_actions", [])
            chk.cov["coverage_zero_actions"] += ["EventBus:" + z for z in zero]
            if zero:
                chk.fail("vacuity: EventBus actions never taken in %s: %s" % (cfg, zero))
    out = []
    for name, want, gen, gbg, bg in guards:
        if bg is not None:
            v, r = bg.get()
            chk.add_tlc(r)
            if v not in want:
                chk.fail("vacuity: EventBus what-if configuration %s gives %s, expected %s" % (name, v, sorted(want)))
        if gbg is not None:
            v, r = gbg.get()
            chk.add_tlc(r)
            if v not in want:
                chk.fail("vacuity: EventBus what-if %s gives %s at the replay grain, expected %s" % (name, v, sorted(want)))
                continue
            steps = [c for c in (cmd_of(l) for l in extgraph.cex_labels(r.out) if l.startswith("G")) if c]
            if steps:
                out.append({"mode": "gated", "steps": steps, "src": "cex:" + name})
    if live is not None:
        v, r = live.get()
        chk.add_tlc(r)
        if v != "temporal:DispatchReturns":
            chk.fail("vacuity: EventBus with a re-entrant receiver gives %s, expected temporal:DispatchReturns" % v)
    chk.cov["eventbus_whatif"] = [g[0] for g in guards] + (["re/live"] if live is not None else [])
    return out


# --------------------------------------------------------------------------
# driver + trace validation

def driver():
    return vlib.go_build("./cmd/eventbusdrv", "eventbusdrv", linkflag=True)


def reentrant(s):
    return s["mode"] == "gated" and any(x.get("x") in (4, 5, 6) for x in s["steps"])


def _run_chunk(binary, scheds, tag, workers):
    d = vlib.scratch("eb-run")
    inp, outp = os.path.join(d, tag + ".sched.ndjson"), os.path.join(d, tag + ".traces.ndjson")
    vlib.write_ndjson(inp, [dict({k: s[k] for k in ("id", "mode", "steps", "herd") if k in s}, kinds=KINDS) for s in scheds])
    r = vlib.run([binary, "replay", inp, outp, str(workers)], cwd=d, timeout=600)
    if r.timed_out or r.rc != 0 or "EVENTBUSDRV schedules=" not in r.out:
        raise vlib.Inconclusive("eventbusdrv replay failed (rc=%s timeout=%s):\n%s" % (r.rc, r.timed_out, r.out[-3000:]))
    traces = vlib.read_ndjson(outp)
    if len(traces) != len(scheds):
        raise vlib.Inconclusive("eventbusdrv returned %d traces for %d schedules" % (len(traces), len(scheds)))
    return traces


def run_schedules(binary, scheds, tag, workers=4):
    """schedules with re-entrant receivers leave wedged goroutines behind (every later goroutine dump of that process
    gets longer): they run in processes of their own, 250 at a time, two processes side by side"""
    clean = [s for s in scheds if not reentrant(s)]
    re_ = [s for s in scheds if reentrant(s)]
    chunks = [(clean, workers)] if clean else []
    chunks += [(re_[i:i + 250], 2) for i in range(0, len(re_), 250)]
    import concurrent.futures
    with concurrent.futures.ThreadPoolExecutor(max_workers=3) as ex:
        futs = [ex.submit(_run_chunk, binary, c, "%s-%d" % (tag, i), w) for i, (c, w) in enumerate(chunks)]
        traces = [t for f in futs for t in f.result()]
    return traces


def brief(e):
    if e.get("ev") != "obs":
        return json.dumps(e, sort_keys=True)
    return "obs dispatchers=%s mutators=%s" % (["%s/%d" % (x["st"], x["n"]) for x in e["ds"]], ["%s/%d" % (x["st"], x["n"]) for x in e["ms"]])


def signature(trace, hw):
    evs = trace["events"]
    e = evs[hw - 1] if 0 < hw <= len(evs) else {}
    before = evs[:max(hw - 1, 0)]
    prev_cmd = next((x for x in reversed(before) if x.get("ev") in ("Dispatch", "Release", "Add", "Remove")), {})
    ev = e.get("ev")
    herd = "herd/" if trace.get("mode") == "herd" else ""
    if ev == "kinds":
        return "EventBus/harness:kind-table-differs"
    if ev == "Deliver":
        x = e.get("x", 0)
        kind = KINDS[x - 1] if 0 < x <= len(KINDS) else "?"
        same = [y for y in before if y.get("ev") == "Deliver" and y.get("d") == e.get("d") and y.get("n") == e.get("n")]
        pos = "first" if not same else "later"
        return "EventBus/%sdeliver:unexplained/%s-receiver/%s-of-its-event/after-%s" % (herd, kind, pos, prev_cmd.get("ev", "?"))
    if ev == "obs":
        ds, ms = e["ds"], e["ms"]
        inside = any(x["st"] in ("incb", "selflock") for x in ds)
        parked = [("dispatcher", x) for x in ds if x["st"] == "lock"] + [("mutator", x) for x in ms if x["st"] == "lock"]
        if parked and not inside:
            return "EventBus/%shang:%s@lock/nobody-inside%s" % (herd, parked[0][0], "/after-panic" if any(x["st"] == "panic" for x in ds) else "")
        if inside and any(x["st"] == "idle" for x in ms) and prev_cmd.get("ev") in ("Add", "Remove"):
            return "EventBus/%sobs:%s-returned-during-a-dispatch" % (herd, prev_cmd["ev"])
        return "EventBus/%sobs:unexplained/ds=%s/ms=%s/after-%s" % (herd, "+".join(sorted({x["st"] for x in ds})) or "none",
                                                                      "+".join(sorted({x["st"] for x in ms})) or "none", prev_cmd.get("ev", "?"))
    if ev in ("RetDispatch", "RetMutate"):
        return "EventBus/%s%s:unexplained%s" % (herd, ev, ("/" + e["res"]) if "res" in e else "")
    return "EventBus/unexplained:command-%s" % ev


def validate(chk, traces, tag):
    for t in traces:
        if t.get("note"):
            raise vlib.Inconclusive("eventbusdrv: schedule %s: %s" % (t["id"], t["note"]))
    # several TLC runs side by side (one JVM explains ~1000 traces in a few seconds)
    nshard = max(1, min(4, len(traces) // 400))
    jobs = []
    for i in range(nshard):
        ts = traces[i::nshard]
        d = vlib.scratch("eb-tv")
        f = os.path.join(d, "%s-%d.ndjson" % (tag, i))
        vlib.write_ndjson(f, ts)
        jobs.append((ts, extgraph.Bg(vlib.tlc, SPECDIR, "EventBus_Trace", "Trace.cfg", workers=1, timeout=900, files={"traces.ndjson": f}, heap="3g")))
    accepted, rejected = 0, []
    for ts, bg in jobs:
        r = bg.get()
        chk.add_tlc(r)
        if r.error:
            raise vlib.Inconclusive("EventBus trace validation (model only): %s\n%s" % (r.error, r.out[-2500:]))
        rej = extgraph.trace_verdict(r, len(ts), "EventBus")
        accepted += len(ts) - len(rej)
        chk.note("TLC EventBus_Trace: %d traces, %d rejected, %d states (%.0fs)" % (len(ts), len(rej), r.distinct, r.wall))
        byid = {t["id"]: t for t in ts}
        rejected += [(byid[tid], hw) for tid, hw in sorted(rej.items())]
    return accepted, rejected


def report(chk, rejected, byid, binary=None):
    seen = collections.Counter()
    for t, hw in rejected:
        sig = signature(t, hw)
        seen[sig] += 1
        if seen[sig] > 1:
            continue
        if sig.startswith("EventBus/harness:"):
            chk.fail("EventBus: the driver's receiver kinds differ from MC_EventBus!KindOf")
            continue
        if len(chk.violations) >= MAX_REPORT and not any(k.get("key") == sig for k in chk.known):
            continue
        sched = byid[t["id"]]
        if "/hang:" in sig and binary is not None:
            # a verdict that rests on waiting is confirmed by running the same schedule alone again (a herd: 30 times)
            again = run_schedules(binary, [dict(sched, id=i + 1) for i in range(30 if sched["mode"] == "herd" else 1)], "confirm", workers=1)
            _, rej2 = validate(chk, again, "confirm")
            if not any(signature(t2, hw2) == sig for t2, hw2 in rej2):
                chk.fail("EventBus: %s was seen once and not again when the schedule ran alone: %s" % (sig, json.dumps(sched.get("steps") or sched.get("herd"))))
                continue
        e = t["events"][hw - 1] if hw <= len(t["events"]) else {}
        what = ("the real event dispatcher did something spec/EventBus does not allow: first unexplained event #%d: %s; "
                "receiver kinds %s; schedule: %s" % (hw, brief(e), dict(enumerate(KINDS, 1)), json.dumps(sched.get("steps") or sched.get("herd"))))
        chk.violation(sig, what, {"kind": "eventbus", "schedule": sched, "trace": t, "first_unexplained": hw})
    for sig, n in seen.items():
        if n > 1:
            chk.note("  %s: %d traces" % (sig, n))


# --------------------------------------------------------------------------
# String() and the producers

def strings_and_sites(chk, binary):
    d = vlib.scratch("eb-str")
    sites = os.path.join(d, "sites.ndjson")
    r = vlib.run([binary, "sites", vlib.REPO, sites], cwd=d, timeout=120)
    if r.rc != 0 or not os.path.exists(sites):
        raise vlib.Inconclusive("eventbusdrv sites failed:\n%s" % r.out[-2000:])
    t = vlib.tlc(SPECDIR, "EventStrings", "Strings.cfg", workers=1, timeout=300, files={"sites.ndjson": sites})
    chk.add_tlc(t)
    if t.error:
        raise vlib.Inconclusive("EventStrings (model only): %s\n%s" % (t.error, t.out[-2000:]))
    cases = [p for p in t.prints if isinstance(p, dict) and "expect" in p]
    posts = [p for p in t.prints if isinstance(p, dict) and "unsafe" in p]
    if len(cases) < 30 or len(posts) != 1:
        raise vlib.Inconclusive("EventStrings printed %d cases and %d site verdicts" % (len(cases), len(posts)))
    post = posts[0]
    if post["nsites"] < 5:
        raise vlib.Inconclusive("vacuous: only %d producer sites found in %s" % (post["nsites"], vlib.REPO))
    inp, outp = os.path.join(d, "cases.ndjson"), os.path.join(d, "out.ndjson")
    vlib.write_ndjson(inp, cases)
    r = vlib.run([binary, "strings", inp, outp], cwd=d, timeout=120)
    if r.rc != 0 or not os.path.exists(outp):
        raise vlib.Inconclusive("eventbusdrv strings failed:\n%s" % r.out[-2000:])
    res = vlib.read_ndjson(outp)
    panics_on_nil = set()
    for x in res:
        if x["result"] == "panic" and x["err"] == "nil":
            panics_on_nil.add(x["type"])
        if x["want_result"] == "panic":
            continue                # a panic is never demanded: a repaired String() is fine
        if x["ok"]:
            continue
        if x["result"] == "panic":
            sig = "EventBus/string:%s/err=%s/panic" % (x["type"], x["err"])
        elif x.get("leak"):
            sig = "EventBus/string:%s/err=%s/address-not-scrubbed" % (x["type"], x["err"])
        else:
            sig = "EventBus/string:%s/err=%s/text" % (x["type"], x["err"])
        chk.violation(sig, "String() of the real %s (Error class %s, description %s, counters %d/%d) gave %s %r %s; spec/EventBus/EventStrings demands %r" % (
            x["type"], x["err"], x["desc"], x["inb"], x["outb"], x["result"], x["text"], x["panic"][:120], x["want_text"]),
            {"kind": "eventbus-string", "case": {k: x[k] for k in ("type", "err", "desc", "inb", "outb")}, "got": x})
    # producers: TLC's verdict over the sites read from the source, confirmed by what String() really does on nil
    for s in post["unsafe"]:
        where = "%s %s (%s:%d)" % (s["type"], s["func"], s["file"], s["line"])
        if s["type"] not in panics_on_nil:
            chk.fail("EventStrings says %s is unsafe but the real String() does not panic on a nil Error: the model does not describe the code" % where)
        elif s["prov"] in ("nil", "absent"):
            chk.violation("EventBus/producer:nil-error/%s@%s" % (s["type"], s["func"]),
                          "the producer %s emits %s with a nil Error (provenance %s) and String() of that value panics (observed on the real struct): "
                          "a listener that prints events - the client binary's ptEventLogger - dies on the producer's goroutine" % (where, s["type"], s["prov"]),
                          {"kind": "eventbus-site", "site": s})
        else:
            chk.fail("producer %s hands %s an Error of provenance %r: it may be nil, String() would panic; the source scan cannot decide "
                     "(the C15 PeerConnect replay observes the events really emitted)" % (where, s["type"], s["prov"]))
    drift = {"missing": post["missing"], "extra": post["extra"]}
    if post["missing"] or post["extra"]:
        chk.note("EventStrings: producer sites differ from the table of the pinned tree (information only): %s" % json.dumps(drift)[:600])
    chk.cov["eventbus_strings"] = {"cases": len(res), "producer_sites": post["nsites"], "unsafe_sites": len(post["unsafe"]), "site_drift": drift,
                                   "string_panics_on_nil_error": sorted(panics_on_nil)}
    chk.cov["evaluations"] += len(res) + post["nsites"]
    chk.cov["distinct_nontrivial"] += sum(1 for x in res if x["err"] in ("nil", "addr", "empty"))
    chk.sample({"event_string_case": {k: res[len(res) // 2][k] for k in ("type", "err", "result", "text")}}, limit=6)


# --------------------------------------------------------------------------

def run_eventbus_part(chk, args):
    chk.known.extend(k for k in KNOWN if k not in chk.known)
    q = chk.tier == "quick"
    rng = random.Random(chk.seed * 7919 + 1515)
    build = extgraph.Bg(driver)
    scheds, seen = [], set()

    def add(s):
        k = key_of(s)
        if (s["mode"] == "gated" and not s["steps"]) or k in seen:
            return
        seen.add(k)
        s = dict(s, id=len(scheds) + 1)
        scheds.append(s)

    try:
        # (command edges: 4 484 / 11 512 / 3 298; a seeded part of the covers is taken, different per seed)
        plans = [("Gen_small.cfg", 300 if q else 1500, 120 if q else 600), ("Gen_re.cfg", 120 if q else 700, 50 if q else 300),
                 ("Gen_wi.cfg", 180 if q else 1000, 80 if q else 400)]
        sims = [("Gen_repo.cfg", 150 if q else 1000), ("Gen_all.cfg", 120 if q else 1000)]
        graph_jobs = [(p, extgraph.Bg(dump_graph, p[0])) for p in plans]
        sim_jobs = [(cfg, extgraph.Bg(simulate, cfg, num, 60, chk.seed)) for cfg, num in sims]
        for s in model_check(chk, q):
            add(s)
        stats = {}
        for (cfg, limit, nwalk), bg in graph_jobs:
            g, r = bg.get()
            chk.add_tlc(r)
            paths, total, covered = g.covering(rng, limit, maxcmds=20)
            for p in paths:
                add({"mode": "gated", "steps": g.steps(p), "src": "cover:" + cfg})
            for p in g.walks(rng, nwalk, 18):
                add({"mode": "gated", "steps": g.steps(p), "src": "walk:" + cfg})
            stats[cfg] = {"states": r.distinct, "edges": len(g.edges), "command_edges": total, "command_edges_covered": covered, "paths": len(paths)}
            chk.note("EventBus GenSpec %s: %d states, %d edges, %d/%d command edges covered by %d paths" % (cfg, r.distinct, len(g.edges), covered, total, len(paths)))
        for cfg, bg in sim_jobs:
            r, behs = bg.get()
            chk.add_tlc(r)
            for steps in behs:
                add({"mode": "gated", "steps": steps, "src": "simulate:" + cfg})
        for s in herd_scheds(rng, 300 if q else 2000):
            add(dict(s, src="herd"))
        chk.cov.setdefault("generation", {}).update({"EventBus:" + k: v for k, v in stats.items()})
        if len(scheds) < 300:
            raise vlib.Inconclusive("vacuous: only %d event bus schedules generated" % len(scheds))
        binary = build.get()
        strs = extgraph.Bg(strings_and_sites, chk, binary)
        traces = run_schedules(binary, scheds, "main")
        byid = {s["id"]: s for s in scheds}
        skipped = sum(t["skipped"] for t in traces)
        ncmd = sum(len(s.get("steps", ())) for s in scheds)
        nherd = sum(1 for s in scheds if s["mode"] == "herd")
        wedged = sum(1 for t in traces if any(x.get("st") == "selflock" for e in t["events"] if e.get("ev") == "obs" for x in e["ds"]))
        chk.note("EventBus: replayed %d schedules on the real dispatcher (%d gated with %d commands, %d herds; %d commands not applicable; "
                 "%d traces end with the bus wedged by a re-entrant receiver)" % (len(scheds), len(scheds) - nherd, ncmd, nherd, skipped, wedged))
        if skipped * 5 > max(ncmd, 1):
            raise vlib.Inconclusive("more than 20%% of the event bus commands (%d of %d) were not applicable: the model does not describe the code" % (skipped, ncmd))
        accepted, rejected = validate(chk, traces, "main")
        report(chk, rejected, byid, binary)
        if wedged == 0:
            chk.fail("vacuity: no replay reached the documented re-entrancy deadlock")
        chk.cov["evaluations"] += len(scheds)
        chk.cov["distinct_nontrivial"] += sum(1 for s in scheds if nontrivial(s))
        chk.cov["traces_validated_against_impl"] += accepted
        chk.cov["eventbus"] = {"schedules": len(scheds), "herds": nherd, "commands_skipped": skipped, "accepted": accepted, "rejected": len(rejected),
                               "traces_with_reentrancy_wedge": wedged}
        s = next((x for x in scheds if x["mode"] == "gated" and x.get("src", "").startswith("cover:Gen_re")), scheds[0])
        t = next(t for t in traces if t["id"] == s["id"])
        chk.sample({"eventbus_schedule": s.get("steps"), "src": s.get("src"), "last_observation": brief(t["events"][-1])}, limit=6)
        try:
            strs.get()
        except vlib.Inconclusive as e:
            chk.fail(str(e))
    except vlib.Inconclusive as e:
        chk.fail(str(e))
        try:
            build.get()
        except BaseException:   # noqa: BLE001 - already failing
            pass
    chk.assumptions += [
        "EventBus: gated replays issue commands only when all goroutines are parked; finer interleavings are covered by TLC on the model and by "
        "the free-running herds (records written under one recorder mutex; deliveries are recorded inside the callback, i.e. under the bus lock)",
        "EventBus: sync.Mutex does not starve a waiter (SF of the lock acquisitions in DispatchReturns / MutateReturns); receivers return ('MUST not block')",
        "EventBus: receivers are compared by Go interface equality; the driver uses pointers to non-empty structs (pointers to zero-size values may compare equal)",
        "EventStrings: provenance 'callback:OnError' is taken as non-nil (pion/webrtc v3.1.41 datachannel.go readLoop calls onError only when err != nil); "
        "the provenance scan looks at the innermost function only; 'maybe' for the failure event gives no verdict",
    ]


def replay_part(chk, rp):
    binary = driver()
    if rp["kind"] == "eventbus":
        s = dict(rp["schedule"], id=1)
        traces = run_schedules(binary, [s], "replay", workers=1)
        accepted, rejected = validate(chk, traces, "replay")
        report(chk, rejected, {1: s}, binary)
        chk.cov["evaluations"] += 1
        chk.cov["traces_validated_against_impl"] += accepted
    else:
        strings_and_sites(chk, binary)


# standalone use (debugging): bin/check C15_EVENTBUS
LEVEL = "model_checking"


def run(chk, args):
    if args.replay:
        with open(args.replay) as fh:
            return replay_part(chk, json.load(fh)["replay"])
    run_eventbus_part(chk, args)
    chk.cov["rule"] = ("one evaluation = one schedule executed on the real dispatcher and judged by TLC, one event value through String(), or one producer site; "
                       "non-trivial = listeners change or misbehave while events are dispatched / nil, empty or address-bearing errors")
