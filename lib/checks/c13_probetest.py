"""Part of C13 built separately (to be wired in by lib/checks/c13.py: `from checks import c13_probetest;
c13_probetest.run_probetest_part(chk, args)`): the NAT probe server, probetest/probetest.go.

spec/ProbeTest: probeHandler step by step (bounded read, DecodePollResponse, the `offer == ""` branch,
DeserializeSessionDescription, the PeerConnection and the points where it must be closed), the timeout goroutine,
the pion callbacks that signal dataChan, the acknowledgement of an accepted data channel on its way to the peer, the
remote peer and an explicit clock.  TLC checks the machine against the contract (ResponseIsContract, NoPanic,
NoCrash, BoundedRead, ErrorPathClosesPC, OwnedPC, ClosedByDeadline, NoProbeLost, liveness) and prints every request class (method x body size at/over the limit/endless x JSON class x offer
class x what the peer does) with the response and PeerConnection lifetime the contract demands.  An in-package
driver (go test -overlay in /repo/probetest, package main) sends every class to the REAL handler - through
net/http and directly - plays the proxy with a real pion peer, and watches the handler's PeerConnection from
outside (its UDP ports in /proc/net/udp, goroutine accounting).  Stand-alone: bin/check C13_PROBETEST."""
import collections
import json
import os
import random
import re
import threading
import time

import vlib

LEVEL = "model_checking"
SPECDIR = os.path.join(vlib.SPEC, "ProbeTest")
HARNESS = os.path.join(vlib.HARNESS, "inpkg", "probetest", "probe_verif_test.go")
TEST = "TestVerifProbeTest"
KNOWN = []          # nothing open: both defects found here are repaired (see MANIFEST note / notes/ProbeTest.md)


# --------------------------------------------------------------------------------------------
# model checking (runs in a thread next to the real-code runs)

def model_check(quick, box):
    w = max(2, vlib.NCPU // 4)

    def safe(cfg, coverage=False):
        def fn():
            r = vlib.tlc(SPECDIR, "ProbeTest", cfg, workers=w, timeout=600, coverage=coverage, keep_prints=False)
            box["tlc"].append(r)
            box["notes"].append("TLC ProbeTest %s: %d distinct states, %s (%.0fs)" % (cfg, r.distinct, r.error or "no error", r.wall))
            if r.error:
                box["fail"].append("ProbeTest: model check %s failed: %s\n%s" % (cfg, r.error, r.out[-2500:]))
            elif coverage:
                zero = sorted(a for a, (d, t) in r.coverage.items() if t == 0)
                if zero:
                    box["fail"].append("ProbeTest: vacuity: actions never taken in %s: %s" % (cfg, zero))
        return fn

    def sens(cfg, want):
        def fn():
            r = vlib.tlc(SPECDIR, "ProbeTest", cfg, workers=2, timeout=600, keep_prints=False)
            box["tlc"].append(r)
            if r.error != want:
                box["fail"].append("ProbeTest: sensitivity: %s should violate %s, TLC says %s" % (cfg, want, r.error))
            else:
                box["notes"].append("TLC ProbeTest sensitivity %s: %s as expected (the deviation of the pinned code is visible to the model)" % (cfg, r.error))
        return fn

    jobs = [safe("MC_quick.cfg", coverage=not quick), safe("MC_live.cfg"),
            sens("MC_asis_nilerr.cfg", "invariant:NoPanic"), sens("MC_asis_dclose.cfg", "invariant:NoCrash"),
            sens("MC_asis_closeatopen.cfg", "invariant:NoProbeLost")]
    ths = []
    for j in jobs:
        def wrap(j=j):
            try:
                j()
            except vlib.Inconclusive as e:
                box["fail"].append(str(e))
            except Exception:  # noqa
                import traceback
                box["fail"].append("internal error in ProbeTest model check:\n" + traceback.format_exc())
        ths.append(threading.Thread(target=wrap))
    for t in ths:
        t.start()
    for t in ths:
        t.join()


# --------------------------------------------------------------------------------------------
# real-code runs

_seq = [0]
_lock = threading.Lock()


def run_proc(binary, cases, timeout, watch_ms=None, par=None):
    with _lock:
        _seq[0] += 1
        seq = _seq[0]
    d = vlib.scratch("probetest")
    inp, outp = os.path.join(d, "c%d.in.ndjson" % seq), os.path.join(d, "c%d.out.ndjson" % seq)
    vlib.write_ndjson(inp, cases)
    env = dict(os.environ)
    env.update({"VERIF_PRB_IN": inp, "VERIF_PRB_OUT": outp})
    if watch_ms:
        env["VERIF_PRB_WATCH_MS"] = str(int(watch_ms))
    if par:
        env["VERIF_PRB_PAR"] = str(int(par))
    r = vlib.run([binary, "-test.run", "^%s$" % TEST, "-test.timeout", "%ds" % int(timeout), "-test.count", "1"], env=env, timeout=timeout + 30)
    recs = vlib.read_ndjson(outp) if os.path.exists(outp) else []
    return recs, r


def cls(c):
    """abstract class of a request, for signatures: never concrete bytes"""
    if c["size"] in ("overlimit", "endless"):
        return "size=%s" % c["size"]
    if c["top"] != "object":
        return "body=%s" % c["top"]
    if c["decode"] == "nooffer":
        return "decode=nooffer"          # no client match: the body decodes without error and without an offer
    if c["decode"] != "offer":
        return "decode=%s(status=%s,offer=%s,relay=%s)" % (c["decode"], c["status"], c["offer"], c["relay"])
    return "offer=%s%s" % (c["offer"], "+peer" if c["peer"] == "connect" else "")


def judge(c, o, summ):
    """-> list of (signature, what, needs_confirmation).  Expected values are the ones TLC printed (c['expect'])."""
    out = []
    e = c["expect"]
    k = cls(c)
    tmo = e["timeout_ms"]
    if o.get("panic"):
        if not e["panic"]:
            out.append(("ProbeTest/panic/handler/%s" % k, "probeHandler panicked (%s) on a %s %s request of class %s; net/http would cut the connection: the "
                        "proxy gets no response" % (o["panic"], c["method"], c["mode"], k), False))
        return out
    if o.get("err"):
        out.append(("ProbeTest/harness/" + o["err"][:60], o["err"], False))
        return out
    if o["code"] != e["code"]:
        out.append(("ProbeTest/status/%s/got=%s/want=%s" % (k, o["code"], e["code"]), "%s %s request of class %s answered %s, the contract says %s" % (
            c["method"], c["mode"], k, o["code"], e["code"]), False))
    if o["body"] != e["body"]:
        out.append(("ProbeTest/body/%s/got=%s/want=%s" % (k, o["body"], e["body"]), "%s %s request of class %s: response body is %s (%r), the contract says %s" % (
            c["method"], c["mode"], k, o["body"], o.get("body_head", ""), e["body"]), False))
    elif o["body"] == "answer":
        if o.get("ans_type") != "answer" or o.get("sid") != "stub-sid":
            out.append(("ProbeTest/answer-malformed/%s" % k, "the answer has type %r and sid %r" % (o.get("ans_type"), o.get("sid")), False))
        if o.get("local_cand", 0) > 0:
            out.append(("ProbeTest/answer-local-candidates", "%d host candidates with a local/loopback address in the answer" % o["local_cand"], False))
    if o["acao"] != e["acao"]:
        out.append(("ProbeTest/header/acao/%s" % ("ok" if e["code"] == 200 else "refusal"), "Access-Control-Allow-Origin is %r on a %s response" % (o["acao"], o["code"]), False))
    if o["read"] > e["maxread"]:
        out.append(("ProbeTest/unbounded-read/size=%s" % c["size"], "the handler took %d bytes from a request body (%s); the contract says at most %d" % (
            o["read"], "endless" if o["offered"] < 0 else "%d bytes long" % o["offered"], e["maxread"]), False))
    # life of the handler's PeerConnection, seen through the UDP ports of its answer
    if o["body"] == "answer" and o["code"] == 200:
        if not o["ports"]:
            out.append(("ProbeTest/harness/no-candidate-ports", "no host candidate in the answer: the PeerConnection cannot be observed", False))
        elif e["pc"] == "none":
            out.append(("ProbeTest/pc/unexpected/%s" % k, "an answer with candidates although the contract says no PeerConnection", False))
        elif o["closed_ms"] < 0:
            out.append(("ProbeTest/peer-connection-left-open/%s" % e["pc"], "the UDP ports announced in the answer (%s) are still bound %d ms after the response "
                        "(dataChannelTimeout = %d ms): pc.Close was not called [class %s]" % (o["ports"], summ.get("watch_ms", 0), tmo, k), True))
        elif e["pc"] == "until-timeout" and o["closed_ms"] < tmo - 400:
            out.append(("ProbeTest/peer-connection-closed-early/%s" % k, "PeerConnection closed %d ms after the response although no data channel opened "
                        "(dataChannelTimeout = %d ms)" % (o["closed_ms"], tmo), False))
        elif e["peer_open"] and not o.get("dc_open") and 0 <= o["closed_ms"] < tmo - 2000:
            out.append(("ProbeTest/probe-lost/server-closed-before-the-peer-saw-its-channel-open", "the peer completed the exchange and the handler closed its PeerConnection %d ms after the "
                        "response - but the peer's data channel never opened (its OnOpen needs the server's acknowledgement, and pc.Close() throws away what is not yet "
                        "written): a reachable proxy would wait its 20 s and record `restricted` [class %s]" % (o["closed_ms"], k), False))
    return out


def crash_signature(out):
    m = re.search(r"^panic: (.*)$", out, re.M)
    msg = m.group(1).strip() if m else "unknown"
    frames = re.findall(r"^(\S+)\(.*\)\n\t(\S+?):\d+", out, re.M)
    where = next((re.sub(r"^.*/", "", fn) for fn, fl in frames if "/probetest/" in fl and not fl.endswith("_verif_test.go")), "unknown")
    where = re.sub(r"\.func[\d.]+$", "", where)
    return re.sub(r"[^a-z0-9]+", "-", msg.lower()).strip("-")[:50], where, msg


def select_cases(cases, quick, rng):
    """quick: every body class once as POST/wire/plain, every (mode, method, size) combination on a seeded sample
    of bodies, every PeerConnection class in every mode; thorough: everything"""
    if not quick:
        return list(cases)
    pick = []
    for c in cases:
        base = c["mode"] == "wire" and c["method"] == "POST" and c["size"] == "plain"
        pcclass = c["expect"]["pc"] != "none" and (c["method"] in ("POST", "HEAD") or rng.random() < 0.25)
        if base or pcclass or rng.random() < 0.16:
            pick.append(c)
    return pick


def run_probetest_part(chk, args, binary=None):
    quick = chk.tier == "quick"
    rng = random.Random(chk.seed * 15485863 + 13)
    chk.known.extend(KNOWN)
    box = {"tlc": [], "notes": [], "fail": []}
    mc = threading.Thread(target=model_check, args=(quick, box))
    mc.start()
    try:
        if binary is None:
            binary = vlib.go_test_compile_inpkg("probetest", [HARNESS], "probetest.verif.test", linkflag=True)
        g = vlib.tlc(SPECDIR, "ProbeTest", "Gen.cfg", workers=1, timeout=600)
        chk.add_tlc(g)
        if g.error:
            raise vlib.Inconclusive("ProbeTest generation: %s\n%s" % (g.error, g.out[-1500:]))
        cases = [p for p in g.prints if isinstance(p, dict) and "expect" in p]
        if len(cases) < 1000 or not any(c["expect"]["pc"] == "until-done" for c in cases) or not any(c["decode"] == "nooffer" for c in cases):
            raise vlib.Inconclusive("ProbeTest generation printed %d cases (vacuous)" % len(cases))
        for i, c in enumerate(cases):
            c["id"] = i + 1
            c["limit"] = c["expect"]["limit"]
        tmo = cases[0]["expect"]["timeout_ms"]
        sel = select_cases(cases, quick, rng)
        # whether the peer sees its channel open is a race inside pion on the pinned code: the connect classes are executed several times
        reps = 6 if quick else 4
        extra = []
        for c in sel:
            if c["expect"]["pc"] == "until-done" and not (c["method"] == "HEAD" and c["mode"] == "wire"):
                for k in range(1, reps):
                    extra.append(dict(c, id=c["id"] + 100000 * k))
        sel = sel + extra
        # a second data channel kills the pinned server process: those classes get a process of their own
        risky = [c for c in sel if c["offer"] == "app2" and c["peer"] == "connect"]
        rest = [c for c in sel if not (c["offer"] == "app2" and c["peer"] == "connect")]
        nproc = 1 if quick else 2
        jobs = [rest[i::nproc] for i in range(nproc)] + ([risky] if risky else [])
        jobs = [j for j in jobs if j]
        npc = sum(1 for c in sel if c["expect"]["pc"] != "none")
        chk.note("ProbeTest: %d request classes from TLC, %d selected (%d make a PeerConnection that lives until its data channel opens or 20 s pass) in %d processes" % (
            len(cases), len(sel), npc, len(jobs)))
        t0 = time.time()
        results = vlib.run_parallel([(lambda j=j: run_proc(binary, j, 240, watch_ms=tmo + 20000)) for j in jobs], workers=len(jobs))
        chk.note("ProbeTest: real-code runs done (%.0fs)" % (time.time() - t0))
        found = collections.OrderedDict()
        njudged = nontriv = 0
        stats = collections.Counter()
        late_cases = []
        skipped = None
        for j, (recs, r) in zip(jobs, results):
            if any("skip" in x for x in recs):
                skipped = next(x["skip"] for x in recs if "skip" in x)
                continue
            summ = next((x["summary"] for x in recs if "summary" in x), None)
            byid = {x["id"]: x for x in recs if "id" in x}
            if summ is None:
                if re.search(r"^panic: ", r.out, re.M) or "fatal error:" in r.out:
                    key, where, msg = crash_signature(r.out)
                    pending = [c for c in j if c["id"] not in byid]
                    c = next((c for c in pending if c["offer"] == "app2" and c["peer"] == "connect"), pending[0] if pending else j[0])
                    found.setdefault("ProbeTest/crash/%s@%s" % (key, where), (
                        "the probe server PROCESS died while serving request classes like %s: panic: %s (in %s; a panic outside the handler's goroutine is not "
                        "recovered by net/http)\n%s" % (cls(c), msg, where, r.out[-1800:]), c, {"output": r.out[-4000:]}, False))
                else:
                    chk.fail("ProbeTest driver failed (rc=%s timeout=%s):\n%s" % (r.rc, r.timed_out, r.out[-2000:]))
                summ = {}
            for c in j:
                o = byid.get(c["id"])
                if o is None:
                    continue
                njudged += 1
                chk.cov["evaluations"] += 1
                if c["nt"]:
                    nontriv += 1
                for sig, what, confirm in judge(c, o, summ):
                    found.setdefault(sig, (what, c, o, confirm))
                if c["expect"]["pc"] == "until-done" and o.get("closed_ms", -1) >= 0:
                    stats["connect"] += 1
                    stats["proxy_side_saw_open"] += 1 if o.get("dc_open") else 0
                    late = o["closed_ms"] > c["expect"]["timeout_ms"] - 2000
                    stats["never_connected"] += 1 if (not o.get("dc_open") and late) else 0
                    # the peer saw its channel open and closed its connection, the handler's PeerConnection lived on until the timeout
                    stats["done_late"] += 1 if (o.get("dc_open") and late) else 0
                    if o.get("dc_open") and late:
                        late_cases.append(c)
                if o.get("code") == 200 and c["offer"] == "app" and c["peer"] == "connect" and not o.get("panic"):
                    chk.sample({"module": "ProbeTest", "request": {k: c[k] for k in ("mode", "method", "size", "status", "offer", "peer")},
                                "observed": {k: o[k] for k in ("code", "body", "read", "closed_ms", "dc_open")}}, limit=4)
            if "handler_goroutines_left" in summ:
                if summ["handler_goroutines_left"] > 0:
                    found.setdefault("ProbeTest/goroutine-left/handler", ("%d goroutines of probeHandler are still alive after every request is over and every timeout has "
                                     "expired:\n%s" % (summ["handler_goroutines_left"], summ.get("first_left", "")[:800]), j[0], summ, False))
                if summ["pion_goroutines_left"] > 0:
                    found.setdefault("ProbeTest/peer-connection-left-open/at-end", ("%d pion goroutines more than before the run are alive after every request is over, every "
                                     "harness peer is closed and every timeout has expired: a PeerConnection of the handler was never closed" % summ["pion_goroutines_left"],
                                     j[0], summ, False))
        for sig, (what, c, o, confirm) in list(found.items())[:10]:
            if sig.startswith("ProbeTest/harness/"):
                chk.fail("%s: %s [case %s]" % (sig, what, {k: c[k] for k in ("mode", "method", "size", "top", "status", "offer", "relay", "peer")}))
                continue
            if confirm:
                # established by a real-time bound: re-run the case alone with a doubled watch window
                recs, r = run_proc(binary, [c], 300, watch_ms=2 * (tmo + 20000), par=1)
                o2 = next((x for x in recs if x.get("id") == c["id"]), None)
                summ2 = next((x["summary"] for x in recs if "summary" in x), {})
                again = [s for s, _, _ in judge(c, o2, summ2)] if o2 else []
                if sig not in again:
                    chk.fail("%s was observed under load but not reproduced in an isolated re-run with a doubled window: no verdict" % sig)
                    continue
            chk.violation(sig, what, {"kind": "probetest", "case": c, "observed": o})
        # until-done: the PeerConnection goes when the peer's close is noticed.  The teardown of a connection is best effort (under
        # load a few closes are not noticed and the timeout takes over - allowed by the model: DCClosed has no fairness), so the
        # clause is judged over all executions: most of them must end well before the timeout
        opened = stats["proxy_side_saw_open"]
        if opened >= 8 and stats["done_late"] * 2 > opened:
            again = [dict(c, id=900000 + i) for i, c in enumerate((late_cases * 12)[:12])]
            recs, r = run_proc(binary, again, 300, watch_ms=tmo + 20000, par=2)
            obs = [x for x in recs if "id" in x and x.get("dc_open")]
            late2 = [x for x in obs if x["closed_ms"] < 0 or x["closed_ms"] > tmo - 2000]
            if len(obs) >= 6 and len(late2) * 2 > len(obs):
                chk.violation("ProbeTest/peer-connection-not-closed-when-done", "in %d of %d executions (and again in %d of %d run alone) the peer connected, saw its data channel open and "
                              "closed its connection, yet the handler's PeerConnection lived on until the timeout: the goroutine does not react to dataChan" % (
                                  stats["done_late"], opened, len(late2), len(obs)), {"kind": "probetest", "case": late_cases[0], "observed": late2[0]})
            else:
                chk.fail("ProbeTest: %d of %d PeerConnections outlived a peer that was done, but not when re-run alone (%d of %d): no verdict" % (stats["done_late"], opened, len(late2), len(obs)))
        chk.cov["distinct_nontrivial"] += nontriv
        chk.cov["probetest"] = {"classes": len(cases), "executed": njudged, "peer_connections": npc,
                                "connect_cases": stats["connect"], "proxy_side_saw_open": stats["proxy_side_saw_open"],
                                "never_connected": stats["never_connected"], "close_not_noticed": stats["done_late"]}
        if stats["connect"]:
            chk.note("ProbeTest: %d judged; in %d executions of the connect classes the harness peer (the proxy's side) saw its data channel open %d times, "
                     "%d never connected; %d PeerConnections outlived a peer that was done (its close was not noticed: the timeout took over)" % (
                         njudged, stats["connect"], stats["proxy_side_saw_open"], stats["never_connected"], stats["done_late"]))
        if skipped:
            chk.cov.setdefault("skipped_clauses", []).append("ProbeTest conformance: " + skipped)
            chk.note("ProbeTest: conformance runs skipped: " + skipped)
        elif njudged == 0:
            chk.fail("ProbeTest: no case was judged")
        elif stats["connect"] - stats["never_connected"] < 3:
            chk.fail("ProbeTest: only %d of %d connect cases connected: the until-done clause was not exercised" % (stats["connect"] - stats["never_connected"], stats["connect"]))
    finally:
        mc.join()
        for n in box["notes"]:
            chk.note(n)
        for r in box["tlc"]:
            chk.add_tlc(r)
        for f in box["fail"]:
            chk.fail(f)
    chk.assumptions += [
        "ProbeTest: the handler's PeerConnection is observed from outside: the UDP ports of the host candidates in its answer are bound while it is open "
        "(/proc/net/udp), and pion goroutines are counted when everything is over; real time, dataChannelTimeout = 20 s (const)",
        "ProbeTest: the handler's STUN URL is a constant (stun.l.google.com); offline the name does not resolve and gathering ends with the host candidates",
        "ProbeTest: bodies are seeded representatives of the abstract classes; padding to the limit is JSON white space (the same document for any JSON decoder)",
    ]


def replay(chk, rp):
    if rp.get("kind") != "probetest":
        return False
    c = rp["case"]
    binary = vlib.go_test_compile_inpkg("probetest", [HARNESS], "probetest.verif.test", linkflag=True)
    recs, r = run_proc(binary, [c], 300, watch_ms=c["expect"]["timeout_ms"] + 20000, par=1)
    o = next((x for x in recs if x.get("id") == c["id"]), None)
    summ = next((x["summary"] for x in recs if "summary" in x), None)
    if o is None or summ is None:
        if re.search(r"^panic: ", r.out, re.M):
            key, where, msg = crash_signature(r.out)
            chk.violation("ProbeTest/crash/%s@%s" % (key, where), "the probe server process died on the replayed case: panic: %s" % msg, {"kind": "probetest", "case": c, "observed": {"output": r.out[-4000:]}})
        else:
            chk.fail("replay: the driver returned no record:\n" + r.out[-1500:])
        return True
    res = judge(c, o, summ)
    for sig, what, _ in res[:3]:
        chk.violation(sig, what + " (replayed case)", {"kind": "probetest", "case": c, "observed": o})
    if not res:
        chk.note("replay: the case conforms to the contract of spec/ProbeTest: %s" % json.dumps(o)[:300])
    return True


def run(chk, args):
    if getattr(args, "replay", None):
        with open(args.replay) as fh:
            if not replay(chk, json.load(fh)["replay"]):
                chk.fail("replay file is not from c13_probetest")
        return
    run_probetest_part(chk, args)
    chk.cov["exhaustive"] = chk.tier != "quick"
    chk.cov["rule"] = ("ProbeTest: a case is one request class printed by TLC (mode x method x body size x JSON class x offer class x peer behaviour) executed on the real "
                       "probeHandler; non-trivial = anything but a plain POST with a good offer and a connecting peer (refusals, sizes at/over the limit, other methods, "
                       "a second data channel, a peer that never connects)")


MANIFEST = {
    "technique": "TLA+ spec ProbeTest (probeHandler step by step with its failure points, the timeout goroutine, the data-channel callback, the remote peer, explicit clock); "
                 "TLC model-checks the machine against the contract incl. liveness and prints every request class with the demanded response and PeerConnection lifetime; "
                 "an in-package driver (go test -overlay, package main) executes each class on the real handler through net/http and directly, plays the proxy with a real "
                 "pion peer and observes the handler's PeerConnection through its UDP ports and goroutine accounting",
    "text": "Every request gets the well-formed response of its class (400 for unreadable/undecodable/offer-less bodies, 500 when pion refuses the description, 200 with an "
            "answer otherwise), whatever the method; no panic in the handler and none that kills the process; never more than readLimit + 1 bytes are taken from a body; an "
            "error response leaves no PeerConnection; an accepted offer's PeerConnection is closed when the data channel opens, else exactly at dataChannelTimeout; nothing "
            "of the handler is left when all is over.",
    "note": "Found and repaired: nil-error dereference in the `offer == \"\"` branch (a {\"Status\":\"no match\"} body made the handler panic), and close(dataChan) "
            "without a guard (a peer that opens a second data channel killed the whole probe server process), and the PeerConnection closed the moment the server's "
            "side of the data channel opened (the proxy then often never saw its own channel open and recorded `restricted`: 31 of 240 probes of the real proxy "
            "against the real server on one host).",
}
