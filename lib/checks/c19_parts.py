"""C19, two of its parts (the top-level check is lib/checks/c19.py):

run_counter_part  spec/Metrics: the rounding law (sequential), the measurement
                  period of the metrics log, and the rounded Prometheus counter
                  as a concurrent object.  TLC model-checks the object for the
                  pinned algorithm (must be violated: D13) and for the algorithm
                  in /repo (must hold), enumerates the law/rollover cases, and
                  judges the reads recorded from herds on the real counter
                  (Metrics_Trace).  harness/inpkg/broker/metrics_verif_test.go
                  executes everything on the real binCount / printMetrics /
                  zeroMetrics / RoundedCounterVec / registry.Gather.
run_journal_part  spec/Journal: the ClusterWriter as a state machine with an
                  explicit clock and the window contract of the reader; TLC
                  checks the writer invariants on every script and prints, per
                  script and window, the chunks the journal must contain and the
                  admissible estimate; harness/cmd/journaldrv replays them on the
                  real ipsetsink / sinkcluster under the fake clock.

Both add to chk.cov and report through chk.violation / chk.fail; neither sets
the final verdict."""
import json
import os
import random
import threading

import vlib

MET = os.path.join(vlib.SPEC, "Metrics")
JOU = os.path.join(vlib.SPEC, "Journal")
COUNTER_TEST = ["-test.run=^TestVerifC19Counters$", "-test.timeout=1200s"]
JOURNAL_ENV = {"GODEBUG": "asynctimerchan=0", "GOGC": "400"}

CLASS = {"too-high": "overshoot", "quiescent-too-high": "overshoot",
         "too-low": "undercount", "quiescent-too-low": "undercount"}


class _Bg:
    """Run a build in the background while TLC works; .get() re-raises."""

    def __init__(self, fn):
        self.val, self.exc = None, None

        def w():
            try:
                self.val = fn()
            except BaseException as e:   # noqa: re-raised in get()
                self.exc = e
        self.t = threading.Thread(target=w, daemon=True)
        self.t.start()

    def get(self):
        self.t.join()
        if self.exc is not None:
            raise self.exc
        return self.val


def _counter_binary():
    import brokerlib   # the in-package files of harness/inpkg/broker are compiled together (one binary per process)
    return brokerlib.rig_binary()


# --------------------------------------------------------------------------
# counters

def herd_params(chk, quick):
    """Seeded herd shapes.  'unlocked' is the call site broker/ipc.go ProxyPolls
    (status=matched), which calls Inc outside Metrics.lock; 'locked' stands for
    every other call site.  Readers never lock (a /prometheus scrape)."""
    rng = random.Random(chk.seed * 7919 + 19)
    shapes = [(2, 600000), (3, 400000), (4, 400000), (8, 200000), (16, 100000), (32, 50000), (64, 25000)]
    n = 8 if quick else 40
    herds = []
    for i in range(n):
        g, k = shapes[i % len(shapes)] if i < len(shapes) else rng.choice(shapes)
        if not quick:
            k *= rng.choice([1, 2, 4])
        mode = "locked" if i % 4 == 3 else "unlocked"
        if mode == "locked":
            k //= 4
        herds.append({"kind": "herd", "id": i, "mode": mode, "G": g, "K": k, "readers": 2 + (i % 2),
                      "maxreads": 3000, "start": rng.randint(0, 17)})
    return herds


def judge_herds(chk, herds, tracedir):
    """TLC (Metrics_Trace) judges the reads recorded from the real counter."""
    lines, reads, overlapping = [], 0, 0
    for h in herds:
        if not os.path.exists(h["trace"]):
            raise vlib.Inconclusive("herd %d left no trace" % h["id"])
        with open(h["trace"]) as fh:
            for line in fh:
                if line.strip():
                    lines.append(line.strip())
                    ev = json.loads(line)
                    if ev["ev"] == "read":
                        reads += 1
                        overlapping += ev["hi"] > ev["lo"]
    if reads < 50 * len(herds) or overlapping < reads // 4:
        chk.fail("vacuous herds: %d reads, %d of them overlapping an Inc" % (reads, overlapping))
        return
    r = vlib.tlc(MET, "Metrics_Trace", "Trace.cfg", workers=1, timeout=900, files={"herd.ndjson": "\n".join(lines) + "\n"})
    chk.add_tlc(r)
    verdicts = [p for p in r.prints if isinstance(p, dict) and "rejected_at" in p]
    summary = [p for p in r.prints if isinstance(p, dict) and "judged" in p]
    if r.error == "invariant:WindowLemma":
        chk.fail("spec/Metrics: WindowLemma does not hold (ReadOKFast is not ReadOK)")
        return
    if r.error not in (None, "invariant:Judge") or not summary or summary[0]["judged"] != len(lines):
        raise vlib.Inconclusive("trace judgement failed: %s\n%s" % (r.error, r.out[-2000:]))
    if (r.error is None) != (not verdicts):
        raise vlib.Inconclusive("trace judgement inconsistent: error=%s, %d rejected events" % (r.error, len(verdicts)))
    by_id = {h["id"]: h for h in herds}
    bad = set()
    for v in verdicts:
        ev = v["event"]
        bad.add(v["herd"])
        cls = CLASS.get(v["clause"], v["clause"])
        sig = "C19/counter:%s/callers:Inc||Inc(%s)/class:%s" % (ev["ctr"].split("{")[0], ev.get("mode", "?"), cls)
        if ev["ev"] == "read":
            what = ("a read of the real counter (Gather or Metric.Write) that began after %d Incs had returned and ended when %d Incs had been invoked "
                    "published %d (%s; %d such reads in this herd of %d goroutines)" % (ev["lo"], ev["hi"], ev["obs"], v["clause"], v["count"], by_id[v["herd"]]["G"]))
        else:
            what = "after all %d Incs had returned the registry publishes %d (%s)" % (ev["n"], ev["obs"], v["clause"])
        chk.violation(sig, what, {"part": "counter-herd", "herd": by_id[v["herd"]], "event": ev, "clause": v["clause"]})
    chk.cov["traces_validated_against_impl"] += len(herds) - len(bad)
    chk.note("herds: %d, reads judged by TLC: %d (%d overlap an Inc), rejected herds: %d" % (len(herds), reads, overlapping, len(bad)))
    chk.cov["c19_counter_herd_reads"] = reads


def run_counter_part(chk, args):
    q = chk.tier == "quick"
    binary = _Bg(_counter_binary)
    # 1. the concurrent object, model-checked
    expect = [("MC_pinned.cfg", "violated"), ("MC_pinned_locked.cfg", "holds"), ("MC_total.cfg", "holds"), ("MC_total_locked.cfg", "holds")]
    if not q:
        expect += [("MC_total_mid.cfg", "holds"), ("MC_total_locked_mid.cfg", "holds"), ("MC_total_big.cfg", "holds"), ("MC_pinned_locked_big.cfg", "holds")]
    for cfg, want in expect:
        r = vlib.tlc(MET, "Metrics", cfg, workers=min(8, vlib.NCPU), timeout=1500, keep_prints=False)
        chk.add_tlc(r)
        chk.note("TLC Metrics %s: %d distinct states, %s (%.0fs)" % (cfg, r.distinct, r.error or "no error", r.wall))
        if want == "holds" and r.error:
            chk.fail("spec/Metrics %s: %s - the model of the counter in /repo must satisfy C19\n%s" % (cfg, r.error, r.out[-1500:]))
            return
        if want == "violated" and not (r.error or "").startswith("invariant:"):
            chk.fail("spec/Metrics %s: the pinned check-then-add Inc was expected to violate the invariants (D13); got %s" % (cfg, r.error))
            return
    if not q:
        import unbounded    # thorough-tier extra (tlapm proof of the rounding law, Apalache inductive invariant of the counter); can only add a note
        unbounded.metrics_law(chk)
    # 2. law and rollover cases, enumerated by TLC with their expected figures
    r = vlib.tlc(MET, "Metrics", "Cases_quick.cfg" if q else "Cases_thorough.cfg", workers=1, timeout=900)
    chk.add_tlc(r)
    if r.error:
        chk.fail("spec/Metrics case generation: %s\n%s" % (r.error, r.out[-1500:]))
        return
    cases = [c for c in r.prints if isinstance(c, dict) and c.get("kind") in ("law", "roll")]
    laws = [c for c in cases if c["kind"] == "law"]
    if len(laws) < 60 or len(cases) - len(laws) < 40:
        chk.fail("vacuous: %d law and %d rollover cases" % (len(laws), len(cases) - len(laws)))
        return
    chk.sample(laws[len(laws) // 3])
    # 3. herds on the real counter
    tracedir = vlib.scratch("c19-herd")
    herds = herd_params(chk, q)
    for h in herds:
        h["trace"] = os.path.join(tracedir, "herd-%d-%d.ndjson" % (os.getpid(), h["id"]))
    chk.note("TLC Metrics: %d law cases, %d rollover cases; %d herds" % (len(laws), len(cases) - len(laws), len(herds)))
    vlib.drive_cases(chk, binary.get(), COUNTER_TEST, cases + herds, [chk.seed], tag="c19ctr", timeout=1500)
    judge_herds(chk, herds, tracedir)
    chk.sample({"herd": {k: v for k, v in herds[0].items() if k != "trace"}})
    chk.cov["rule"] += (" | counters: law cases are TLC initial states of spec/Metrics (n in 0..25, the 8-boundaries up to 2^31-32, "
                        "8q+r for 2^31-1..2^33+1), each run through binCount, printMetrics (8 lines) and, up to IncMax, n real Incs on a "
                        "fresh counter of each of the 5 rounded vectors read back with Gather; non-trivial = n is not a multiple of 8; "
                        "rollover cases (n1, n2) non-trivial when both periods have events; every herd counts")
    chk.assumptions += ["spec/Metrics models sequentially consistent memory; the pinned Inc's plain reads are racy in Go's memory model (the real pinned code may only be worse)",
                        "a herd read is bracketed by harness counters (completed before Gather, started after): sound, but a window of hundreds of Incs hides errors smaller than the window; exactness is checked at quiescence",
                        "counts beyond 2^53 are not examined (binCount rounds in float64; such counts are unreachable in a measurement period)"]


# --------------------------------------------------------------------------
# journal

def journal_configs(quick):
    if quick:
        # Faults_quick = Scripts_quick plus up to two failed journal Writes and one failed Sync per behaviour
        return [("Faults_quick.cfg", 5000), ("Layouts_quick.cfg", 10000), ("FaultLayouts_quick.cfg", 3000), ("Order_quick.cfg", 3000), ("Keys.cfg", 90), ("Layouts_large.cfg", 20)]
    return [("Scripts_thorough.cfg", 30000), ("Faults_thorough.cfg", 50000), ("FaultLayouts_thorough.cfg", 40000), ("Order_thorough.cfg", 30000), ("Order_four.cfg", 20000), ("Layouts_thorough.cfg", 30000), ("Layouts_wide.cfg", 10000), ("Layouts_medium.cfg", 1000),
            ("Layouts_large.cfg", 20), ("Layouts_dense.cfg", 3), ("Keys.cfg", 90), ("Keys_medium.cfg", 10)]


def _journal_driver():
    return vlib.go_build("./cmd/journaldrv", "journaldrv", go=vlib.GO_NEW, linkflag=False)


def run_journal_part(chk, args):
    q = chk.tier == "quick"
    drv = _Bg(_journal_driver)
    total = 0
    cfgs = journal_configs(q)
    # quick: all TLC runs at once (one worker each; vlib.tlc is thread-safe), then the driver runs; thorough: one
    # configuration at a time, so that only one configuration's cases are in memory
    ahead = {}
    if q:
        ahead = {cfg: _Bg(lambda cfg=cfg: vlib.tlc(JOU, "Journal", cfg, workers=1, timeout=2400)) for cfg, _ in cfgs}
    # teeth: the variant that stamps lastWriteTime although the journal Write failed must break StampCoversContent
    r = vlib.tlc(JOU, "Journal", "Stamp_before_write.cfg", workers=1, timeout=900, keep_prints=False)
    chk.add_tlc(r)
    for b in ahead.values():
        b.t.join()
    if r.error != "invariant:StampCoversContent":
        chk.fail("spec/Journal Stamp_before_write.cfg: the stamp-before-write variant was expected to violate StampCoversContent, got %s" % r.error)
        return
    faulty = unordered = 0
    for cfg, least in cfgs:
        # one TLC run both model-checks the writer machine on every script of the
        # configuration (invariants) and prints the cases (Emit needs one worker)
        r = ahead[cfg].get() if cfg in ahead else vlib.tlc(JOU, "Journal", cfg, workers=1, timeout=2400)
        chk.add_tlc(r)
        if r.error:
            chk.fail("spec/Journal %s: %s - the writer model must satisfy its invariants\n%s" % (cfg, r.error, r.out[-1500:]))
            return
        cases = [c for c in r.prints if isinstance(c, dict) and c.get("kind") in ("window", "keys")]
        if len(cases) < least:
            chk.fail("vacuous: %s produced only %d cases" % (cfg, len(cases)))
            return
        faulty += sum(1 for c in cases if c.get("fails"))
        unordered += sum(1 for c in cases if c["kind"] == "window" and c["expect"]["included"] > 0
                         and c["order"] != list(range(1, len(c["chunks"]) + 1)))
        inside = [c for c in cases if c["kind"] == "window" and 0 < c["expect"]["included"] < len(c["chunks"])]
        if inside:
            chk.sample(inside[len(inside) // 2])
        s = vlib.drive_cases(chk, drv.get(), ["run"], cases, [chk.seed], tag="c19jrn", timeout=2400, env=vlib.goenv(JOURNAL_ENV))
        total += len(cases)
        chk.note("TLC Journal %s: %d states, %d cases (%.0fs); driver: %d evaluations on %d writer scripts" % (
            cfg, r.distinct, len(cases), r.wall, s.get("cases", 0), s.get("plans", 0)))
    chk.cov["c19_journal_cases"] = total
    chk.cov["c19_journal_cases_with_write_fault"] = faulty
    chk.cov["c19_journal_cases_out_of_order"] = unordered
    if unordered < 500:
        chk.fail("vacuous: only %d journal cases read a non-chronological journal with a chunk inside the window" % unordered)
        return
    if faulty < 1000:
        chk.fail("vacuous: only %d journal cases contain a failed write" % faulty)
        return
    chk.cov["rule"] += (" | journal: cases are behaviours of spec/Journal (a writer script, then a window): every script up to the configured "
                        "length over AddIP/Wait/Flush with up to two failed journal Writes and one failed Sync placed at every write attempt, structured layouts of <= 3 chunks read in every permutation / with a repeated line / doubled, and structured layouts of <= 3 chunks with contents over 2-3 address blocks x every "
                        "before/equal/after placement of both window ends at every chunk boundary; each script runs on the real ClusterWriter "
                        "under the fake clock (1 ns ticks and a coarser unit) and its chunk boundaries must equal the model's; non-trivial = "
                        "the window contains at least one chunk; masking-key cases all count")
    chk.assumptions += ["journal: fake clock of testing/synctest (go1.26.8, asynctimerchan=0); a block of addresses is added at one instant",
                        "journal: 'exactly for small sets' is demanded up to 100 addresses on address pools the driver has first shown to be collision-free in the sketch (all of them in one chunk are counted exactly; about one pool in 20 000 is not); beyond that |estimate - exact| <= max(1, 2 %)",
                        "journal: a failing Write writes nothing and fails for a whole script step (every address of a block meets it); torn lines and malformed journals are not modelled; Dump/Marshal errors cannot be injected"]


# --------------------------------------------------------------------------
# replay of a violation reported by one of the two parts

def replay_part(chk, rp):
    """Re-executes a replay object written by these parts; returns False if it is not one of theirs."""
    if rp.get("part") == "counter-herd":
        h = dict(rp["herd"])
        h["trace"] = os.path.join(vlib.scratch("c19-herd"), "replay-%d.ndjson" % os.getpid())
        vlib.drive_cases(chk, _counter_binary(), COUNTER_TEST, [h], [chk.seed], tag="c19replay")
        judge_herds_replay(chk, [h])
        return True
    drv = rp.get("driver", "")
    if drv == "journaldrv":
        vlib.drive_cases(chk, _journal_driver(), ["run"], [rp["case"]], [chk.seed], tag="c19replay", env=vlib.goenv(JOURNAL_ENV))
        return True
    if drv.startswith("broker-rig") and any("TestVerifC19Counters" in a for a in rp.get("args", [])):
        if rp.get("case") is None:
            r = vlib.tlc(MET, "Metrics", "Cases_quick.cfg", workers=1, timeout=900)
            cases = [c for c in r.prints if isinstance(c, dict) and c.get("kind") in ("law", "roll")]
        else:
            cases = [rp["case"]]
        vlib.drive_cases(chk, _counter_binary(), COUNTER_TEST, cases, [chk.seed], tag="c19replay")
        return True
    return False


def judge_herds_replay(chk, herds):
    # a single herd may be short of reads; judge whatever it recorded
    lines = []
    for h in herds:
        with open(h["trace"]) as fh:
            lines += [l.strip() for l in fh if l.strip()]
    r = vlib.tlc(MET, "Metrics_Trace", "Trace.cfg", workers=1, timeout=900, files={"herd.ndjson": "\n".join(lines) + "\n"})
    chk.add_tlc(r)
    for v in [p for p in r.prints if isinstance(p, dict) and "rejected_at" in p]:
        ev = v["event"]
        sig = "C19/counter:%s/callers:Inc||Inc(%s)/class:%s" % (ev["ctr"].split("{")[0], ev.get("mode", "?"), CLASS.get(v["clause"], v["clause"]))
        chk.violation(sig, "replayed herd: %s at %s" % (v["clause"], json.dumps(ev)), {"part": "counter-herd", "herd": herds[0], "event": ev})
