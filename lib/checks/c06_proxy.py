"""C06 part (d) - a proxy never opens a relay connection to a broker-supplied
URL whose hostname fails its own pattern, or whose scheme is not wss unless
non-TLS relays were explicitly allowed.

Not a registered check of its own: lib/checks/c06.py calls
run_proxy_part(chk, args).  The expected table (pattern x flag x URL class ->
accepted?, which listener may be contacted) is printed by TLC from the
operators Accepted / Target of spec/ProxySession (Policy.cfg); the real
SnowflakeProxy.Start() is run against a tampering scripted broker
(harness/inpkg/proxy_lib, TestVerifC06dRelayPolicy) and the TCP connections
seen by the decoy listeners plus every name handed to the dialer are compared
with the table."""
import json
import os

import vlib
import proxyrig as pr

TEST = "TestVerifC06dRelayPolicy"
# classes for which an accepted offer normally ends in a TCP connection (used only against vacuity)
DIALABLE = {"in_wss", "in_ws", "in_port", "sub_wss", "glue_wss", "upper_wss", "out_wss", "out_ws", "out_inpath", "empty"}


def expected_table(chk):
    r = vlib.tlc(pr.SPECDIR, "ProxySession", "Policy.cfg", workers=1, timeout=300)
    chk.add_tlc(r)
    if r.error:
        raise vlib.Inconclusive("policy table emission failed: %s" % r.error)
    tab = {}
    for p in r.prints:
        if isinstance(p, dict) and "class" in p:
            tab[(p["pattern"], bool(p["allow"]), p["class"])] = p
    if len(tab) != 3 * 2 * len(pr.ALL_CLASSES):
        raise vlib.Inconclusive("policy table has %d rows, expected %d" % (len(tab), 3 * 2 * len(pr.ALL_CLASSES)))
    return tab


def make_plans(seed, quick):
    plans = []
    rounds = 1 if quick else 2
    for rnd in range(rounds):
        for pi, pat in enumerate(("suffix", "exact", "any")):
            for allow in (False, True):
                cl = list(pr.ALL_CLASSES)
                rot = (seed * 7 + pi * 3 + (1 if allow else 0) + rnd * 5) % len(cl)
                cl = cl[rot:] + cl[:rot]
                if rnd == 1:
                    cl.reverse()
                k = 3
                for c in range(k):
                    chunk = cl[c::k]
                    plans.append({"name": "c06d-%s-%s-r%d-%d" % (pat, "allow" if allow else "tls", rnd, c), "capacity": 1 + (seed + c + rnd) % 3,
                                  "pattern": pat, "allow": allow, "seed": seed, "cases": chunk, "wait_ms": 30000, "steps": []})
    return plans


def observe(events):
    """Per case: what happened between case.begin and case.end."""
    cases, cur = [], None
    for e in events:
        ev = e.get("ev")
        if ev == "case.begin":
            cur = {"case": e["case"], "cls": e["cls"], "url": e.get("url"), "tcp": [], "dial": [], "dh_dial": [], "exit": [], "done": False}
            cases.append(cur)
        elif cur is None:
            if ev in ("tcp.accept", "net.dial", "dh.dial"):
                cases.append({"case": -1, "cls": "<before the first case>", "tcp": [e.get("which")] if ev == "tcp.accept" else [],
                              "dial": [e.get("which")] if ev == "net.dial" else [], "dh_dial": [e.get("url")] if ev == "dh.dial" else [],
                              "exit": [], "done": True, "url": None})
        elif ev == "tcp.accept":
            cur["tcp"].append(e["which"].replace("-tls", ""))
        elif ev == "net.dial":
            cur["dial"].append(e["which"])
        elif ev == "dh.dial":
            cur["dh_dial"].append(e.get("url"))
        elif ev == "rs.exit":
            cur["exit"].append(e.get("kind"))
        elif ev == "case.end":
            cur["done"] = True
    return cases


def run_proxy_part(chk, args):
    """Returns a summary dict; reports violations / inconclusive results through chk."""
    quick = chk.tier == "quick"
    tab = expected_table(chk)
    binary = pr.build()
    if getattr(args, "replay", None):
        with open(args.replay) as fh:
            rp = json.load(fh)["replay"]
        if rp.get("part") != "proxy":
            return None
        plans = [rp["plan"]]
    else:
        plans = make_plans(chk.seed, quick)
    outs = pr.run_plans(binary, TEST, plans, parallel=18, timeout=260)
    summary = {"cases": 0, "accepted_cases": 0, "rejected_cases": 0, "connections": {"inside": 0, "outside": 0, "default": 0, "other": 0}, "skipped": 0}
    dialable_without_connection = []
    for out in outs:
        ev = out.events
        if any(e.get("ev") == "skip" for e in ev):
            summary["skipped"] += 1
            continue
        if out.timed_out or not ev or any(e.get("ev") in ("harness.error", "diverged") for e in ev) or not any(e.get("ev") == "end" for e in ev):
            why = [e for e in ev if e.get("ev") in ("harness.error", "diverged")]
            chk.fail("C06(d) %s: rig did not complete (%s)\n%s" % (out.plan["name"], why[:1], out.out[-1200:]))
            continue
        pat, allow = out.plan["pattern"], out.plan["allow"]
        for c in observe(ev):
            if c["case"] < 0:
                chk.violation("C06/proxy-dial/before-any-offer", "the proxy contacted a relay before any offer: %s" % json.dumps(c),
                              {"part": "proxy", "plan": out.plan, "observed": c})
                continue
            if not c["done"]:
                chk.fail("C06(d) %s: case %s not completed" % (out.plan["name"], c["cls"]))
                continue
            exp = tab[(pat, allow, c["cls"])]
            summary["cases"] += 1
            chk.cov["evaluations"] += 1
            if c["cls"] != "in_wss":
                chk.cov["distinct_nontrivial"] += 1
            contacted = sorted(set(c["tcp"]) | set(c["dial"]))
            allowed = {exp["target"]} if exp["may_dial"] else set()
            bad = [w for w in contacted if w not in allowed]
            if (not exp["may_dial"]) and c["dh_dial"]:
                bad.append("dial-attempt")
            if bad:
                chk.violation("C06/proxy-dial/%s/pattern=%s/allow=%s/at=%s" % (c["cls"], pat, str(allow).lower(), "+".join(sorted(set(bad)))),
                              "proxy with pattern %s, AllowNonTLSRelay=%s was handed relay URL %r (class %s): expected %s, observed connections %s, dialer asked for %s, handler dial %s"
                              % (pat, allow, c["url"], c["cls"], json.dumps(exp), c["tcp"], c["dial"], c["dh_dial"]),
                              {"part": "proxy", "plan": dict(out.plan, cases=[c["cls"]]), "observed": c, "expected": exp})
            if exp["accepted"]:
                summary["accepted_cases"] += 1
                if c["cls"] in DIALABLE and not c["tcp"]:
                    dialable_without_connection.append((pat, allow, c["cls"]))
            else:
                summary["rejected_cases"] += 1
            for w in c["tcp"]:
                summary["connections"][w] = summary["connections"].get(w, 0) + 1
            chk.sample({"pattern": pat, "allow": allow, "class": c["cls"], "url": c["url"], "expected": exp,
                        "observed_tcp": c["tcp"], "dialer_names": c["dial"]}, limit=3)
    if summary["skipped"]:
        chk.cov.setdefault("skipped_clauses", []).append("C06(d) proxy runs: no non-loopback interface (%d processes)" % summary["skipped"])
    elif not getattr(args, "replay", None) and not chk.violations:
        # vacuity: the decoys must be able to see connections, inside, outside and at the operator's own relay
        conn = summary["connections"]
        if conn["inside"] == 0 or conn["outside"] == 0 or conn["default"] == 0:
            chk.fail("C06(d) vacuity: decoy connections seen %s (need some at inside, outside (pattern $) and default)" % conn)
        if dialable_without_connection:
            chk.fail("C06(d) vacuity: accepted, dialable classes that never produced a connection: %s" % dialable_without_connection[:6])
    chk.note("C06(d): %d cases (%d accepted, %d rejected by the table), connections %s" % (
        summary["cases"], summary["accepted_cases"], summary["rejected_cases"], summary["connections"]))
    chk.assumptions.append("C06(d): relay names are resolved by a name table installed as NetDial of gorilla's default dialer (stand-in for DNS); "
                           "a TLS relay is observed at TCP level only (the decoy certificate is not trusted, so the handshake fails after the connection)")
    return summary
