"""C18, proxy side - the relay (and through it the bridge) is told the client
address derived from the session's OWN offer, or none: never another session's.

Not a registered check of its own: lib/checks/c18.py calls
run_proxy_addr_part(chk, args).  spec/ProxySession carries per session `addr`
(what remoteIPFromSDP derives from the offer: none / an address only this
session has / the real one) and `told` (the client_ip the relay was told), and
the invariant ToldAddrRight.  Behaviours (goal-directed paths of the dot dumps
of Gen_addr.cfg: sessions on the operator's default relay and on broker-named
URLs, alternating with / without a derivable address, and two sessions at once
at capacity 2) are replayed against the real SnowflakeProxy.Start() with the
C16 rig; the harness pion client's offer is rewritten per behaviour (an extra
first candidate with a distinguishing address, or no usable candidate at all);
the relay listeners record the client_ip query parameter of every WebSocket
request; TLC validates the recorded log against ProxySession_Trace, where
`told` takes the observed value."""
import concurrent.futures
import json

import vlib
import proxyrig as pr
from checks import c16

TEST = c16.TEST


def O(cls, addr):
    return 'Offer("%s","good","%s")' % (cls, addr)


def served(k, cls, addr):
    """goal fragment: session k gets this offer, is relayed, and ends"""
    return [O(cls, addr), "RelayAccept(%d)" % k, "RelayEnd(%d)" % k, "HandlerReleaseTake(%d)" % k]


def goals(seed):
    """(graph, name, capacity, goal list).  Graph A: capacity 1, three sessions one after the other, both URL
    classes.  Graph B: capacity 2, three sessions on the default relay, two at once."""
    named = "in_ws"
    seq1 = served(1, "empty", "own") + served(2, "empty", "none") + served(3, "empty", "own" if seed % 2 else "none")
    seq2 = served(1, "empty", "none") + served(2, "empty", "own") + served(3, "empty", "none")
    seq3 = served(1, named, "own") + served(2, named, "none") + served(3, "empty" if seed % 3 else named, "none")
    seq4 = served(1, "empty", "own") + served(2, named, "none") + served(3, "empty", "none")
    # two sessions with different addresses at once on the default relay, the first ends, a third without address joins the second
    conc = [O("empty", "own"), "RelayAccept(1)", O("empty", "own"), "RelayAccept(2)", "RelayEnd(1)", "HandlerReleaseTake(1)",
            O("empty", "none"), "RelayAccept(3)", "RelayEnd(2)", "RelayEnd(3)"]
    return [("A", "default-own-none", 1, seq1), ("A", "default-none-own-none", 1, seq2), ("A", "named-then-default", 1, seq3),
            ("A", "default-named-default", 1, seq4), ("B", "two-at-once-default", 2, conc)]


def told_summary(events):
    offers = {e["s"]: e for e in events if e.get("ev") == "resp" and e.get("kind") == "offer"}
    rows = []
    for e in events:
        if e.get("ev") == "relay.req":
            o = offers.get(e.get("s"), {})
            rows.append({"s": e.get("s"), "url_class": o.get("cls"), "offer_addr": o.get("addr"), "relay": e.get("which"),
                         "client_ip": e.get("client_ip"), "told": e.get("told"), "of": e.get("of")})
    return rows


def run_proxy_addr_part(chk, args):
    """Returns a summary dict; reports through chk."""
    binary = pr.build()
    if getattr(args, "replay", None):
        with open(args.replay) as fh:
            rp = json.load(fh)["replay"]
        if rp.get("part") != "proxy-addr":
            return None
        plans = [rp["plan"]]
    else:
        graphs = {
            "A": pr.dump_graph(chk, "Gen_addr.cfg", N=1, MaxSess=3),
            "B": pr.dump_graph(chk, "Gen_addr.cfg", N=2, MaxSess=3, Classes='{"empty"}'),
        }
        plans = []
        for gname, name, cap, gl in goals(chk.seed):
            steps = graphs[gname].path(gl, rot=chk.seed - 1)
            if steps is None:
                raise vlib.Inconclusive("vacuity: no behaviour of Gen_addr takes the goal %s" % name)
            plan = c16.mk_plan("c18-%s-n%d" % (name, cap), cap, steps, chk.seed)
            plan["wait_ms"] = 30000
            plans.append(plan)
        del graphs
    outs = pr.run_plans(binary, TEST, plans, parallel=len(plans), timeout=max(pr.cost_s(p["steps"]) for p in plans) + 120)
    summary = {"behaviours": 0, "relay_requests": 0, "told": {"absent": 0, "own": 0, "real": 0, "other": 0}, "default_relay_requests": 0, "skipped": 0}
    with concurrent.futures.ThreadPoolExecutor(max_workers=len(outs)) as ex:
        verdicts = list(ex.map(lambda o: c16.judge(o, pid="C18"), outs))
    for out, (status, sig, what) in zip(outs, verdicts):
        if getattr(out, "tlc", None) is not None:
            chk.add_tlc(out.tlc)
        rows = told_summary(out.events)
        if status == "skip":
            summary["skipped"] += 1
            continue
        if status == "broken":
            chk.fail("C18 proxy part %s: %s" % (out.plan["name"], what))
            continue
        if status == "ok":
            summary["behaviours"] += 1
            chk.cov["traces_validated_against_impl"] += 1
            chk.cov["evaluations"] += len(rows)
            chk.cov["distinct_nontrivial"] += sum(1 for r in rows if r["offer_addr"] == "none" or r["url_class"] == "empty")
            for r in rows:
                summary["relay_requests"] += 1
                summary["told"][r["told"]] = summary["told"].get(r["told"], 0) + 1
                if r["relay"] == "default":
                    summary["default_relay_requests"] += 1
            chk.sample({"behaviour": out.plan["name"], "relay_requests": rows}, limit=3)
            continue
        if "/ToldAddrRight/" in sig:
            bad = [r for r in rows if r["told"] == "own" and r["of"] != r["s"]]
            b = bad[0] if bad else {}
            sig = "C18/proxy-told/%s-instead-of-%s/relay=%s" % (
                "other-session" if b.get("told") == "own" else b.get("told"), b.get("offer_addr"), "default" if b.get("url_class") == "empty" else "named")
            what = "the relay was told client_ip=%s for session %s, whose offer yields %s (that address was made for session %s); requests: %s" % (
                b.get("client_ip"), b.get("s"), "no client address" if b.get("offer_addr") == "none" else "its own address", b.get("of"), json.dumps(rows))
            chk.violation(sig, "%s [behaviour %s]" % (what, out.plan["name"]), {"part": "proxy-addr", "plan": out.plan, "requests": rows})
        else:
            # anything else on these behaviours is C16's business; here it only means: no verdict for C18
            chk.fail("C18 proxy part %s: replay not accepted (%s: %s)" % (out.plan["name"], sig, what))
    if summary["skipped"]:
        chk.cov.setdefault("skipped_clauses", []).append("C18 proxy part: no non-loopback interface")
    elif not getattr(args, "replay", None) and not chk.violations and not chk.inconclusive:
        t = summary["told"]
        if t["own"] == 0 or t["absent"] == 0 or summary["default_relay_requests"] < 6:
            chk.fail("C18 proxy part vacuity: told=%s, default relay requests=%d" % (t, summary["default_relay_requests"]))
    chk.note("C18 proxy part: %d behaviours, %d relay requests, told %s, %d at the default relay" % (
        summary["behaviours"], summary["relay_requests"], summary["told"], summary["default_relay_requests"]))
    chk.assumptions.append("C18 proxy part: the client address the proxy derives is steered through the offer text only (an extra first candidate / "
                           "no usable candidate; ICE still connects through the real or peer-reflexive candidates); connections to the default "
                           "relay URL are attributed to sessions in dial order (the rig releases one handler at a time)")
    return summary
