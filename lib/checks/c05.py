"""C05 - the server binds packets to sessions by ClientID; sessions never mix.

spec/ServerMux: TLC model-checks the attribution design (carriers x presented
ClientIDs x sessions x overlap/half-open/cut schedules x tokenless carriers).
ServerMux_Gen behaviours (tlc -simulate) are projected onto carrier schedules
and executed by harness/cmd/corerig against the real server/lib (real
websocketconn carriers through a fault-injecting forwarder, real
RedialPacketConn+kcp+smux clients).  The packet hooks srv.* and the harness
events are validated by TLC against ServerMux_Trace with the property
invariants evaluated on the logged values."""
import os
import random
import threading

import corerig
import vlib

LEVEL = "model_checking"
SPECDIR = os.path.join(vlib.SPEC, "ServerMux")
CLASSES = {"pre", "id", "bnd", "upmid", "downmid"}
TRACE_INVARIANTS = "TagIsPresented NoForeignInput DownOnlyToSameID OneAcceptPerSession NoTokenNoConn SetIsSanitised RemoteAddrRight NoFlags"


def model_check(chk, cfgs, out):
    """Design-level model checking (runs in a thread next to the rig)."""
    try:
        for cfg, workers in cfgs:
            r = vlib.tlc(SPECDIR, "MC_ServerMux", cfg, workers=workers, timeout=1500, keep_prints=False, heap="6g",
                         coverage=(chk.tier != "quick" and cfg in ("MC_t4.cfg", "MC_q2.cfg")))
            out.append((cfg, r))
    except Exception as e:      # reported by the caller
        out.append(("error", e))


def generate(chk, cfgs, num, depth, tagprefix, sizes=None, kinds=("cut", "cut", "cutcli")):
    """Behaviours of ServerMux_Gen -> scenarios."""
    import concurrent.futures
    scenarios, infos = [], []
    zeroff = [0]
    with concurrent.futures.ThreadPoolExecutor(max_workers=len(cfgs)) as ex:
        futs = [ex.submit(corerig.simulate, chk, SPECDIR, "ServerMux_Gen", cfg, num, depth, chk.seed * 1000 + ci) for ci, cfg in enumerate(cfgs)]
        allbehs = [f.result() for f in futs]
    for ci, cfg in enumerate(cfgs):
        behs = allbehs[ci]
        for bi, beh in enumerate(behs):
            rng = random.Random("%d/%s/%d" % (chk.seed, cfg, bi))
            name = "%s-%s-%d" % (tagprefix, cfg.replace(".cfg", ""), bi)
            sc, info = corerig.project_servermux(beh, rng, name=name, sizes=sizes, kinds=kinds)
            if sc.get("id_shape") == "zeroff":
                # the all-zero / all-0xff ClientIDs can be used once per server process (the server keeps the
                # KCP session and the outgoing queue of a ClientID long after its client is gone)
                zeroff[0] += 1
                if zeroff[0] > 1:
                    sc["id_shape"] = rng.choice(["lastbyte", "firstbyte", "prefix4"])
            sc["origin"] = {"module": "ServerMux_Gen", "config": cfg, "seed": chk.seed * 1000 + ci,
                            "steps": [[a, b] for a, b in beh if a.startswith(("G_", "S_Cut"))]}
            scenarios.append(sc)
            infos.append(info)
    return scenarios, infos


def judge(chk, pid, rigbin, scenarios, results, **kw):
    return corerig.judge(chk, pid, rigbin, scenarios, results, SPECDIR, "ServerMux_Trace", **kw)


def gap_scenario(name, cut_ms, gap_ms, cls, seed):
    """A real gap without any carrier: the session moves half of each stream,
    its carrier is cut cut_ms after it was opened, the next one arrives gap_ms
    later, then the other half follows.  One accepted connection, both streams
    continue (ServerMux: SessionPersists, OneAcceptPerSession; byte prefixes)."""
    return {"name": name, "seed": seed, "bound_ms": 240000, "sessions": [
        {"up": 200000, "down": 200000, "resume_after_ms": cut_ms + gap_ms + 1000, "carriers": [
            {"label": "", "ip": "192.0.2.7", "pres": "id", "fault": {"kind": "cut", "dir": "up", "cls": "time", "nth": 0, "after_ms": cut_ms}},
            {"label": "", "ip": "2001:db8::5", "pres": "id", "delay_ms": gap_ms, "gap_class": cls}]}],
        "origin": {"module": "ServerMux", "steps": [["S_Cut", [1, "bnd"]], ["S_Detach", [1]], ["S_Gap", ["A", cls]], ["S_Open", [2]]]}}


def long_gaps(chk, rigbin, scs, out):
    """Runs next to the main batch (a thread): real time is the only thing that
    exposes a session layer that gives up inside the retention."""
    try:
        results, summary, o, races = corerig.run_rig(rigbin, scs, par=len(scs), bound_ms=240000, timeout=600, tag="gaps")
        out["results"], out["summary"] = results, summary
    except Exception as e:
        out["error"] = e


def run(chk, args):
    q = chk.tier == "quick"
    rigbin = vlib.go_build("./cmd/corerig", "corerig", linkflag=True)
    if args.replay:
        return replay(chk, rigbin, args.replay)
    # 1. design-level model checking, next to everything else
    if q:
        mc_cfgs = [("MC_q1.cfg", 6), ("MC_q2.cfg", 6), ("MC_live.cfg", 2), ("MC_live2.cfg", 2)]
    else:
        mc_cfgs = [("MC_q1.cfg", 8), ("MC_q2.cfg", 8), ("MC_live.cfg", 2), ("MC_live2.cfg", 2), ("MC_t4.cfg", 8),
                   ("MC_t1.cfg", 10), ("MC_t2.cfg", 10), ("MC_t3.cfg", 10)]
    mc_out = []
    th = threading.Thread(target=model_check, args=(chk, mc_cfgs, mc_out))
    th.start()
    # real gaps INSIDE the one-minute retention but beyond the session layer's default keep-alive timeout
    # (30 s): a session that loses its carrier 6 s after it started and gets the next one 55 s later (quick
    # and thorough), one that loses it after 27 s for 34 s (thorough).  A give-up needs two keep-alive ticks,
    # i.e. it cannot show before 60 s after the session started - that is the price of this clause.
    gap_scs = [gap_scenario("c05-gap55", 6000, 55000, "beyondKeepalive", chk.seed)]
    if not q:
        gap_scs.append(gap_scenario("c05-gap34", 27000, 34000, "beyondKeepalive", chk.seed))
        # and one LONGER than the retention: the session's outgoing queue expires, the session must survive
        gap_scs.append(gap_scenario("c05-gap61", 2000, 61000, "beyondRetention", chk.seed))
    gap_out = {}
    gth = threading.Thread(target=long_gaps, args=(chk, rigbin, gap_scs, gap_out))
    gth.start()
    # 2. behaviours -> scenarios
    num = 60 if q else 400
    scenarios, infos = generate(chk, ["Gen_a.cfg", "Gen_b.cfg", "Gen_c.cfg"], num, 90, "c05")
    classes = set().union(*[i["classes"] for i in infos])
    chk.note("%d behaviours of ServerMux_Gen -> scenarios (%d carriers, %d cuts, %d gaps, classes %s)" % (
        len(scenarios), sum(i["carriers"] for i in infos), sum(i["cuts"] for i in infos), sum(i["gaps"] for i in infos), sorted(classes)))
    chk.cov["gaps_shorter_than_retention"] = sum(i["gaps"] for i in infos)
    chk.cov["gap_classes_in_behaviours"] = sorted(set().union(*[i["gapclasses"] for i in infos]))
    if set(chk.cov["gap_classes_in_behaviours"]) != {"short", "beyondKeepalive", "beyondRetention"}:
        chk.fail("vacuous: gap classes generated: %s" % chk.cov["gap_classes_in_behaviours"])
    shapes = {}
    for sc in scenarios:
        if sc.get("id_shape"):
            key = sc["id_shape"] + ("+conv" if sc.get("conv_equal") else "")
            shapes[key] = shapes.get(key, 0) + 1
    chk.cov["clientid_shapes"] = shapes
    chk.note("ClientID byte classes of the two-session scenarios: %s" % shapes)
    base = {k.split("+")[0] for k in shapes}
    if not {"lastbyte", "firstbyte", "prefix4", "zeroff"} <= base or not any(k.endswith("+conv") and not k.startswith("random") for k in shapes):
        chk.fail("vacuous: ClientID classes generated: %s" % sorted(shapes))
    if classes != CLASSES:
        chk.fail("vacuous: cut classes %s never generated" % sorted(CLASSES - classes))
    # 3. the rig
    results, summary, out, races = corerig.run_rig(rigbin, scenarios, par=48 if q else 64, timeout=900)
    chk.note("core rig: %d scenarios, %d done, %d stalled, %d faults fired, %d dials, %.1f MiB, %.1fs" % (
        summary["cases"], summary["done"], summary["stalled"], summary["faults"], summary["dials"], summary["bytes"] / 1048576.0, summary["wall_ms"] / 1000.0))
    if summary.get("orphans"):
        chk.violation("C05/orphan-hook-event", "the server logged events for carriers or ClientIDs that no scenario created: %s" % summary["orphans"][:3],
                      {"orphans": summary["orphans"][:20]})
    # 4. TLC judges the traces
    bad, stalled = judge(chk, "C05", rigbin, scenarios, results)
    gth.join()
    if "error" in gap_out:
        raise gap_out["error"]
    judge(chk, "C05", rigbin, gap_scs, gap_out["results"], bound_ms=240000)
    chk.cov["real_gaps_inside_retention"] = {n: {"done": r["done"], "wall_ms": r["wall_ms"]} for n, r in gap_out["results"].items()}
    chk.note("real gaps inside the retention: %s" % chk.cov["real_gaps_inside_retention"])
    if not all(r["done"] or r.get("stalled") or any(e["ev"] in ("app.rerr", "app.werr") for e in r["events"]) for r in gap_out["results"].values()):
        chk.fail("a gap scenario neither completed nor failed visibly")
    results = dict(results, **gap_out["results"])
    scenarios = scenarios + gap_scs
    # thorough: the same under the race detector (monitor only) and the 5-carrier plan by simulation
    if not q:
        racebin = vlib.go_build("./cmd/corerig", "corerig-race", linkflag=True, race=True)
        sub = scenarios[:: max(1, len(scenarios) // 150)]
        for s in sub:
            s = dict(s)
        r2, sum2, out2, races = corerig.run_rig(racebin, [dict(s, name=s["name"] + "-race") for s in sub], par=24, timeout=1500, tag="race")
        chk.note("race build: %d scenarios, %d done, %d race reports" % (sum2["cases"], sum2["done"], races))
        chk.cov["race_reports"] = races
        if races:
            import re
            fns = sorted(set(re.findall(r"^  ([\w./()*]+)\(\)\n", out2, re.M)))[:12]
            chk.note("RACE functions: %s" % fns)
            chk.cov["race_functions"] = fns
        judge(chk, "C05", racebin, [dict(s, name=s["name"] + "-race") for s in sub], r2)
        r5 = vlib.tlc(SPECDIR, "MC_ServerMux", "MC_five.cfg", workers=12, simulate="num=4000", depth=120, seed=chk.seed, timeout=600, keep_prints=False)
        chk.add_tlc(r5)
        if r5.error:
            chk.fail("simulation of the 5-carrier plan violates %s in the model" % r5.error)
    th.join()
    taken = {}
    for cfg, r in mc_out:
        if cfg == "error":
            raise r
        chk.add_tlc(r)
        chk.note("TLC %s: %d distinct states, error=%s (%.0fs)" % (cfg, r.distinct, r.error, r.wall))
        if r.error:
            chk.fail("model check %s failed in the model alone: %s\n%s" % (cfg, r.error, r.out[-1500:]))
        if r.coverage:
            for a, (d, t) in r.coverage.items():
                if a.startswith("S_"):
                    taken[a] = taken.get(a, 0) + t
    zero = sorted(a for a, t in taken.items() if t == 0)
    if taken:
        chk.cov["coverage_zero_actions"] = zero
        if zero:
            chk.fail("vacuity: actions never taken in any configuration run with -coverage: %s" % zero)
    # evidence
    nontrivial = sum(1 for n, r in results.items() if r.get("faults", 0) > 0 or len(by(scenarios, n)["sessions"]) > 1 or by(scenarios, n).get("extras"))
    chk.cov["evaluations"] = len(results)
    chk.cov["distinct_nontrivial"] = nontrivial
    chk.cov["rule"] = ("one evaluation = one ServerMux_Gen behaviour executed on the real server and validated by TLC; non-trivial = at least one "
                       "carrier fault fired, or two sessions ran concurrently, or an extra carrier (second carrier of a live session, "
                       "wrong/short token, death inside the preamble) was opened")
    chk.cov["faults_fired"] = summary["faults"]
    chk.cov["carriers_dialled"] = summary["dials"]
    chk.cov["cut_classes"] = sorted(classes)
    chk.cov["stalled_then_reproduced"] = len([v for v in chk.violations if "/stall/" in v[0]])
    chk.cov["exhaustive"] = False
    for n in sorted(results)[:2]:
        sc = by(scenarios, n)
        chk.sample({"scenario": {k: sc[k] for k in ("name", "sessions", "extras", "order")}, "events": len(results[n]["events"]),
                    "faults_fired": results[n]["faults"], "done": results[n]["done"]})
    chk.assumptions += [
        "kcp-go and smux are third-party: KCP sessions are keyed by the tag and deliver a stream once (modelled, not verified)",
        "the model client uses a copy of client/lib's unexported encapsulationPacketConn (same common/encapsulation calls); the real one runs in the C01 system rig",
        "one-minute retention is an environment event (Expire) in the model; a real 60 s gap is not waited for",
        "ClientIDs are distinct per session (64 random bits in the real client)",
        "hook events are ordered by a recorder mutex; the two accesses of the address memory are bracketed by before/after events so that no order between goroutines is assumed",
    ]


def by(scenarios, name):
    for s in scenarios:
        if s["name"] == name:
            return s
    return {"sessions": [], "extras": []}


def replay(chk, rigbin, path):
    import json
    with open(path) as fh:
        rp = json.load(fh)["replay"]
    sc = rp["scenario"]
    results, summary, out, races = corerig.run_rig(rigbin, [sc], par=1, timeout=300, tag="replay")
    judge(chk, "C05", rigbin, [sc], results)
    chk.cov["evaluations"] = 1


MANIFEST = {
    "technique": "TLA+ spec ServerMux (carriers x ClientIDs x sessions, one-place slots, half-open carriers, bad tokens) model-checked by TLC; ServerMux_Gen behaviours replayed as carrier schedules into the real server/lib through real WebSocket carriers and a byte-position-aware forwarder; hook traces validated by TLC against ServerMux_Trace",
    "text": "TLC checks TagIsPresented, DownOnlyToSameID, OneAcceptPerSession, NoTokenNoConn (and RemoteAddrRight) exhaustively on 3-4 carrier plans (5 by simulation) with two sessions. Seeded TLC behaviours decide carrier order, what each presents and where it is cut (before the token, inside the ClientID, frame boundary, inside a prefix, inside a body; half-open; second carrier of a live session; wrong/short token); the real server runs them and every srv.attach/in/out/accept event, each packet's KCP conversation owner, every byte read on accepted connections is judged by TLC against the specification's invariants.",
    "note": "Schedules are sampled (tlc -simulate), not exhaustive; exhaustive part is the design model (<=4 carriers, 2 ids, 1-2 segments). The 60 s retention is not waited for. KCP/smux trusted as a reliable stream keyed by the tag.",
}


# --- extension part built separately: the listener life cycle (spec/Listener), see notes/Listener.md -------------
_run_core = run


def run(chk, args):
    import json as _json
    only = set(args.only.split(",")) if args.only else None
    if args.replay:
        with open(args.replay) as fh:
            rp = _json.load(fh)["replay"]
        if isinstance(rp, dict) and rp.get("kind") == "listener":
            from checks import c05_listener
            return c05_listener.replay_part(chk, rp)
        if isinstance(rp, dict) and rp.get("kind") == "servermain":
            from checks import c05_servermain
            return c05_servermain.replay_part(chk, rp)
        return _run_core(chk, args)
    if only is None or only - {"listener", "servermain"}:
        _run_core(chk, args)
    if only is None or "listener" in only:
        from checks import c05_listener
        c05_listener.run_listener_part(chk, args)
    # the server binary around the listener: accept loop, per-connection handler, copy loops, stats thread,
    # shutdown (spec/ServerMain), see notes/ServerMain.md
    if only is None or "servermain" in only:
        from checks import c05_servermain
        c05_servermain.run_servermain_part(chk, args)


MANIFEST["note"] += ' Extension parts run with the check: Listener (spec/Listener: Transport.Listen/Accept/Close life cycle, --only listener) and ServerMain (spec/ServerMain: accept loop, handler, copy loops, stats thread and shutdown of the server binary, incl. the real main() in a child process, --only servermain).'
