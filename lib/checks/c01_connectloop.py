"""Fake-clock part for the client's collection loop (wired into c01.py / c15.py by the lead).

spec/ConnectLoop/ConnectLoop.tla        connectLoop + Peers.Collect/Pop/End with an EXPLICIT CLOCK.  TLC checks
                                        RecollectBound, CarrierGapBound, LoopStops, AfterEnd, NoCatchAfterEnd,
                                        AllClosedAfterEnd, Bound, StaleBound; the what-if constants Backoff (the seeded
                                        doubling after every Collect error), BackoffReal and LateTimer MUST violate
                                        RecollectBound / CarrierGapBound (sensitivity: otherwise exit 2).
spec/ConnectLoop/ConnectLoop_Gen.tla    generation sub-model for `tlc -simulate` (environment acts at rest).
spec/ConnectLoop/ConnectLoop_Trace.tla  trace specification; times come from the log (ms), the invariants judge them.

Binding: behaviours sampled by `tlc -simulate` (Max 1..3; advance time, kill / freeze a peer, switch the Tongue between
ok / rendezvous failure / data channel timeout, Pop, End; steady stretches of minutes to hours skipped by Idle(k)) and
the counterexample of the Backoff what-if stretched over a ladder of session ages are replayed into the REAL Peers and
the REAL connectLoop under the fake clock of testing/synctest (go1.26.8); every recorded trace is validated by TLC."""
import collections
import json
import os
import random
import re
import threading
import time

import vlib

LEVEL = "model_checking"
SPEC = os.path.join(vlib.SPEC, "ConnectLoop")
INPKG = os.path.join(vlib.HARNESS, "inpkg", "client_lib")
HFILES = [os.path.join(INPKG, "connectloop_clock_verif_test.go"), os.path.join(INPKG, "connectloop_clock_run_verif_test.go")]
UNIT_MS = 5000          # one unit of the generation model (RT = 2 units = 10 s, as in the trace configurations)
GEN_RT = 2
INVS = ["TRecollectBound", "CarrierGapBound", "LoopStops", "AfterEnd", "NoCatchAfterEnd", "AllClosedAfterEnd", "Bound", "StaleBound", "CarrierLive"]
AGES_QUICK = [5, 123, 1803, 10803]                  # seconds of healthy session before the carrier dies
AGES_THOROUGH = AGES_QUICK + [37, 601, 3600 * 6 + 3, 3600 * 24 + 3]
MAX_REPORT = 6
KNOWN = []


# ------------------------------------------------------------------------------------------------
# model checking (own thread)

def _mc(box, cfg, workers, want=None, timeout=900):
    r = vlib.tlc(SPEC, "ConnectLoop", cfg, workers=workers, timeout=timeout)
    box["tlc"].append(r)
    if want is None:
        box["notes"].append("TLC ConnectLoop %s: %d distinct states, depth %d, %s (%.0fs)" % (cfg, r.distinct, r.depth, r.error or "no error", r.wall))
        if r.error:
            box["fail"].append("ConnectLoop: model check %s failed: %s\n%s" % (cfg, r.error, r.out[-2500:]))
        elif r.distinct < 1000:
            box["fail"].append("ConnectLoop: vacuity: %s explored only %d states" % (cfg, r.distinct))
    elif r.error not in want:
        box["fail"].append("ConnectLoop: sensitivity: %s should violate %s, TLC says %s (the check is vacuous)" % (cfg, "/".join(want), r.error))
    else:
        box["notes"].append("TLC ConnectLoop sensitivity %s: %s as expected" % (cfg, r.error))
    return r


def model_check(quick, box):
    w = max(2, vlib.NCPU // 4)
    jobs = [("MC_quick.cfg", w, None), ("MC_quick2.cfg", w, None),
            ("MC_backoff.cfg", 2, ("invariant:RecollectBound",)), ("MC_backoff_gap.cfg", 2, ("invariant:CarrierGapBound",)),
            ("MC_backoffreal.cfg", 2, ("invariant:RecollectBound",)), ("MC_latetimer.cfg", 2, ("invariant:RecollectBound",))]
    if not quick:
        jobs += [("MC_max1.cfg", max(4, vlib.NCPU // 2), None), ("MC_max2.cfg", w, None)]

    def one(j):
        try:
            _mc(box, *j)
        except vlib.Inconclusive as e:
            box["fail"].append(str(e))
        except Exception:  # noqa
            import traceback
            box["fail"].append("internal error in model check %s:\n%s" % (j[0], traceback.format_exc()))
    ths = [threading.Thread(target=one, args=(j,)) for j in jobs]
    for t in ths:
        t.start()
    for t in ths:
        t.join()


# ------------------------------------------------------------------------------------------------
# behaviours -> plans

def jitter(rng):
    return rng.choice([0, 0, 0, 1, -1, 999, 1250, 2500, 3000, 4999, -2500, -1250])


def plan_of(steps, rng, mx):
    """TLC action labels (parsed) of one ConnectLoop_Gen behaviour -> harness plan; time units -> ms with seeded jitter
    (the behaviour only proposes the commands: the recorded trace is judged from its own timestamps)"""
    out, units = [], 0

    def flush():
        nonlocal units
        if units:
            out.append({"op": "adv", "ms": max(0, units * UNIT_MS + jitter(rng))})
            units = 0
    for a in steps:
        n = a[0]
        if n == "GTick":
            units += 1
        elif n == "GIdle":
            units += a[1] * GEN_RT + 1
        elif n in ("GCode", "GStale", "GInit"):
            continue
        else:
            flush()
            if n == "GPopCall":
                out.append({"op": "pop"})
            elif n == "GEndCall":
                if out and out[-1]["op"] == "adv" and rng.random() < 0.5:
                    ms = out.pop()["ms"]
                    out.append({"op": "advend", "ms": ms - ms % UNIT_MS if rng.random() < 0.6 else ms})
                else:
                    out.append({"op": "end"})
            elif n == "GPeerDies":
                out.append({"op": "kill", "k": a[1]})
            elif n == "GFreeze":
                out.append({"op": "freeze", "k": a[1]})
            elif n == "GSetTongue":
                d = a[2] * UNIT_MS
                out.append({"op": "tongue", "cls": a[1], "dur": d + (rng.choice([0, 0, -1500, 700, 2500]) if d else 0)})
            else:
                raise vlib.Inconclusive("ConnectLoop: unknown generation label %r" % (a,))
    flush()
    return {"max": mx, "steps": out, "tail": 25000}


def gen_cfg(mx, jumps):
    with open(os.path.join(SPEC, "Gen_max%d.cfg" % mx)) as fh:
        return re.sub(r"Jumps = \{[^}]*\}", "Jumps = {%s}" % ", ".join(map(str, jumps)), fh.read())


def simulate(chk, mx, num, depth, jumps):
    d = vlib.scratch("cl-sim-%d" % mx)
    r = vlib.tlc(SPEC, "ConnectLoop_Gen", "Gen_max%d.cfg" % mx, workers=1, timeout=600, simulate="file=%s/b,num=%d" % (d, num),
                 depth=depth, seed=chk.seed * 31 + mx, keep_prints=False, files={"Gen_max%d.cfg" % mx: gen_cfg(mx, jumps)})
    if r.error:
        raise vlib.Inconclusive("ConnectLoop generation Max=%d: %s\n%s" % (mx, r.error, r.out[-1500:]))
    behs = [vlib.parse_sim_file(os.path.join(d, f)) for f in sorted(os.listdir(d)) if f.startswith("b_")]
    return r, [b for b in behs if b]


def ladder(chk, ages):
    """the schedule of the seeded defect, from TLC's counterexample of the Backoff what-if (healthy session, carrier dies,
    Pop), its healthy stretch scaled to a ladder of session ages; once with a killed and once with a frozen carrier"""
    r = vlib.tlc(SPEC, "ConnectLoop", "MC_backoff_gap.cfg", workers=1, timeout=300)
    chk.add_tlc(r)
    labels = [m.group(1) for m in re.finditer(r"^State \d+: <(\w+(?:\([^)]*\))?) line ", r.out, re.M)]
    env = [x for x in labels if re.match(r"PopCall|PeerDies|Tick", x)]
    if r.error != "invariant:CarrierGapBound" or "PeerDies(1)" not in env or env.count("PopCall") < 1:
        raise vlib.Inconclusive("ConnectLoop: the Backoff what-if gave no usable counterexample (%s; %s)" % (r.error, env[:12]))
    plans = []
    for mx in (1, 2, 3):
        for age in ages:
            for how in ("kill", "freeze"):
                st = [{"op": "pop"}, {"op": "adv", "ms": age * 1000}, {"op": how, "k": 1}]
                if how == "freeze":
                    st.append({"op": "adv", "ms": 21500})
                st += [{"op": "pop"}, {"op": "adv", "ms": 12000}]
                plans.append({"max": mx, "steps": st, "tail": 25000, "src": "cex-backoff/age=%ds/%s" % (age, how)})
    return plans


# ------------------------------------------------------------------------------------------------
# harness + trace validation

_bin = {}
_bin_lock = threading.Lock()


def binary():
    """the test binary of client/lib with the rig injected (go1.26.8; -race under VERIF_RACE=1), built once per process"""
    with _bin_lock:
        if "b" not in _bin:
            _bin["b"] = vlib.go_test_compile_inpkg("client/lib", HFILES, "client_lib.connectloop%s.test" % ("-r" if vlib.want_race(False) else ""),
                                                   go=vlib.GO_NEW, linkflag=True)
        return _bin["b"]


def run_plans(plans, tag, shards=4):
    d = vlib.scratch("cl-run")
    parts = [plans[i::shards] for i in range(shards) if plans[i::shards]]
    b = binary()

    def one(i, part):
        inp, outp = os.path.join(d, "%s-%d.in.ndjson" % (tag, i)), os.path.join(d, "%s-%d.out.ndjson" % (tag, i))
        vlib.write_ndjson(inp, [{k: p[k] for k in ("id", "max", "steps", "tail")} for p in part])
        env = dict(os.environ, VERIF_CL_IN=inp, VERIF_CL_OUT=outp, GODEBUG="asynctimerchan=0")
        r = vlib.run([b, "-test.run", "^TestVerifConnectLoopClock$", "-test.timeout", "900s", "-test.count", "1"], env=env, timeout=930)
        recs = vlib.read_ndjson(outp) if os.path.exists(outp) else []
        return recs, r
    res = vlib.run_parallel([(lambda i=i, p=p: one(i, p)) for i, p in enumerate(parts)], workers=shards)
    traces, hang = [], None
    for recs, r in res:
        h = [x for x in recs if "hang" in x]
        if h:
            hang = h[0]
            continue
        if r.timed_out or r.rc != 0 or not any("summary" in x for x in recs):
            raise vlib.Inconclusive("ConnectLoop driver failed (rc=%s timeout=%s):\n%s" % (r.rc, r.timed_out, r.out[-3000:]))
        traces += [x for x in recs if "summary" not in x]
    return traces, hang


def trace_cfg(mx, invs):
    with open(os.path.join(SPEC, "Trace_max%d.cfg" % mx)) as fh:
        return re.sub(r"INVARIANTS .*", "INVARIANTS " + " ".join(invs), fh.read())


def validate_one(traces, mx, tag, invs=INVS):
    """-> (violated invariant or None, index in `traces` of the trace concerned, event index, {trace id: first unexplained event}, TLC result)"""
    d = vlib.scratch("cl-tv")
    f = os.path.join(d, "%s.ndjson" % tag)
    vlib.write_ndjson(f, [{"id": t["id"], "max": mx, "events": t["events"]} for t in traces])
    cfg = "Trace_max%d.cfg" % mx
    r = vlib.tlc(SPEC, "ConnectLoop_Trace", cfg, workers=1, timeout=900, files={"traces.ndjson": f, cfg: trace_cfg(mx, invs)}, heap="3g")
    if r.error and not r.error.startswith("invariant:"):
        raise vlib.Inconclusive("ConnectLoop trace validation %s: %s\n%s" % (cfg, r.error, r.out[-2500:]))
    if r.error:
        tr = [int(x) for x in re.findall(r"^/\\ tr = (\d+)", r.out, re.M)]
        ls = [int(x) for x in re.findall(r"^/\\ l = (\d+)", r.out, re.M)]
        if not tr or not ls:
            raise vlib.Inconclusive("ConnectLoop trace validation: no counterexample state in TLC's output\n" + r.out[-1500:])
        return r.error[len("invariant:"):], tr[-1] - 1, ls[-1], {}, r
    v = [p for p in r.prints if isinstance(p, dict) and "rejected" in p]
    if len(v) != 1 or v[0].get("nt") != len(traces):
        raise vlib.Inconclusive("ConnectLoop trace validation %s printed no verdict for %d traces\n%s" % (cfg, len(traces), r.out[-2000:]))
    return None, None, None, {int(a): int(b) for a, b in v[0]["rejected"]}, r


def context(events, upto):
    """abstract context of a finding: outcome of the last finished attempt, whether a Pop is waiting, whether End was called"""
    last, pending, ended = "none", False, False
    for e in events[:upto]:
        ev = e["ev"]
        if ev == "collect.end":
            last = e["out"].split(":")[0]
        elif ev == "run":
            last = "atCapacity"
        elif ev == "pop.call":
            pending = True
        elif ev == "pop.served":
            pending = False
        elif ev == "end.called":
            ended = True
    return "after-%s%s%s" % (last, "/pop-waiting" if pending else "", "/end-called" if ended else "")


def judge(chk, traces, tag):
    """-> (accepted ids, findings [(signature, what, trace, detail)]); one TLC run per (Max, chunk), chunks side by side;
    a trace that violates an invariant is taken out and the rest of its chunk judged again"""
    findings, accepted = [], set()
    jobs = []
    for mx in (1, 2, 3):
        grp = [t for t in traces if t["max"] == mx]
        n = max(1, (len(grp) + 59) // 60)
        jobs += [(mx, grp[i::n], "%s-m%d-%d" % (tag, mx, i)) for i in range(n) if grp[i::n]]

    def work(mx, grp, jtag):
        out, rs, rnd = [], [], 0
        grp = list(grp)
        while grp:
            rnd += 1
            if rnd > 4:          # enough findings from this chunk: the rest stays unjudged (it is not counted as accepted)
                break
            inv, ti, l, rej, r = validate_one(grp, mx, "%s-r%d" % (jtag, rnd))
            rs.append(r)
            if inv is None:
                for t in grp:
                    if t["id"] in rej:
                        hw = rej[t["id"]]
                        e = t["events"][hw - 1] if hw <= len(t["events"]) else {"ev": "end-of-trace"}
                        cls = e["ev"] + ("(%s)" % str(e.get("out", e.get("cls"))).split(":")[0] if ("out" in e or "cls" in e) else "")
                        out.append(("ConnectLoop/unexplained:%s/%s" % (cls, context(t["events"], hw - 1)),
                                    "the recorded execution is not a behaviour of spec/ConnectLoop: first unexplained event #%d %s" % (hw, json.dumps(e, sort_keys=True)), t, hw))
                    else:
                        out.append((None, None, t, None))
                break
            t = grp.pop(ti)
            invs = [inv]
            rest = [x for x in INVS if x != inv]
            at = [l]
            while rnd == 1 and rest and len(invs) < 3:          # which other invariants does this trace violate?
                inv2, _, l2, _, r2 = validate_one([t], mx, "%s-r%d-x%d" % (jtag, rnd, len(invs)), invs=rest)
                rs.append(r2)
                if inv2 is None:
                    break
                invs.append(inv2)
                at.append(l2)
                rest.remove(inv2)
            for k, iv in enumerate(invs):
                name = iv[1:] if iv.startswith("T") and iv[1:] in ("RecollectBound",) else iv
                out.append(("ConnectLoop/%s/%s" % (name, context(t["events"], at[k])),
                            "invariant %s of spec/ConnectLoop fails on an execution recorded from the real Peers + connectLoop under the fake clock" % name, t, l))
        return out, rs
    for out, rs in vlib.run_parallel([(lambda j=j: work(*j)) for j in jobs], workers=8):
        for r in rs:
            chk.add_tlc(r)
        for sig, what, t, hw in out:
            if sig is None:
                accepted.add(t["id"])
            else:
                findings.append((sig, what, t, hw))
    return accepted, findings


def brief(t, upto=40):
    return ["%s%s@%d" % (e["ev"], "".join(":%s" % e[k] for k in ("out", "cls", "k", "cause", "n", "gmax") if k in e), e["t"]) for e in t["events"][:upto]]


def report(chk, findings, byid):
    seen = collections.Counter(f[0] for f in findings)
    done = set()
    for sig, what, t, hw in findings:
        if sig in done or len(done) >= MAX_REPORT:
            continue
        done.add(sig)
        p = byid.get(t["id"], {})
        chk.violation(sig, "%s; plan (%s, Max=%s): %s; trace: %s%s" % (what, p.get("src", "?"), p.get("max"), json.dumps(p.get("steps"))[:500],
                                                                    " ".join(brief(t))[:900], " [%d traces]" % seen[sig] if seen[sig] > 1 else ""),
                      {"kind": "connectloop", "plan": {k: p.get(k) for k in ("max", "steps", "tail", "src")}, "trace": t, "at_event": hw})


def death_ages(t):
    """ages (s) at which a live carrier died in this trace while the loop was running"""
    return [e["t"] // 1000 for e in t["events"] if e["ev"] == "peer.died"]


def run_connectloop_part(chk, q=None):
    chk.known.extend(KNOWN)
    quick = chk.tier == "quick"
    rng = random.Random(chk.seed * 7919 + 101)
    box = {"tlc": [], "notes": [], "fail": []}
    mc = threading.Thread(target=model_check, args=(quick, box))
    mc.start()
    t0 = time.time()
    try:
        plans = ladder(chk, AGES_QUICK if quick else AGES_THOROUGH)
        nlad = len(plans)
        jumps = [12, 120, 720, 2000] + ([] if quick else [8000])
        sims = vlib.run_parallel([(lambda mx=mx: simulate(chk, mx, 90 if quick else 400, 220 if quick else 320, jumps)) for mx in (1, 2, 3)], workers=3)
        for mx, (r, behs) in zip((1, 2, 3), sims):
            chk.add_tlc(r)
            for b in behs:
                p = plan_of(b, rng, mx)
                p["src"] = "simulate:Gen_max%d" % mx
                plans.append(p)
        for i, p in enumerate(plans):
            p["id"] = i + 1
        if len(plans) - nlad < (100 if quick else 800):
            raise vlib.Inconclusive("ConnectLoop: vacuous generation: %d behaviours" % (len(plans) - nlad))
        byid = {p["id"]: p for p in plans}
        traces, hang = run_plans(plans, "main", shards=4 if quick else 8)
        if hang is not None:
            p = byid.get(hang.get("id"), {})
            chk.violation("ConnectLoop/hang:real-lock", "the real Peers/connectLoop made no progress for 30 s of REAL time in plan %s (a goroutine waits on a lock while the fake clock stands still)" % json.dumps(p.get("steps"))[:500],
                          {"kind": "connectloop", "plan": {k: p.get(k) for k in ("max", "steps", "tail", "src")}, "stacks": hang.get("hang", "")[:6000]})
            return
        if len(traces) != len(plans):
            raise vlib.Inconclusive("ConnectLoop driver returned %d traces for %d plans" % (len(traces), len(plans)))
        nev = sum(len(t["events"]) for t in traces)
        ncmd = sum(len(p["steps"]) for p in plans)
        skipped = sum(t.get("skipped", 0) for t in traces)
        chk.note("ConnectLoop: %d plans (%d from TLC simulation, %d age-ladder) with %d commands replayed on the real Peers + connectLoop under the fake clock: %d events, %d commands not applicable (%.1fs)" % (
            len(plans), len(plans) - nlad, nlad, ncmd, nev, skipped, time.time() - t0))
        if skipped * 3 > ncmd:
            raise vlib.Inconclusive("ConnectLoop: %d of %d commands were not applicable: the generation model does not describe the code" % (skipped, ncmd))
        t1 = time.time()
        accepted, findings = judge(chk, traces, "main")
        for t in traces:          # a bubble that ended badly although the recorded part is a behaviour of the spec
            if t.get("note") and t["id"] in accepted:
                accepted.discard(t["id"])
                findings.append(("ConnectLoop/bubble:%s" % ("deadlock" if "deadlock" in t["note"] else "panic"),
                                 "the bubble of the real Peers + connectLoop ended badly: %s" % t["note"][:300], t, None))
        chk.note("ConnectLoop: TLC ConnectLoop_Trace judged %d traces: %d accepted, %d findings (%.1fs)" % (len(traces), len(accepted), len(findings), time.time() - t1))
        report(chk, findings, byid)
        ages = sorted(a for t in traces if t["id"] in accepted for a in death_ages(t))
        hist = {"<60s": sum(1 for a in ages if a < 60), "1-10min": sum(1 for a in ages if 60 <= a < 600), "10-60min": sum(1 for a in ages if 600 <= a < 3600),
                "1-6h": sum(1 for a in ages if 3600 <= a < 21600), ">=6h": sum(1 for a in ages if a >= 21600)}
        if not findings and (hist["1-6h"] + hist[">=6h"] < 10 or hist["10-60min"] < 5):
            raise vlib.Inconclusive("ConnectLoop: vacuity: too few peer deaths at high session ages: %s" % hist)
        nontriv = sum(1 for t in traces if t["id"] in accepted and any(a >= 60 for a in death_ages(t)))
        chk.cov["evaluations"] += len(traces)
        chk.cov["distinct_nontrivial"] += nontriv
        chk.cov["traces_validated_against_impl"] += len(accepted)
        chk.cov["connectloop"] = {"plans": len(plans), "from_simulation": len(plans) - nlad, "age_ladder": nlad, "commands": ncmd, "commands_skipped": skipped,
                                  "events": nev, "accepted": len(accepted), "peer_deaths_by_session_age": hist, "max_age_s": max(ages) if ages else 0,
                                  "fake_hours_total": round(sum(t["events"][-1]["t"] for t in traces if t["events"]) / 3.6e6, 1)}
        for t in [t for t in traces if t["id"] in accepted and byid[t["id"]]["src"].startswith("simulate") and any(a > 3600 for a in death_ages(t))][:2]:
            chk.sample({"module": "ConnectLoop", "plan": byid[t["id"]]["steps"][:14], "trace": brief(t, 30)}, limit=5)
    finally:
        mc.join()
        for n in box["notes"]:
            chk.note(n)
        for r in box["tlc"]:
            chk.add_tlc(r)
        for f in box["fail"]:
            chk.fail(f)
    chk.assumptions += [
        "ConnectLoop: fake clock of testing/synctest (go1.26.8, GODEBUG=asynctimerchan=0); commands are issued when every goroutine of the bubble is durably blocked, or (End) by a goroutine waking at the same fake instant as the loop's timer",
        "ConnectLoop: real Peers and real connectLoop (through the SnowflakeCollector interface: a logging wrapper around the real Peers); peers are the repository's fake *WebRTCPeer with the real checkForStaleness; the data path is played by the rig (Pop only without a live carrier, as RedialPacketConn does); kcp/smux are not in the bubble (kcp's global scheduler lives outside it)",
        "ConnectLoop: End is never made to wait for a slow rendezvous under the fake clock (a goroutine parked on sync.Mutex stops the clock): the attempt in flight ends at the instant of End; C15's real-time part owns that wait",
        "ConnectLoop: the trace constants (RT = DCT = 10 s, ST = 20 s, Poll = 1 s) are the configuration's, not read from the code",
    ]


def replay_part(chk, rp):
    p = dict(rp["plan"], id=1)
    p.setdefault("tail", 25000)
    traces, hang = run_plans([p], "replay", shards=1)
    if hang is not None:
        chk.violation("ConnectLoop/hang:real-lock", "the replayed plan hangs in real time", {"kind": "connectloop", "plan": rp["plan"], "stacks": hang.get("hang", "")[:6000]})
        return True
    t = traces[0]
    accepted, findings = judge(chk, [t], "replay")
    if t.get("note") and not findings:
        chk.violation("ConnectLoop/bubble:%s" % ("deadlock" if "deadlock" in t["note"] else "panic"), t["note"][:300], {"kind": "connectloop", "plan": rp["plan"], "trace": t})
        return True
    report(chk, findings, {1: p})
    chk.cov["evaluations"] += 1
    chk.cov["traces_validated_against_impl"] += len(accepted)
    if not findings:
        chk.note("replay: the recorded execution is accepted by spec/ConnectLoop: %s" % " ".join(brief(t))[:600])
    return True


def run(chk, args):
    if getattr(args, "replay", None):
        with open(args.replay) as fh:
            rp = json.load(fh)["replay"]
        if rp.get("kind") != "connectloop":
            chk.fail("replay file is not from c01_connectloop")
            return
        replay_part(chk, rp)
        return
    run_connectloop_part(chk, args)
    chk.cov["exhaustive"] = False
    chk.cov["rule"] = ("one evaluation = one plan (TLC -simulate behaviour of ConnectLoop_Gen, or the Backoff counterexample at one session age) executed on the real "
                       "Peers + connectLoop under the fake clock and judged by TLC against ConnectLoop_Trace; non-trivial = a peer dies at a session age of at least 60 s")


MANIFEST = {
    "technique": "TLA+ spec ConnectLoop (connectLoop, Collect/Pop/End, explicit clock, urgent code steps) model-checked by TLC with what-if constants that must fail; "
                 "TLC -simulate behaviours replayed into the real Peers + connectLoop under testing/synctest's fake clock; every recorded trace (ms timestamps) "
                 "validated by TLC against ConnectLoop_Trace",
    "text": "While End has not been called the loop is never away from Collect for longer than ReconnectTimeout after the START of its last attempt (or returns to it at "
            "once when the attempt took longer), whatever the age of the session and however many attempts failed or found the collection full; a Pop waiting for a peer "
            "while the Tongue delivers spends at most ReconnectTimeout outside an attempt and is served by the first attempt started; after End the loop stops at once, at "
            "most one more Collect starts and none reaches the Tongue; never more than Max live peers; a frozen peer is closed within SnowflakeTimeout + 1 s.",
    "note": "Built for the seeded change C01-f (exponential back-off after every Collect error incl. 'At capacity'), which real-time checks cannot see.",
}
