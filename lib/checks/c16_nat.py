"""Parts of C16 built separately (wired in by lib/checks/c16.py): two pieces of the proxy no
listed property names but its behaviour depends on.

run_periodic_part   spec/Periodic: common/task/periodic.go (Start / WaitThenStart / Close /
                    checkedExecute, the mutex, the AfterFunc timers, explicit clock).  TLC checks
                    all interleavings (NoOverlap, QuietStopped, NoLateAdmission, NoZombie,
                    EndToStart, LockOK, CloseIdempotent; liveness CloseReturns, NoLeftover).
                    Behaviours of the generation sub-model (environment acts at rest) are walked
                    out of TLC's state graph and replayed, with gates inside Execute, into the REAL
                    task.Periodic under the fake clock of testing/synctest (go1.26.8); seeded
                    herds race calls through the real mutex; every recorded trace is validated
                    by TLC against Periodic_Trace with the invariants on.

run_nat_part        spec/ProxyNAT: the proxy's NAT-type state machine (checkNATType, the global
                    currentNATType and its RWMutex, what pollOffer reports).  TLC emits probe
                    scripts (sequences of probe outcomes with polls placed before, during and
                    after each probe) together with the value every poll must report; each script
                    runs in its own test process against the real checkNATType / pollOffer, a
                    scripted probe server and - for `unrestricted` - a real pion peer.

Neither part edits c16.py; both only add to the Check object they are given."""
import collections
import json
import os
import random
import re
import threading
import time

import vlib

LEVEL = "model_checking"

# --------------------------------------------------------------------------------------------
# Periodic

P_SPEC = os.path.join(vlib.SPEC, "Periodic")
P_HARNESS = os.path.join(vlib.HARNESS, "inpkg", "common_task", "periodic_verif_test.go")
P_INTERVAL = 2

P_ENV = {"CallStart": "start", "CallClose": "close", "CallWTS": "wts", "Tick": "tick", "ExecEnd": "end", "SelfClose": "selfclose"}


def p_cmd(label):
    """TLC action label -> harness command (None for a code step)"""
    a = vlib.parse_action(label)
    op = P_ENV.get(a[0])
    if op is None:
        return None
    c = {"op": op}
    if op == "end":
        c["err"] = bool(a[2])
    return c


class PGraph:
    def __init__(self, dot):
        nodes, edges, inits = vlib.parse_dot(dot)
        if not edges or len(inits) != 1:
            raise vlib.Inconclusive("Periodic: state graph dump unusable: %d edges, %d initial states" % (len(edges), len(inits)))
        self.init = next(iter(inits))
        self.edges = edges
        self.nstates = len(nodes)
        self.out = collections.defaultdict(list)
        for i, (s, d, lab) in enumerate(edges):
            self.out[s].append(i)
        self.cmd = [p_cmd(lab) for (_, _, lab) in edges]
        self.parent = {self.init: None}
        dq = collections.deque([self.init])
        while dq:
            u = dq.popleft()
            for i in self.out[u]:
                v = edges[i][1]
                if v not in self.parent:
                    self.parent[v] = i
                    dq.append(v)

    def path_to(self, node):
        p = []
        while self.parent[node] is not None:
            i = self.parent[node]
            p.append(i)
            node = self.edges[i][0]
        p.reverse()
        return p

    def covering(self, rng, limit, maxcmds):
        """paths from the initial state that together cover every environment edge (as far as
        `limit` paths allow); code steps are taken whenever one is enabled (goroutines run to
        rest before the environment acts again)"""
        uncovered = set(i for i, c in enumerate(self.cmd) if c is not None)
        total = len(uncovered)
        targets = sorted(uncovered)
        rng.shuffle(targets)
        paths = []
        for t in targets:
            if t not in uncovered:
                continue
            if len(paths) >= limit:
                break
            path = self.path_to(self.edges[t][0]) + [t]
            ncmd = sum(1 for i in path if self.cmd[i] is not None)
            cur = self.edges[t][1]
            idle = 0
            while ncmd < maxcmds:
                outs = self.out[cur]
                if not outs:
                    break
                code = [i for i in outs if self.cmd[i] is None]
                if code:
                    pick = rng.choice(code)
                else:
                    unc = [i for i in outs if i in uncovered]
                    if unc:
                        pick, idle = rng.choice(unc), 0
                    else:
                        idle += 1
                        if idle > 3:
                            break
                        pick = rng.choice(outs)
                    ncmd += 1
                path.append(pick)
                cur = self.edges[pick][1]
            for i in path:
                uncovered.discard(i)
            paths.append(path)
        return paths, total, total - len(uncovered)

    def steps(self, path):
        return [self.cmd[i] for i in path if self.cmd[i] is not None]


def p_tlc(chk, module, cfg, **kw):
    r = vlib.tlc(P_SPEC, module, cfg, **kw)
    chk.add_tlc(r)
    return r


def mc_jobs(box, jobs):
    """jobs: list of (label, callable returning an error text or None); run side by side"""
    def wrap(label, fn):
        try:
            msg = fn()
            if msg:
                box["fail"].append(msg)
        except vlib.Inconclusive as e:
            box["fail"].append(str(e))
        except Exception:  # noqa
            import traceback
            box["fail"].append("internal error in model check %s:\n%s" % (label, traceback.format_exc()))
    ths = [threading.Thread(target=wrap, args=j) for j in jobs]
    for t in ths:
        t.start()
    for t in ths:
        t.join()


def mc_safe(box, specdir, module, cfg, workers, coverage=False, ignore_zero=()):
    def fn():
        r = vlib.tlc(specdir, module, cfg, workers=workers, timeout=900, coverage=coverage)
        box["tlc"].append(r)
        box["notes"].append("TLC %s %s: %d distinct states, %s (%.0fs)" % (module, cfg, r.distinct, r.error or "no error", r.wall))
        if r.error:
            return "%s: model check %s failed: %s\n%s" % (module, cfg, r.error, r.out[-2500:])
        if coverage:
            zero = sorted(a for a, (d, t) in r.coverage.items() if t == 0 and a not in ignore_zero)
            if zero:
                return "%s: vacuity: actions never taken in %s: %s" % (module, cfg, zero)
    return (cfg, fn)


def mc_sens(box, specdir, module, cfg, want):
    def fn():
        r = vlib.tlc(specdir, module, cfg, workers=2, timeout=600)
        box["tlc"].append(r)
        if r.error not in want:
            return "%s: sensitivity: %s should violate %s, TLC says %s" % (module, cfg, "/".join(want), r.error)
        box["notes"].append("TLC %s sensitivity %s: %s as expected" % (module, cfg, r.error))
    return (cfg, fn)


def p_model_check(chk, quick, box):
    """runs in a thread next to generation, replay and trace validation"""
    w = max(2, vlib.NCPU // 4)
    jobs = [mc_safe(box, P_SPEC, "Periodic", "MC_quick.cfg", w, coverage=not quick, ignore_zero=("WaitGo", "RetStep")),
            mc_safe(box, P_SPEC, "Periodic", "MC_live.cfg", w),
            # sensitivity: the deviations must be found by TLC
            mc_sens(box, P_SPEC, "Periodic", "MC_asis.cfg", ("invariant:QuietStopped", "invariant:NoZombie")),
            mc_sens(box, P_SPEC, "Periodic", "MC_restart.cfg", ("invariant:NoOverlapStrict",))]
    if not quick:
        jobs += [mc_safe(box, P_SPEC, "Periodic", "MC_small.cfg", w), mc_safe(box, P_SPEC, "Periodic", "MC_urgent.cfg", w),
                 mc_sens(box, P_SPEC, "Periodic", "MC_asis_live.cfg", ("temporal",))]
    mc_jobs(box, jobs)


def p_herds(rng, n, first_id):
    """seeded herds: groups of calls made at the same fake instant (at most four calls per instant: TLC has to
    explore every interleaving of their silent steps)"""
    plans = []
    ops = ["start", "close", "wts", "close"]
    for k in range(n):
        groups, here = [], 0
        for _ in range(rng.randint(1, 4)):
            m = rng.choice([1, 2, 2, 3])
            if here + m > 4 and groups:
                groups[-1]["gap"] = 1
                here = 0
            gap = rng.choice([0, 1, 1, 2, 3])
            groups.append({"ops": [rng.choice(ops) for _ in range(m)], "gap": gap})
            here = here + m if gap == 0 else 0
        runs = [{"dur": rng.choice([0, 0, 1, 2]), "err": rng.random() < 0.15, "selfclose": rng.random() < 0.15} for _ in range(rng.randint(0, 5))]
        plans.append({"id": first_id + k, "interval": P_INTERVAL, "herd": groups, "runs": runs})
    return plans


def p_cex_steps(out):
    steps = []
    for m in re.finditer(r"^State \d+: <(\w+(?:\([^)]*\))?) line ", out, re.M):
        c = p_cmd(m.group(1))
        if c is not None:
            steps.append(c)
    return steps


def p_run_plans(plans, tag):
    d = vlib.scratch("periodic")
    inp, outp = os.path.join(d, tag + ".plans.ndjson"), os.path.join(d, tag + ".traces.ndjson")
    vlib.write_ndjson(inp, plans)
    r = vlib.go_test_inpkg("common/task", [P_HARNESS], "^TestVerifPeriodic$", go=vlib.GO_NEW, timeout=600,
                           env={"VERIF_PERIODIC_IN": inp, "VERIF_PERIODIC_OUT": outp, "GODEBUG": "asynctimerchan=0"})
    recs = vlib.read_ndjson(outp) if os.path.exists(outp) else []
    hang = [x for x in recs if "hang" in x]
    if hang:
        return recs, hang[0], r
    if r.timed_out or r.rc != 0 or not any("summary" in x for x in recs):
        raise vlib.Inconclusive("Periodic driver failed (rc=%s timeout=%s):\n%s" % (r.rc, r.timed_out, r.out[-3000:]))
    return [x for x in recs if "summary" not in x], None, r


def p_validate_one(chk, traces, cfg, tag):
    """-> (error, {trace id: index of first unexplained event}, TLC result)"""
    d = vlib.scratch("periodic-tv")
    f = os.path.join(d, "%s-%s.ndjson" % (tag, cfg))
    vlib.write_ndjson(f, [{"id": t["id"], "events": t["events"]} for t in traces])
    r = vlib.tlc(P_SPEC, "Periodic_Trace", cfg, workers=1, timeout=900, files={"traces.ndjson": f}, heap="3g")
    if r.error and not r.error.startswith("invariant:"):
        raise vlib.Inconclusive("Periodic trace validation %s: %s\n%s" % (cfg, r.error, r.out[-2500:]))
    if r.error:
        m = None
        for m in re.finditer(r"^/\\ tr = (\d+)", r.out, re.M):
            pass
        return r.error[len("invariant:"):], ({traces[int(m.group(1)) - 1]["id"]: 0} if m else {}), r
    verdicts = [p for p in r.prints if isinstance(p, dict) and "rejected" in p]
    if len(verdicts) != 1 or verdicts[0].get("nt") != len(traces):
        raise vlib.Inconclusive("Periodic trace validation %s printed no verdict for %d traces\n%s" % (cfg, len(traces), r.out[-2000:]))
    return None, {int(a): int(b) for a, b in verdicts[0]["rejected"]}, r


class _Sum:
    def __init__(self):
        self.distinct, self.wall = 0, 0.0


def p_validate(chk, traces, cfg, tag, chunk=160, parallel=6):
    """TLC decides per trace (one JVM per chunk, -workers 1 each, chunks side by side)"""
    chunks = [traces[i:i + chunk] for i in range(0, len(traces), chunk)] or [[]]
    t0 = time.time()
    res = vlib.run_parallel([(lambda c=c, i=i: p_validate_one(chk, c, cfg, "%s-%d" % (tag, i))) for i, c in enumerate(chunks)], workers=parallel)
    tot = _Sum()
    err, rej = None, {}
    for e, rj, r in res:
        chk.add_tlc(r)
        tot.distinct += r.distinct
        if e and not err:
            err, rej = e, rj
        elif not err:
            rej.update(rj)
    tot.wall = time.time() - t0
    return err, rej, tot


def p_context(events, upto):
    """abstract context of a failure: "wts-then-close" when a Close follows a WaitThenStart, otherwise the
    kinds of the last three calls/runs, repetitions collapsed; never ordinals or times"""
    out = []
    for e in events[:upto]:
        if e["ev"] == "call":
            out.append(e["op"])
        elif e["ev"] == "begin":
            out.append("run")
        elif e["ev"] == "scall":
            out.append("close-in-execute")
    if "wts" in out and any(x in ("close", "close-in-execute") for x in out[out.index("wts"):]):
        return "wts-then-close"          # a WaitThenStart with a Close after it: the class of the delayed-start defect
    out = out[-3:]
    c = []
    for x in out:
        if not c or c[-1] != x:
            c.append(x)
    return ">".join(c) or "none"


def p_event_class(trace, hw):
    ev = trace["events"]
    e = ev[hw - 1] if 0 < hw <= len(ev) else {}
    what = e.get("ev", "end-of-trace")
    if what == "begin":
        what = "begin-by-%s" % ("timer" if e.get("by") == 0 else "caller")
    elif what == "obs":
        what = "obs-running=%s" % str(e.get("running")).lower()
    elif what == "ret":
        what = "ret-%s-err=%s" % (e.get("op"), str(e.get("err")).lower())
    return "%s/%s" % (what, p_context(ev, hw))


def p_signature(chk, trace, hw):
    """ask the model of the pinned code (AsIs_WTS) which property is at stake; otherwise name the first unexplained event"""
    err, rej, _ = p_validate(chk, [trace], "Trace_asis.cfg", "sig%d" % trace["id"])
    if err:
        return "Periodic/%s/%s" % (err, p_context(trace["events"], hw)), "the recorded execution violates %s of spec/Periodic" % err
    return "Periodic/unexplained:%s" % p_event_class(trace, hw), "the recorded execution is not a behaviour of spec/Periodic"


def p_hang_signature(h):
    stack = h.get("hang", "")
    where = []
    for blk in stack.split("\n\n"):
        if "sync.(*Mutex)" in blk and "task.(*Periodic)" in blk:
            m = re.search(r"task\.\(\*Periodic\)\.(\w+)", blk)
            where.append(m.group(1) if m else "?")
    return "Periodic/hang:%s-waits-for-the-mutex" % ("+".join(sorted(set(where))) or "unknown")


def run_periodic_part(chk, args):
    quick = chk.tier == "quick"
    rng = random.Random(chk.seed * 7919 + 16)
    box = {"tlc": [], "notes": [], "fail": []}
    mc = threading.Thread(target=p_model_check, args=(chk, quick, box))
    mc.start()
    try:
        # behaviours of the generation sub-model, from TLC's state graph
        d = vlib.scratch("periodic-dot")
        dot = os.path.join(d, "gen.dot")
        r = p_tlc(chk, "Periodic", "Gen_small.cfg", workers=1, timeout=600, dump_dot=dot, keep_prints=False, heap="3g")
        if r.error:
            raise vlib.Inconclusive("Periodic Gen_small: %s\n%s" % (r.error, r.out[-1500:]))
        g = PGraph(dot)
        paths, total, covered = g.covering(rng, 150 if quick else 700, 14 if quick else 16)
        plans = []
        for p in paths:
            plans.append({"id": len(plans) + 1, "interval": P_INTERVAL, "steps": g.steps(p), "src": "graph"})
        chk.note("Periodic: generation graph %d states, %d edges; %d behaviours cover %d of %d environment edges" % (
            g.nstates, len(g.edges), len(paths), covered, total))
        # the schedule of the pinned code's defect, from TLC's counterexample of the as-is generation model
        r = p_tlc(chk, "Periodic", "Gen_asis.cfg", workers=1, timeout=600, keep_prints=False)
        if r.error not in ("invariant:QuietStopped", "invariant:NoZombie"):
            raise vlib.Inconclusive("Periodic Gen_asis should violate QuietStopped/NoZombie, TLC says %s" % r.error)
        cex = p_cex_steps(r.out)
        plans.append({"id": len(plans) + 1, "interval": P_INTERVAL, "steps": cex, "src": "cex-asis"})
        n_seq = len(plans)
        plans += p_herds(rng, 150 if quick else 700, len(plans) + 1)
        # the documented limitation: restart while a run is in flight (TLC counterexample of Gen_restart)
        r = p_tlc(chk, "Periodic", "Gen_restart.cfg", workers=1, timeout=600, keep_prints=False)
        if r.error != "invariant:NoOverlapStrict":
            raise vlib.Inconclusive("Periodic Gen_restart should violate NoOverlapStrict, TLC says %s" % r.error)
        rif_plan = {"id": 0, "interval": P_INTERVAL, "steps": p_cex_steps(r.out), "src": "cex-restart"}
        recs, hang, gr = p_run_plans(plans + [rif_plan], "main")
        chk.note("Periodic: %d plans (%d gated replays, %d herds) executed on the real task.Periodic under synctest (%.1fs)" % (
            len(plans), n_seq, len(plans) - n_seq, gr.wall))
        byid = {p["id"]: p for p in plans + [rif_plan]}
        if hang is not None:
            sig = p_hang_signature(hang)
            pl = byid.get(hang.get("id"))
            chk.violation(sig, "the real task.Periodic hangs (no progress for 20 s of real time) in plan %s: a goroutine waits for t.access for ever; plan: %s" % (
                hang.get("id"), json.dumps(pl)[:600]), {"kind": "periodic", "plan": pl, "events": hang.get("events"), "stacks": hang.get("hang", "")[:6000]})
            return
        notes = [x for x in recs if x.get("note")]
        if notes:
            x = notes[0]
            if "deadlock" in x["note"]:
                chk.violation("Periodic/deadlock:bubble", "all goroutines of the bubble blocked for ever in plan %s: %s" % (x["id"], x["note"][:300]),
                              {"kind": "periodic", "plan": byid.get(x["id"]), "events": x.get("events")})
            else:
                chk.fail("Periodic driver: plan %s: %s" % (x["id"], x["note"][:500]))
            return
        rif_trace = [t for t in recs if t["id"] == 0]
        traces = [t for t in recs if t["id"] != 0]
        if len(traces) != len(plans) or len(rif_trace) != 1:
            raise vlib.Inconclusive("Periodic driver returned %d traces for %d plans" % (len(recs), len(plans) + 1))
        err, rej, r = p_validate(chk, traces, "Trace.cfg", "main")
        nev = sum(len(t["events"]) for t in traces)
        chk.note("Periodic: TLC Periodic_Trace: %d traces, %d events, %d states, %s (%.0fs)" % (
            len(traces), nev, r.distinct, ("invariant %s violated" % err) if err else ("%d rejected" % len(rej)), r.wall))
        tr_byid = {t["id"]: t for t in traces}
        reported = collections.Counter()
        if err:
            tid = next(iter(rej), None)
            t = tr_byid.get(tid, {"events": [], "id": tid})
            sig = "Periodic/%s/%s" % (err, p_context(t["events"], len(t["events"])))
            chk.violation(sig, "invariant %s of spec/Periodic fails on an execution recorded from the real task.Periodic (plan %s)" % (err, json.dumps(byid.get(tid))[:500]),
                          {"kind": "periodic", "plan": byid.get(tid), "trace": t})
        groups = collections.OrderedDict()      # abstract class of the first unexplained event -> trace ids
        for tid in sorted(rej) if not err else []:
            groups.setdefault(p_event_class(tr_byid[tid], rej[tid]), []).append(tid)
        for cls, tids in list(groups.items())[:8]:
            tid = tids[0]
            t, hw = tr_byid[tid], rej[tid]
            sig, what = p_signature(chk, t, hw)
            reported[sig] += len(tids)
            e = t["events"][hw - 1] if hw <= len(t["events"]) else {"ev": "end-of-trace"}
            chk.violation(sig, "%s: first unexplained event #%d %s; plan (%s): %s" % (what, hw, json.dumps(e, sort_keys=True), byid[tid].get("src", "herd"),
                                                                                      json.dumps(byid[tid].get("steps") or byid[tid].get("herd"))[:600]),
                          {"kind": "periodic", "plan": byid[tid], "trace": t, "first_unexplained": hw, "also": len(tids) - 1})
        for sig, n in reported.items():
            if n > 1:
                chk.note("  %s: %d traces" % (sig, n))
        ok = len(traces) - len(rej) if not err else 0
        chk.cov["traces_validated_against_impl"] += ok
        chk.cov["evaluations"] += nev
        nontriv = 0
        for t in traces:
            if t["id"] in rej:
                continue
            ev = t["events"]
            closes = [i for i, e in enumerate(ev) if e["ev"] in ("call", "scall") and e.get("op", "close") == "close"]
            begins = [i for i, e in enumerate(ev) if e["ev"] == "begin"]
            if closes and begins:
                nontriv += 1
        chk.cov["distinct_nontrivial"] += nontriv
        chk.cov["periodic"] = {"gated_replays": n_seq, "herds": len(plans) - n_seq, "accepted": ok, "env_edges_covered": "%d/%d" % (covered, total)}
        smp = next((t for t in traces if t["id"] not in rej and byid[t["id"]].get("src") == "graph" and len(t["events"]) > 14), None)
        if smp:
            chk.sample({"module": "Periodic", "plan": byid[smp["id"]]["steps"],
                        "trace": ["%s@%d" % (e["ev"] + (":" + e["op"] if "op" in e else ""), e["now"]) for e in smp["events"]][:40]}, limit=4)
        # the documented limitation must be real: the restart-in-flight schedule overlaps two runs on the real code
        e2, rej2, r2 = p_validate(chk, rif_trace, "Trace_restart.cfg", "rif")
        if e2 == "NoOverlapStrict":
            chk.note("Periodic: limitation reproduced on the real code (not a violation): Start; Close; Start while the first run is still in Execute -> two overlapping runs")
            chk.cov["periodic"]["restart_in_flight_overlap_reproduced"] = True
        else:
            chk.fail("Periodic: the restart-in-flight overlap TLC finds in the model (MC_restart) was not reproduced on the real code (%s, rejected %s): the model misrepresents the code" % (e2, rej2))
    finally:
        mc.join()
        for n in box["notes"]:
            chk.note(n)
        for r in box["tlc"]:
            chk.add_tlc(r)
        for f in box["fail"]:
            chk.fail(f)
    chk.assumptions += [
        "Periodic: fake clock of testing/synctest (go1.26.8, GODEBUG=asynctimerchan=0): time advances only when every goroutine of the bubble is durably blocked; one model tick = 1 s of fake time",
        "Periodic: micro-interleavings inside Start/Close/checkedExecute are explored exhaustively by TLC in the model and by seeded herds (racing goroutines, real mutex) on the code; gated replays place the calls before, during and after a run",
        "Periodic: sync.Mutex is starvation-free (strong fairness on the acquisition in the liveness runs)",
    ]


# --------------------------------------------------------------------------------------------
# ProxyNAT

N_SPEC = os.path.join(vlib.SPEC, "ProxyNAT")
N_TEST = "TestVerifNatScripts"
N_DCTIMEOUT_S = 20.0      # dataChannelTimeout of proxy/lib (const)
N_NAMES = ("unknown", "restricted", "unrestricted")
N_ERRORS = ("badurl", "pcfail", "unreachable", "status", "badjson", "badsdp", "badremote")


def n_model_check(chk, quick, box):
    w = max(2, vlib.NCPU // 4)
    jobs = [mc_safe(box, N_SPEC, "ProxyNAT", "MC_quick.cfg", w, coverage=not quick),
            mc_safe(box, N_SPEC, "ProxyNAT", "MC_live.cfg", w),
            mc_sens(box, N_SPEC, "ProxyNAT", "MC_asis_badurl.cfg", ("invariant:NoCrash",)),
            mc_sens(box, N_SPEC, "ProxyNAT", "MC_asis_pcleak.cfg", ("invariant:NoPCLeft",))]
    if not quick:
        jobs.append(mc_safe(box, N_SPEC, "ProxyNAT", "MC.cfg", w))
    mc_jobs(box, jobs)


def n_binary(race=False):
    import proxyrig as pr
    if not race and not vlib.want_race(False):
        return pr.build()
    files = [os.path.join(pr.INPKG, f) for f in sorted(os.listdir(pr.INPKG)) if f.endswith("_verif_test.go")]
    out = os.path.join(vlib.scratch("bin"), "proxy_lib.race.test")
    r = vlib.go_test_inpkg("proxy/lib", files, "TestVerif", linkflag=True, race=True, extra=["-c", "-o", out], timeout=900)
    if r.rc != 0 or r.timed_out or not os.path.exists(out):
        raise vlib.Inconclusive("building the proxy rig (-race) failed:\n" + r.out[-4000:])
    return out


_n_seq = [0]
_n_lock = threading.Lock()


def n_run_proc(binary, cases, timeout, env_extra=None):
    """one test process runs `cases` one after the other (package state of proxy/lib is global)"""
    with _n_lock:
        _n_seq[0] += 1
        seq = _n_seq[0]
    d = vlib.scratch("natrun")
    inp, outp = os.path.join(d, "c%d.in.ndjson" % seq), os.path.join(d, "c%d.out.ndjson" % seq)
    vlib.write_ndjson(inp, cases)
    env = dict(os.environ)
    env.update({"VERIF_NAT_IN": inp, "VERIF_NAT_OUT": outp})
    env.update(env_extra or {})
    r = vlib.run([binary, "-test.run", "^%s$" % N_TEST, "-test.timeout", "%ds" % int(timeout), "-test.count", "1"], env=env, timeout=timeout + 30)
    recs = vlib.read_ndjson(outp) if os.path.exists(outp) else []
    return recs, r


def n_cost(case):
    if case.get("kind") == "start":
        return 6.0 + case["watch_ms"] / 1000.0
    return 0.3 * len(case["script"]) + (N_DCTIMEOUT_S + 1.0) * sum(1 for o in case["script"] if o == "timeout")


def n_judge_script(case, rec):
    """-> list of (signature, what); the expected values are the ones TLC printed (case['expect'])"""
    out = []
    exp = case["expect"]
    polls = rec.get("polls", [])
    probes = {p["k"]: p for p in rec.get("probes", [])}

    def poll(at, k):
        return next((p for p in polls if p["at"] == at and p["k"] == k), None)

    def cmp(p, want, at, oc):
        if p is None:
            return
        if p.get("blocked"):
            out.append(("ProxyNAT/poll-blocked/%s/%s" % (at, oc), "a real pollOffer made %s probe '%s' sent nothing to the broker within 4 s" % (at, oc)))
        elif p.get("err") or p.get("nat") not in N_NAMES:
            out.append(("ProxyNAT/reported-not-a-nat-type/%s/%s" % (at, oc), "poll request carries NAT=%r (%s)" % (p.get("nat"), p.get("err"))))
        elif p["nat"] != want:
            out.append(("ProxyNAT/reported/%s/%s/got=%s/want=%s" % (at, oc, p["nat"], want),
                        "poll %s probe '%s' reported %s, the contract (Table over the completed probes) says %s" % (at, oc, p["nat"], want)))

    cmp(poll("before", 0), exp["before"], "before", "first")
    if poll("before", 0) is None:
        out.append(("ProxyNAT/harness/no-before-poll", "no poll before the first probe"))
    for i, e in enumerate(exp["probes"]):
        k, oc = i + 1, e["outcome"]
        p = probes.get(k)
        if p is None:
            out.append(("ProxyNAT/probe-not-run/%s" % oc, "probe %d (%s) was not run: an earlier probe did not return" % (k, oc)))
            break
        if p.get("crash"):
            if not e["crash"]:
                out.append(("ProxyNAT/crash/%s" % oc, "checkNATType panicked on outcome '%s': %s" % (oc, p["crash"])))
            break
        if not p.get("returned"):
            out.append(("ProxyNAT/probe-never-returned/%s" % oc, "checkNATType did not return within dataChannelTimeout + 10 s on outcome '%s'" % oc))
            break
        if bool(p.get("reached")) != bool(e["held"]):
            out.append(("ProxyNAT/probe-server-%s/%s" % ("not-reached" if e["held"] else "reached", oc),
                        "outcome '%s': the probe request %s the probe server" % (oc, "never reached" if e["held"] else "reached")))
        if e["held"]:
            cmp(poll("during", k), e["during"], "during", oc)
            if oc == "timeout":
                cmp(poll("wait", k), e["during"], "during-the-wait", oc)
        if any(sig.startswith("ProxyNAT/poll-blocked/") for sig, _ in out):
            break       # the parked pollOffer call reports later, into some other poll's slot: nothing after it can be judged
        cmp(poll("after", k), e["after"], "after", oc)
        if p.get("global") != e["after"]:
            out.append(("ProxyNAT/global/%s/got=%s/want=%s" % (oc, p.get("global"), e["after"]), "currentNATType after probe '%s' is %s, contract says %s" % (oc, p.get("global"), e["after"])))
        if (p.get("pcleft", 0) > 0) != (e["pcleft"] > 0):
            out.append(("ProxyNAT/peer-connection-left-open/%s" % ("error-return" if oc in N_ERRORS else oc),
                        "%d pion goroutines of the probe's PeerConnection are still alive 3 s after checkNATType returned on outcome '%s' (no pc.Close on that path)" % (p.get("pcleft", 0), oc)))
        if oc == "timeout" and p.get("ms", 0) < N_DCTIMEOUT_S * 1000 - 500:
            out.append(("ProxyNAT/timeout-too-short", "probe with no data channel returned after %d ms" % p.get("ms", 0)))
    return out


def n_judge_start(case, rec):
    out = []
    arr = rec.get("arrivals", [])
    probes = [a for a in arr if a["ev"] == "probe"]
    polls = [a for a in arr if a["ev"] == "poll"]
    iv, ret = case["interval_ms"], rec.get("returned_ms", -1)
    if rec.get("start_err") not in (None, "", "<nil>"):
        return [("ProxyNAT/harness/start-failed", "SnowflakeProxy.Start returned %s" % rec.get("start_err"))]
    if ret < 0:
        return [("ProxyNAT/start/never-returned", "SnowflakeProxy.Start did not return within 15 s of Stop")]
    if not probes:
        return [("ProxyNAT/start/no-probe", "Start made no NAT probe")]
    for a, b in zip(probes, probes[1:]):
        if b["ms"] - a["ms"] < iv - 40:
            out.append(("ProxyNAT/start/retest-too-early", "probe requests %d ms apart with NATTypeMeasurementInterval = %d ms" % (b["ms"] - a["ms"], iv)))
            break
    late = [p for p in probes if p["ms"] > ret + 300]
    if late:
        out.append(("ProxyNAT/start/probe-after-stop", "a NAT probe arrived %d ms after SnowflakeProxy.Start had returned (NatRetestTask.Close did not stop the task)" % (late[0]["ms"] - ret)))
    before = [p for p in probes[1:] if p["ms"] <= ret]
    need = int(max(0, ret - 1000) / (iv + 400))
    if len(before) < need:
        out.append(("ProxyNAT/start/retest-missing", "%d retests in %d ms with NATTypeMeasurementInterval = %d ms (at least %d expected)" % (len(before), ret, iv, need)))
    for p in polls:
        if p.get("err") or p.get("nat") not in N_NAMES:
            out.append(("ProxyNAT/reported-not-a-nat-type/start", "poll request carries NAT=%r (%s)" % (p.get("nat"), p.get("err"))))
            break
    exp = case["expect"]
    if len(probes) >= len(exp["probes"]) and not late and rec.get("global") != exp["probes"][-1]["after"]:
        out.append(("ProxyNAT/start/global/got=%s/want=%s" % (rec.get("global"), exp["probes"][-1]["after"]),
                    "after probes %s the global is %s, contract says %s" % ([p.get("outcome") for p in probes], rec.get("global"), exp["probes"][-1]["after"])))
    if polls and polls[0]["nat"] != exp["probes"][0]["after"] and polls[0]["ms"] < (probes[1]["ms"] if len(probes) > 1 else 1 << 60):
        out.append(("ProxyNAT/start/first-poll/got=%s/want=%s" % (polls[0]["nat"], exp["probes"][0]["after"]), "first poll after the initial probe reported %s" % polls[0]["nat"]))
    return out


def run_nat_part(chk, args, binary=None):
    quick = chk.tier == "quick"
    rng = random.Random(chk.seed * 104729 + 16)
    box = {"tlc": [], "notes": [], "fail": []}
    mc = threading.Thread(target=n_model_check, args=(chk, quick, box))
    mc.start()
    try:
        if binary is None:
            binary = n_binary()
        r = vlib.tlc(N_SPEC, "ProxyNAT", "Gen_quick.cfg" if quick else "Gen_thorough.cfg", workers=1, timeout=600)
        chk.add_tlc(r)
        if r.error:
            raise vlib.Inconclusive("ProxyNAT generation: %s\n%s" % (r.error, r.out[-1500:]))
        emitted = [p for p in r.prints if isinstance(p, dict) and "script" in p]
        if len(emitted) < 27:
            raise vlib.Inconclusive("ProxyNAT generation printed %d cases" % len(emitted))
        for i, c in enumerate(emitted):
            c["id"], c["kind"] = i + 1, "script"
        fast = [c for c in emitted if "timeout" not in c["script"]]
        slow = [c for c in emitted if "timeout" in c["script"]]
        rng.shuffle(slow)
        if quick:
            # every (initial value, position of the timeout) at least once, neighbours by seed
            seen, pick = set(), []
            for c in slow:
                key = (c["init"], len(c["script"]), c["script"].index("timeout"))
                if key not in seen or len(pick) < 24:
                    if key not in seen or rng.random() < 0.3:
                        pick.append(c)
                    seen.add(key)
            slow = pick[:30]
            if len(fast) > 220:
                rng.shuffle(fast)
                fast = sorted(fast[:220], key=lambda c: c["id"])
        else:
            one = [c for c in slow if c["script"].count("timeout") == 1 and len(c["script"]) <= 2]
            two = [c for c in slow if c not in one]
            slow = one + two[:40]
        # the real Start(): first probe, retests through task.Periodic, Stop
        def startcase(idx, script, iv, stop, watch):
            e = next(c for c in emitted if c["init"] == "unknown" and c["script"] == script)
            return {"id": 100000 + idx, "kind": "start", "init": "unknown", "script": script, "expect": e["expect"],
                    "interval_ms": iv, "stop_ms": stop, "watch_ms": watch}
        starts = [startcase(1, ["open"], 7000, 300, 3800), startcase(2, ["open", "status"], 1000, 3600, 2500)]
        if not quick:
            starts.append(startcase(3, ["status", "open"], 1500, 2000, 3000))
        # processes: the fast scripts in a few batches, every slow case and every start case alone
        nb = 6 if quick else 12
        batches = [fast[i::nb] for i in range(nb)]
        jobs = [b for b in batches if b] + [[c] for c in slow] + [[c] for c in starts]
        longest = max(sum(n_cost(c) for c in j) for j in jobs)
        chk.note("ProxyNAT: %d cases from TLC: %d scripts without timeout in %d processes, %d with a %ds data channel timeout and %d Start() cases in a process each; longest about %.0fs" % (
            len(fast) + len(slow) + len(starts), len(fast), len([b for b in batches if b]), len(slow), N_DCTIMEOUT_S, len(starts), longest))
        t0 = time.time()
        results = vlib.run_parallel([(lambda j=j: n_run_proc(binary, j, sum(n_cost(c) for c in j) * 2 + 120)) for j in jobs], workers=len(jobs))
        chk.note("ProxyNAT: real-code runs done (%.0fs)" % (time.time() - t0))
        ncases = nontriv = 0
        skipped = None
        found = collections.OrderedDict()
        for j, (recs, r) in zip(jobs, results):
            if any("skip" in x for x in recs):
                skipped = next(x["skip"] for x in recs if "skip" in x)
                continue
            byid = {x["id"]: x for x in recs if "id" in x}
            if r.timed_out or r.rc != 0 or not any("summary" in x for x in recs):
                chk.fail("ProxyNAT driver failed (rc=%s timeout=%s) on cases %s:\n%s" % (r.rc, r.timed_out, [c["id"] for c in j][:5], r.out[-1500:]))
                continue
            for c in j:
                rec = byid.get(c["id"])
                if rec is None or rec.get("note"):
                    chk.fail("ProxyNAT driver: case %s: %s" % (c["id"], (rec or {}).get("note", "no record")))
                    continue
                res = n_judge_start(c, rec) if c["kind"] == "start" else n_judge_script(c, rec)
                ncases += 1
                chk.cov["evaluations"] += len(rec.get("polls", [])) + len(rec.get("probes", [])) + len(rec.get("arrivals", []))
                if c["kind"] == "start" or any(o in N_ERRORS or o == "timeout" for o in c["script"]) or any(p["at"] in ("during", "wait") for p in rec.get("polls", [])):
                    nontriv += 1
                for sig, what in res:
                    found.setdefault(sig, (what, c, rec))
                if not res and c["kind"] == "script" and len(c["script"]) >= 2:
                    chk.sample({"module": "ProxyNAT", "init": c["init"], "script": c["script"],
                                "polls": ["%s#%d=%s" % (p["at"], p["k"], p["nat"]) for p in rec["polls"]]}, limit=4)
        for sig, (what, c, rec) in list(found.items())[:10]:
            if sig.startswith("ProxyNAT/harness/"):
                chk.fail("%s: %s" % (sig, what))
                continue
            chk.violation(sig, "%s [case init=%s script=%s%s]" % (what, c["init"], c["script"], " via Start()" if c["kind"] == "start" else ""),
                          {"kind": "nat", "case": c, "observed": rec})
        chk.cov["distinct_nontrivial"] += nontriv
        chk.cov["nat"] = {"cases": ncases, "fast": len(fast), "with_timeout": len(slow), "start": len(starts)}
        if skipped:
            chk.cov.setdefault("skipped_clauses", []).append("ProxyNAT conformance: " + skipped)
            chk.note("ProxyNAT: conformance runs skipped: " + skipped)
        elif ncases == 0:
            chk.fail("ProxyNAT: no case was judged")
        if not quick and not skipped:
            n_race(chk, emitted)
    finally:
        mc.join()
        for n in box["notes"]:
            chk.note(n)
        for r in box["tlc"]:
            chk.add_tlc(r)
        for f in box["fail"]:
            chk.fail(f)
    chk.assumptions += [
        "ProxyNAT: probes never overlap (Start runs the first one synchronously, the retests are runs of one task.Periodic: spec/Periodic NoOverlap)",
        "ProxyNAT: the initial value of the package global is set by the driver under currentNATTypeAccess (stand-in for an earlier measurement); real time, dataChannelTimeout = 20 s (const)",
        "ProxyNAT: a PeerConnection left open is observed as pion goroutines that outlive checkNATType by 3 s",
    ]


def n_race(chk, emitted):
    """lock annotation (NoRace) on the real code: readers hammer getCurrentNATType while probes store, under the race detector"""
    binary = n_binary(race=True)
    pick = [c for c in emitted if c["script"] in (["open", "status", "open"], ["open", "badjson"], ["open", "open"])][:3]
    cases = [dict(c, hammer=True) for c in pick]
    d = vlib.scratch("natrace")
    logp = os.path.join(d, "race")
    recs, r = n_run_proc(binary, cases, 240, {"GORACE": "log_path=%s halt_on_error=0" % logp})
    reports = []
    for f in os.listdir(d):
        if f.startswith("race."):
            with open(os.path.join(d, f)) as fh:
                reports += [b for b in fh.read().split("==================") if "DATA RACE" in b]
    mine = []
    for rep in reports:
        parts = re.split(r"\n\s*\n", rep.strip())
        acc = [p for p in parts if re.match(r"\s*(WARNING: DATA RACE\s*)?(Write|Read|Previous write|Previous read|Atomic|Previous atomic)", p.strip())][:2]
        if len(acc) < 2:
            continue
        tops = []
        harness_top = False
        for p in acc:
            frames = re.findall(r"^\s+(\S+)\(\)\n\s+(\S+):\d+", p, re.M)
            if not frames:
                continue
            fn, fl = frames[0]
            harness_top = harness_top or fl.endswith("_verif_test.go")
            tops.append(re.sub(r"^.*/", "", fn))
        repo_code = any(re.search(r"/proxy/lib/(?!\w+_verif_test)\w+\.go|/common/\w+/\w+\.go", p) for p in acc)
        on_path = any(k in rep for k in ("checkNATType", "getCurrentNATType", "pollOffer", "currentNATType"))
        if repo_code and on_path and not harness_top and len(tops) == 2:
            mine.append(("~".join(sorted(tops)), rep))
    if r.timed_out or not any("summary" in x for x in recs):
        chk.fail("ProxyNAT race run failed (rc=%s):\n%s" % (r.rc, r.out[-1500:]))
        return
    if mine:
        for key, rep in list(collections.OrderedDict(mine).items())[:4]:
            chk.violation("ProxyNAT/NoRace/%s" % key, "the race detector reports unsynchronised accesses on the probe/poll path (probes running while readers and polls are active):\n" + rep[:1500],
                          {"kind": "nat-race", "cases": cases, "report": rep[:4000]})
    else:
        chk.note("ProxyNAT: race detector: %d probes with hammering readers, no report on the NAT type global (%d other reports ignored)" % (
            sum(len(c["script"]) for c in cases), len(reports)))


# --------------------------------------------------------------------------------------------
# stand-alone entry (bin/check C16_NAT [--only periodic,nat]); c16.py calls the two parts itself

def run_parts(chk, args, only=("periodic", "nat")):
    """both parts side by side: the NAT part mostly waits for real time (20 s data channel timeout)"""
    errs = []

    def guard(fn):
        try:
            fn(chk, args)
        except vlib.Inconclusive as e:
            errs.append(str(e))
        except Exception:  # noqa
            import traceback
            errs.append("internal error:\n" + traceback.format_exc())
    ths = []
    if "nat" in only:
        ths.append(threading.Thread(target=guard, args=(run_nat_part,)))
    if "periodic" in only:
        ths.append(threading.Thread(target=guard, args=(run_periodic_part,)))
    for t in ths:
        t.start()
    for t in ths:
        t.join()
    for e in errs:
        chk.fail(e)


def replay(chk, rp):
    """re-execute the `replay` object of one of this module's violation files; returns False when it is not ours"""
    kind = rp.get("kind")
    if kind == "periodic":
        plan = dict(rp["plan"], id=1)
        recs, hang, gr = p_run_plans([plan], "replay")
        if hang is not None:
            chk.violation(p_hang_signature(hang), "the real task.Periodic hangs on the replayed plan", {"kind": "periodic", "plan": plan, "stacks": hang.get("hang", "")[:6000]})
            return True
        t = recs[0]
        err, rej, r = p_validate(chk, [t], "Trace.cfg", "replay")
        if err:
            chk.violation("Periodic/%s/%s" % (err, p_context(t["events"], len(t["events"]))), "invariant %s fails on the replayed plan" % err, {"kind": "periodic", "plan": plan, "trace": t})
        elif rej:
            sig, what = p_signature(chk, t, rej[1])
            chk.violation(sig, what + " (replayed plan)", {"kind": "periodic", "plan": plan, "trace": t, "first_unexplained": rej[1]})
        else:
            chk.cov["traces_validated_against_impl"] += 1
            chk.note("replay: the recorded execution is accepted by spec/Periodic")
        return True
    if kind == "nat":
        c = rp["case"]
        recs, r = n_run_proc(n_binary(), [c], n_cost(c) * 2 + 120)
        rec = next((x for x in recs if x.get("id") == c["id"]), None)
        if rec is None:
            chk.fail("replay: the driver returned no record:\n" + r.out[-1500:])
            return True
        res = n_judge_start(c, rec) if c["kind"] == "start" else n_judge_script(c, rec)
        for sig, what in res[:3]:
            chk.violation(sig, what + " (replayed case)", {"kind": "nat", "case": c, "observed": rec})
        if not res:
            chk.note("replay: the case conforms to the contract of spec/ProxyNAT")
        return True
    if kind == "nat-race":
        chk.fail("replay of a race report: run the thorough tier (the race detector needs the hammering run)")
        return True
    return False


def run(chk, args):
    if getattr(args, "replay", None):
        with open(args.replay) as fh:
            if not replay(chk, json.load(fh)["replay"]):
                chk.fail("replay file is not from c16_nat")
        return
    only = tuple((getattr(args, "only", None) or "periodic,nat").split(","))
    run_parts(chk, args, only)
    chk.cov["exhaustive"] = False
    chk.cov["rule"] = ("Periodic: a case is one execution of the real task.Periodic driven by a TLC behaviour or a seeded herd and accepted by TLC; "
                       "non-trivial = it contains a Close and at least one Execute run. ProxyNAT: a case is one probe script; non-trivial = it contains "
                       "a failing probe, a timeout, or a poll made while a probe is in flight")


MANIFEST = {
    "technique": "TLA+ specs Periodic (task.Periodic at the grain of its critical sections, explicit mutex, AfterFunc timers, explicit clock) and ProxyNAT "
                 "(checkNATType step by step, the NAT type global under its RWMutex, pollers); TLC model-checks all interleavings; TLC behaviours are replayed "
                 "with gates inside Execute into the real task.Periodic under the fake clock of testing/synctest and every recorded trace is validated by TLC "
                 "(Periodic_Trace); TLC-emitted probe scripts with contract values drive the real checkNATType / pollOffer / Start against a scripted probe "
                 "server, a real pion peer and a scripted broker",
    "text": "Periodic: Execute runs never overlap, none is admitted after Close's critical section, a delayed start never outlives a later Close, the interval "
            "is end-to-start, Close is idempotent and returns even when Execute calls it, nothing is left behind (liveness). ProxyNAT: the global always equals "
            "the table applied to the completed probes (open -> unrestricted, timeout -> restricted, any error keeps the previous value), every poll reports "
            "one of the three names and the value of the latest completed probe, a probe in flight never holds the lock while it blocks, no access without the lock.",
    "note": "Found and repaired: WaitThenStart not cancelled by Close (8ea02c9), nil dereference on an unparsable probe URL (e13debb), PeerConnection left open on "
            "every error path of checkNATType (48b5435), newSignalingServer mutating http.DefaultTransport while polls use it (3117e7d).",
}
