"""ServerMain part (the main loop of the server pluggable transport, server/server.go + stats.go),
to be called from the C05 check:

    from checks import c05_servermain
    c05_servermain.run_servermain_part(chk, args)       # adds to chk, never sets the verdict itself
    c05_servermain.replay_part(chk, rp)                 # for replay files with rp["kind"] == "servermain"

spec/ServerMain/ServerMain.tla        acceptLoop (temporary / permanent Accept errors; the retry after a
                                      temporary one - at once, as the code does, or after a pause - is noted, not judged), handleConn (statsChannel rendezvous with statsThread,
                                      pt.DialOr ok / fail), proxy (two copy goroutines at the grain of their
                                      Read / Write / CloseRead / CloseWrite / Close calls), main's shutdown
                                      (signal channel of capacity 1, SIGTERM, stdin close, listeners closed, exit
                                      without draining).  TLC: CopyLaw, ClosedOnEveryPath, CopiersGoneFirst,
                                      LoopEndsOnlyOnPerm,, NoStuck, NoStuckStats, action property
                                      DialFailContinues; liveness StatsNeverBlocks, HandlerEnds (under OrReacts),
                                      LoopEnds, ShutdownExits (one WF per goroutine step).
spec/ServerMain/ServerMain_Trace.tla  every trace recorded from the real code must be a behaviour of ServerMain.

Binding: (1) behaviours of GenSpec (commands at rest) - edge cover and seeded walks of TLC's dumped state graph
of the one-connection configuration, `tlc -simulate` of configurations with two and three connections, the
counterexamples of the as-is / what-if configurations - are executed by
harness/inpkg/server/servermain_verif_test.go against the real acceptLoop / handleConn / proxy / statsThread
(scripted net.Listener, scripted client net.Conn, the harness's loopback TCP listener as the ORPort behind the
real pt.DialOr) with goroutine-dump quiescence; (2) behaviours of the configuration with main are executed
against the real main() in a child process (real listener, a real Turbo Tunnel client per connection, SIGTERM or
stdin close at the scheduled point).  TLC accepts or rejects every recorded trace."""
import collections
import json
import os
import random
import re

import extgraph
import vlib

SPECDIR = os.path.join(vlib.SPEC, "ServerMain")
HFILE = os.path.join(vlib.HARNESS, "inpkg", "server", "servermain_verif_test.go")
MAX_REPORT = 6
SHARDS = 4

# Open findings of this part (entry format of known_findings.json).
KNOWN = []

INVS = "TypeOK CopyLaw ClosedOnEveryPath CopiersGoneFirst LoopEndsOnlyOnPerm NoStuck NoStuckStats".split()
TINVS = "TCopyLaw TClosedOnEveryPath TCopiersGoneFirst TLoopEndsOnlyOnPerm TNoStuck".split()

# (name, base configuration, constant overrides, expected verdict, generation configuration or None):
# configurations that MUST be violated - the properties are not vacuous; where the violation is visible at
# the replay grain the counterexample is a schedule for the real code (which must NOT show the failure)
WHATIF = [
    ("noAclose", "MC_one.cfg", {"Mut": '"noAclose"'}, "invariant:NoStuck", "Gen_one.cfg", {"Mut": '"noAclose"'}),
    ("breakOnTemp", "MC_one.cfg", {"Mut": '"breakOnTemp"'}, "invariant:LoopEndsOnlyOnPerm", "Gen_one.cfg", {"Mut": '"breakOnTemp"'}),
    ("noDeferConn", "MC_one.cfg", {"Mut": '"noDeferConn"'}, "invariant:ClosedOnEveryPath", "Gen_one.cfg", {"Mut": '"noDeferConn"'}),
    ("noDeferOr", "MC_one.cfg", {"Mut": '"noDeferOr"'}, "invariant:ClosedOnEveryPath", "Gen_one.cfg", {"Mut": '"noDeferOr"'}),
    ("orCloseEarly", "MC_one.cfg", {"Mut": '"orCloseEarly"'}, "invariant:CopiersGoneFirst", "Gen_one.cfg", {"Mut": '"orCloseEarly"'}),
    ("dropChunk", "MC_one2.cfg", {"Mut": '"dropChunk"'}, "invariant:CopyLaw", "Gen_one.cfg", {"Mut": '"dropChunk"'}),
    ("nostats", "MC_nostats.cfg", {}, None, "Gen_one.cfg", {"StatsThread": "FALSE"}),     # invariant NoStuckStats at the replay grain
    ("drain", "MC_drain.cfg", {}, "invariant:DrainOnExit", None, None),
]
GEN_WANT = {"nostats": "invariant:NoStuckStats"}
WHATIF_LIVE = [
    ("orsilent/live", "MC_orsilent.cfg", {}, "HandlerEnds", "temporal:HandlerEnds"),
    ("nostats/live", "MC_nostats.cfg", {}, "StatsNeverBlocks", "temporal:StatsNeverBlocks"),
]


# --------------------------------------------------------------------------
# behaviours -> command schedules

def cmd_of(label):
    """TLC action label of a GenSpec command -> harness command"""
    a = vlib.parse_action(label)
    n, args = a[0], a[1:]
    if n in ("GAccept", "LAcceptConn"):
        return {"op": "Accept", "d": args[0]}
    if n in ("GAcceptRetryAtOnce", "GAcceptRetryAfterPause", "AcceptRetryAtOnce", "AcceptRetryAfterPause"):     # one command: the code decides which
        return {"op": "AcceptTemp"}
    if n in ("GAcceptPerm", "LAcceptPerm"):
        return {"op": "AcceptPerm"}
    if n in ("GClientChunk", "ClientChunk"):
        return {"op": "ClientChunk", "i": args[0]}
    if n in ("GClientEnd", "ClientEnd"):
        return {"op": "ClientEnd", "i": args[0], "kind": args[1]}
    if n in ("GConnWriteFail", "ConnWriteFail"):
        return {"op": "ConnWriteFail", "i": args[0]}
    if n in ("GOrChunk", "OrChunk"):
        return {"op": "OrChunk", "i": args[0]}
    if n in ("GOrFin", "OrFin"):
        return {"op": "OrFin", "i": args[0]}
    if n in ("GOrReset", "OrReset"):
        return {"op": "OrReset", "i": args[0]}
    if n in ("GSigterm", "MSigterm"):
        return {"op": "Sigterm"}
    if n in ("GStdinEOF", "MStdinEOF"):
        return {"op": "StdinEOF"}
    return None


def key_of(s):
    return (s["mode"],) + tuple((x["op"], x.get("i"), x.get("d"), x.get("kind")) for x in s["steps"])


def nontrivial(s):
    """non-trivial: an error / end-of-stream / shutdown event next to at least one other command"""
    ops = [x["op"] for x in s["steps"]]
    hot = {"AcceptTemp", "AcceptPerm", "ClientEnd", "ConnWriteFail", "OrFin", "OrReset", "Sigterm", "StdinEOF"}
    return len(ops) > 1 and (bool(hot & set(ops)) or any(x.get("d") == "fail" for x in s["steps"]))


def dump_graph(chk, cfg):
    d = vlib.scratch("srvmain-dot")
    dot = os.path.join(d, cfg.replace(".cfg", ".dot"))
    r = vlib.tlc(SPECDIR, "ServerMain", cfg, workers=2, timeout=900, dump_dot=dot, keep_prints=False, heap="3g")
    if r.error:
        raise vlib.Inconclusive("ServerMain GenSpec %s: %s\n%s" % (cfg, r.error, r.out[-1500:]))
    return extgraph.Graph(dot, cmd_of), r


def simulate(chk, cfg, num, depth):
    d = vlib.scratch("srvmain-sim-%s-%d" % (cfg, chk.seed))
    r = vlib.tlc(SPECDIR, "ServerMain", cfg, workers=1, timeout=600, simulate="file=%s/t,num=%d" % (d, num),
                 depth=depth, seed=chk.seed, keep_prints=False)
    if r.error:
        raise vlib.Inconclusive("ServerMain simulation %s: %s" % (cfg, r.error))
    out = []
    for f in sorted(os.listdir(d)):
        steps = []
        with open(os.path.join(d, f)) as fh:
            for line in fh:
                m = re.match(r'^\\\* <(\w+(?:\([^)]*\))?) line ', line)
                if m and m.group(1).startswith("G"):
                    c = cmd_of(m.group(1))
                    if c is not None:
                        steps.append(c)
        if steps:
            out.append(steps)
    return r, out


# --------------------------------------------------------------------------
# model checking

def model_check_start(chk, q):
    """design-level model checking + vacuity guards, all started side by side; model_check_collect joins them"""
    cfgs = ["MC_q_one.cfg", "MC_q_loop.cfg", "MC_q_main.cfg"] if q else ["MC_one.cfg", "MC_main.cfg", "MC_one2.cfg", "MC_two.cfg"]
    gen_base = "Gen_q.cfg" if q else "Gen_one.cfg"
    jobs = []
    for cfg in cfgs:
        big = cfg in ("MC_two.cfg", "MC_one2.cfg")
        jobs.append((cfg, extgraph.Bg(vlib.tlc, SPECDIR, "ServerMain", cfg, workers=(6 if big else 2), timeout=1500, keep_prints=False,
                                      coverage=(not q and cfg in ("MC_one.cfg", "MC_main.cfg")), heap="4g" if big else None)))
    guards = []
    for name, base, over, want, gen, gover in WHATIF:
        gbg = bg = None
        if gen is not None:
            gcfg = "Gen_one.cfg" if name == "dropChunk" else gen_base       # the second chunk needs NUp = 2
            gconsts = extgraph.with_constants(extgraph.read_cfg_constants(os.path.join(SPECDIR, gcfg)), **gover)
            gbg = extgraph.Bg(extgraph.tlc_raw, None, SPECDIR, "ServerMain", "WG_%s.cfg" % name, extgraph.cfg_text(gconsts, "GenSpec", invariants=INVS), workers=1, timeout=300)
        if want is not None and (gen is None or not q):
            consts = extgraph.with_constants(extgraph.read_cfg_constants(os.path.join(SPECDIR, base)), **over)
            inv = INVS + (["DrainOnExit"] if name == "drain" else [])
            bg = extgraph.Bg(extgraph.tlc_raw, None, SPECDIR, "ServerMain", "WI_%s.cfg" % name, extgraph.cfg_text(consts, "Spec", invariants=inv), workers=1, timeout=300)
        guards.append((name, want, gen, gbg, bg))
    lives = []
    if not q:
        for name, base, over, prop, want in WHATIF_LIVE:
            consts = extgraph.with_constants(extgraph.read_cfg_constants(os.path.join(SPECDIR, base)), **over)
            txt = extgraph.cfg_text(consts, "Spec", invariants=["TypeOK"], properties=[prop])
            lives.append((name, want, extgraph.Bg(extgraph.tlc_raw, None, SPECDIR, "ServerMain", "WL_%s.cfg" % name.replace("/", "_"), txt, workers=1, timeout=600)))
    chk.cov["servermain_whatif"] = [g[0] for g in guards] + [x[0] for x in lives]
    return jobs, guards, lives


def model_check_collect(chk, started):
    jobs, guards, lives = started
    taken = {}
    for cfg, bg in jobs:
        r = bg.get()
        chk.add_tlc(r)
        chk.note("TLC ServerMain %s: %d distinct states, error=%s (%.0fs)" % (cfg, r.distinct, r.error, r.wall))
        if r.error:
            chk.fail("ServerMain model check %s failed in the model alone (no verdict): %s\n%s" % (cfg, r.error, r.out[-2500:]))
        for a, (d, t) in r.coverage.items():
            taken[a] = taken.get(a, 0) + t
    if taken:
        never_ok = {"Init"}
        zero = sorted(a for a, t in taken.items() if t == 0 and a not in never_ok)
        chk.cov.setdefault("coverage_zero_actions", [])
        chk.cov["coverage_zero_actions"] += ["ServerMain:" + z for z in zero]
        if zero:
            chk.fail("vacuity: ServerMain actions never taken in the configurations run with -coverage: %s" % zero)
    for name, want, gen, gbg, bg in guards:
        if bg is not None:
            v, r = bg.get()
            chk.add_tlc(r)
            if v != want:
                chk.fail("vacuity: ServerMain what-if configuration %s gives %s, expected %s" % (name, v, want))
    for name, want, bg in lives:
        v, r = bg.get()
        chk.add_tlc(r)
        if v != want:
            chk.fail("vacuity: ServerMain what-if configuration %s gives %s, expected %s" % (name, v, want))


def guard_schedules(chk, started):
    """minimal failing schedules of the what-if models at the replay grain: on the unchanged code they must run
    WITHOUT the failure the what-if model predicts"""
    out = []
    for name, want, gen, gbg, _ in started[1]:
        want = GEN_WANT.get(name, want)
        if gbg is None:
            continue
        v, r = gbg.get()
        chk.add_tlc(r)
        if v != want:
            chk.fail("vacuity: ServerMain what-if %s gives %s at the replay grain (%s), expected %s" % (name, v, gen, want))
            continue
        steps = [c for c in (cmd_of(l) for l in extgraph.cex_labels(r.out) if l.startswith("G")) if c]
        if steps and name != "nostats":
            out.append({"mode": "gated", "steps": steps, "src": "cex:" + name})
    return out


# --------------------------------------------------------------------------
# harness + trace validation

def harness_binary():
    return vlib.go_test_compile_inpkg("server", [HFILE], "servermain.test", linkflag=True)


class Crash(Exception):
    def __init__(self, ndone, message, out):
        Exception.__init__(self, message)
        self.ndone, self.message, self.out = ndone, message, out


def crash_message(out):
    """the panic / fatal error of a harness process that died in the code under test (None: it died elsewhere)"""
    m = re.search(r"^(panic: .*|fatal error: .*)$", out, re.M)
    if not m:
        return None
    tail = out[m.start():]
    # innermost frames: repository code, and not the harness's own functions, must be on the panicking goroutine
    first = tail.split("\n\n")[0] + "\n" + (tail.split("\n\n")[1] if "\n\n" in tail else "")
    frames = re.findall(r"^(\S+)\(.*\)$", first, re.M)
    own = [f for f in frames if "snowflake.git/v2/" in f and ".vSrv" not in f and ".(*vSrv" not in f]
    if not own:
        return None
    return re.sub(r"0x[0-9a-f]+|\d+", "N", m.group(1))[:100]


def run_shard(binary, scheds, tag, patience_ms=None, extra_env=None):
    d = vlib.scratch("srvmain-run")
    inp, outp = os.path.join(d, tag + ".sched.ndjson"), os.path.join(d, tag + ".traces.ndjson")
    vlib.write_ndjson(inp, [{k: s[k] for k in ("id", "mode", "steps") if k in s} for s in scheds])
    env = dict(os.environ)
    env.update({"VERIF_SRV_SCHED": inp, "VERIF_SRV_OUT": outp})
    if patience_ms:
        env["VERIF_SRV_PATIENCE_MS"] = str(patience_ms)
    env.update(extra_env or {})
    r = vlib.run([binary, "-test.run=^TestVerifServerMain$", "-test.timeout=900s", "-test.count=1"], cwd=d, env=env, timeout=960)
    traces = vlib.read_ndjson(outp) if os.path.exists(outp) else []
    # (a -race build - VERIF_RACE=1, the C20 monitor - fails the test function when the detector reported something:
    # the reports are C20's business, the traces are complete and are judged here as usual)
    raced = vlib.want_race(False) and r.rc == 1 and "race detected during execution of test" in r.out
    if r.timed_out or (r.rc != 0 and not raced) or "VERIF_SRV schedules=" not in r.out:
        msg = None if r.timed_out else crash_message(r.out)
        if msg is not None and len(traces) < len(scheds):
            raise Crash(len(traces), msg, r.out)
        raise vlib.Inconclusive("servermain harness failed (rc=%s timeout=%s):\n%s" % (r.rc, r.timed_out, r.out[-3000:]))
    if len(traces) != len(scheds):
        raise vlib.Inconclusive("servermain harness returned %d traces for %d schedules" % (len(traces), len(scheds)))
    return traces


def run_shard_surviving(chk, binary, scheds, tag, patience_ms=None, extra_env=None):
    """run_shard, but a process that dies inside the code under test is a finding of the schedule that was running:
    it is confirmed alone, reported, and the rest of the shard continues in a new process"""
    out, rest, crashes = [], list(scheds), 0
    while rest:
        try:
            return out + run_shard(binary, rest, "%s-%d" % (tag, crashes), patience_ms, extra_env)
        except Crash as c:
            crashes += 1
            culprit = rest[c.ndone]
            partial = vlib.read_ndjson(os.path.join(vlib.scratch("srvmain-run"), "%s-%d.traces.ndjson" % (tag, crashes - 1)))
            out += partial[:c.ndone]
            try:
                run_shard(binary, [dict(culprit, id=1)], "%s-crash-%d" % (tag, crashes), 5000, extra_env)
                chk.fail("ServerMain: the harness process died (%s) while running %s, but not when that schedule ran alone" % (c.message, json.dumps(culprit["steps"])))
            except Crash as c2:
                sig = "ServerMain/crash:" + re.sub(r"[^A-Za-z0-9]+", "-", c2.message).strip("-")[:60]
                chk.violation(sig, "the process died inside the server main loop: %s; schedule: %s\n%s" % (c2.message, json.dumps(culprit["steps"]), c2.out[-1500:]),
                              {"kind": "servermain", "schedule": culprit, "crash": c2.message})
            if crashes >= 3:
                raise vlib.Inconclusive("servermain harness: the process died %d times (%s)" % (crashes, c.message))
            CRASHED.add(culprit["id"])
            rest = rest[c.ndone + 1:]
    return out


CRASHED = set()


def run_schedules(binary, scheds, tag, patience_ms=None, shards=SHARDS, extra_env=None, chk=None):
    """one schedule at a time per process (the ORPort address is a package variable of the code under test);
    several processes side by side"""
    if not scheds:
        return []
    shards = max(1, min(shards, len(scheds)))
    parts = [scheds[i::shards] for i in range(shards)]
    if chk is not None:
        jobs = [extgraph.Bg(run_shard_surviving, chk, binary, part, "%s-%d" % (tag, i), patience_ms, extra_env) for i, part in enumerate(parts)]
    else:
        jobs = [extgraph.Bg(run_shard, binary, part, "%s-%d" % (tag, i), patience_ms, extra_env) for i, part in enumerate(parts)]
    out = []
    for j in jobs:
        out += j.get()
    return sorted(out, key=lambda t: t["id"])


def brief(e):
    if e.get("ev") == "obs":
        return "obs loop=%s pauses=%d conns=%s" % (e["loop"], e["pauses"], ["%s/%s/%s closed=%s(%d) taken=%d cgot=%s ogot=%s ofin=%s oclosed=%s dialerr=%s%s" % (
            c["h"], c["a"], c["b"], c["closed"], c.get("ncloses", 0), c["taken"], c["cgot"], c["ogot"], c["ofin"], c["oclosed"], c["dialerr"],
            " USE-AFTER-RETURN" if c["use"] else "") for c in e["conns"]])
    if e.get("ev") == "pobs":
        return "pobs exited=%s%s conns=%s" % (e["exited"], (" exit=%s after %d ms" % (e.get("code"), e.get("ms", -1))) if e["exited"] else "",
                                              ["cgot=%s ogot=%s ofin=%s" % (c["cgot"], c["ogot"], c["ofin"]) for c in e["conns"]])
    return json.dumps(e, sort_keys=True)


def signature(trace, hw):
    """canonical signature of a rejected trace from its first unexplained event: the abstract situation only"""
    evs = trace["events"]
    e = evs[hw - 1] if 0 < hw <= len(evs) else {}
    before = evs[:max(hw - 1, 0)]
    prev_obs = next((x for x in reversed(before) if x.get("ev") in ("obs", "pobs")), None)
    cmd = next((x for x in reversed(before) if x.get("ev") not in ("obs", "pobs")), {})
    cname = cmd.get("ev", "?") + (":" + cmd["d"] if "d" in cmd else "") + (":" + cmd["kind"] if "kind" in cmd else "")
    if e.get("ev") == "pobs":
        ptemp = sum(1 for x in before if x.get("ev") in ("Sigterm", "StdinEOF"))
        if ptemp and not e["exited"]:
            return "ServerMain/main:no-exit-after-%s" % cname
        if e["exited"] and not ptemp:
            return "ServerMain/main:exit-without-signal/after-%s" % cname
        if cmd.get("ev") in ("Connect", "ClientChunk") and all(not c["ogot"] for c in e["conns"]) and not e["exited"]:
            return "ServerMain/main:connections-never-reach-the-orport"
        return "ServerMain/main:unexplained/after-%s" % cname
    if e.get("ev") != "obs":
        return "ServerMain/unexplained:command-%s" % e.get("ev")
    ntemp = sum(1 for x in before if x.get("ev") == "AcceptTemp")
    nperm = sum(1 for x in before if x.get("ev") == "AcceptPerm")
    if e["loop"] == "busy":
        return "ServerMain/acceptLoop:not-accepting-while-a-connection-is-handled"
    if e["loop"] == "ended" and nperm == 0:
        return "ServerMain/acceptLoop:ended-without-permanent-error/after-%s" % cname
    if e["loop"] != "ended" and nperm > 0:
        return "ServerMain/acceptLoop:survives-permanent-error"
    for i, c in enumerate(e["conns"]):
        was = prev_obs["conns"][i] if prev_obs and i < len(prev_obs["conns"]) else None
        if was is not None and {k: v for k, v in was.items() if k != "ncloses"} == {k: v for k, v in c.items() if k != "ncloses"}:
            continue
        if c["use"]:
            return "ServerMain/conn:used-after-handler-returned"
        if 0 in c["cgot"] or 0 in c["ogot"] or c["cgot"] != list(range(1, len(c["cgot"]) + 1)) or c["ogot"] != list(range(1, len(c["ogot"]) + 1)):
            return "ServerMain/copy:%s-stream-corrupt/after-%s" % ("down" if (0 in c["cgot"] or c["cgot"] != list(range(1, len(c["cgot"]) + 1))) else "up", cname)
        if c["h"] == "done" and not c["closed"]:
            return "ServerMain/handler:returned-client-conn-open/%s" % ("dial-failed" if c["a"] == "none" else "after-proxy")
        if c["h"] == "done" and c["a"] != "none" and not c["oclosed"]:
            return "ServerMain/handler:returned-orport-conn-open"
        if c["h"] == "done" and cmd.get("ev") == "ClientEnd" and was is not None and was["h"] == "wait" and c["ogot"] == was["ogot"] and c["oclosed"]:
            return "ServerMain/handler:did-not-wait-for-orport-after-client-end"
        if c["h"] == "wait" and c["b"] == "done" and not c["closed"] and cmd.get("ev") == "ClientEnd":
            return "ServerMain/conn:left-open-after-client-end"
        if c["h"] == "stats":
            return "ServerMain/handler:parked-at-stats-send"
        if c["h"] == "wait" and (c["a"], c["b"]) == ("done", "read"):
            return "ServerMain/hang:client-to-orport-copier-left-behind/after-%s" % cname
        if c["h"] == "wait" and (c["a"], c["b"]) == ("read", "done") and cmd.get("ev") in ("OrFin", "OrReset", "OrChunk"):
            return "ServerMain/hang:orport-to-client-copier-left-behind/after-%s" % cname
        if c["h"] == "wait" and (c["a"], c["b"]) == ("done", "done"):
            return "ServerMain/hang:handler-in-wait-with-both-copiers-gone"
        if c["oclosed"] and c["h"] != "done":
            return "ServerMain/orport:closed-before-copiers-ended/after-%s" % cname
        if was is not None and len(c["ogot"]) < c["taken"] and c["b"] == "read" and cmd.get("ev") == "ClientChunk":
            return "ServerMain/copy:up-chunk-missing"
        if was is not None and cmd.get("ev") == "OrChunk" and c["a"] == "read" and len(c["cgot"]) == len(was["cgot"]):
            return "ServerMain/copy:down-chunk-missing"
        return "ServerMain/unexplained:after-%s/h=%s/a=%s/b=%s/closed=%s/ofin=%s/oclosed=%s/dialerr=%s" % (
            cname, c["h"], c["a"], c["b"], c["closed"], c["ofin"], c["oclosed"], c["dialerr"])
    return "ServerMain/unexplained:after-%s/loop=%s" % (cname, e["loop"])


def retry_note(chk, traces):
    """what the accept loop did between a temporary Accept error and the next Accept call: noted, never judged"""
    ntemp = npause = 0
    for t in traces:
        obs = [e for e in t["events"] if e.get("ev") == "obs"]
        ntemp += sum(1 for e in t["events"] if e.get("ev") == "AcceptTemp")
        npause += obs[-1]["pauses"] if obs else 0
    if ntemp:
        chk.note("ServerMain observation (not judged): %d temporary Accept errors; the loop called Accept again at once after %d of them and paused (>= 4 ms) "
                 "before the next call after %d" % (ntemp, ntemp - npause, npause))
        chk.cov.setdefault("observations", {})["servermain_accept_retry"] = {"temporary_errors": ntemp, "retried_at_once": ntemp - npause, "paused_first": npause}


def trace_cfg(mode, nostats=False):
    consts = extgraph.with_constants(extgraph.read_cfg_constants(os.path.join(SPECDIR, "Trace.cfg")),
                                     WithMain="TRUE" if mode == "proc" else "FALSE", StatsThread="FALSE" if nostats else "TRUE",
                                     MaxPerm="0" if mode == "proc" else "1")
    invs = [i for i in TINVS if not (nostats and i == "TNoStuck")]
    return extgraph.cfg_text(consts, "TSpec", constraint="Mark", post="Post", invariants=invs)


def validate(chk, traces, tag, nostats=False):
    """TLC decides, per trace, whether ServerMain explains it.  Returns (accepted, [(trace, hw)] rejected)."""
    groups = collections.defaultdict(list)
    noted = [t for t in traces if t.get("note")]
    if noted:
        chk.fail("servermain harness: %d schedule(s) without a usable trace, e.g. schedule %s: %s" % (len(noted), noted[0]["id"], noted[0]["note"]))
    for t in traces:
        if t.get("note"):
            continue
        if (t.get("info") or {}).get("fd_not_found"):
            raise vlib.Inconclusive("servermain harness: schedule %s: the handler's end of the ORPort connection was not found among the process's descriptors" % t["id"])
        groups[t["mode"]].append(t)
    jobs = []
    for mode, ts in sorted(groups.items()):
        d = vlib.scratch("srvmain-tv")
        # several JVMs side by side for the big group
        nparts = 4 if len(ts) > 100 else 1
        for pi in range(nparts):
            part = ts[pi::nparts]
            f = os.path.join(d, "%s-%s-%d.ndjson" % (tag, mode, pi))
            vlib.write_ndjson(f, part)
            cfgname = "TV_%s.cfg" % mode
            jobs.append((mode, part, extgraph.Bg(vlib.tlc, SPECDIR, "ServerMain_Trace", cfgname, workers=1, timeout=900,
                                                 files={"traces.ndjson": f, cfgname: trace_cfg(mode, nostats)}, heap="3g")))
    accepted, rejected = 0, []
    for mode, ts, bg in jobs:
        r = bg.get()
        chk.add_tlc(r)
        if r.error:
            raise vlib.Inconclusive("ServerMain trace validation %s (model only): %s\n%s" % (mode, r.error, r.out[-2500:]))
        rej = extgraph.trace_verdict(r, len(ts), "ServerMain %s" % mode)
        accepted += len(ts) - len(rej)
        chk.note("TLC ServerMain_Trace %s: %d traces, %d rejected, %d states (%.0fs)" % (mode, len(ts), len(rej), r.distinct, r.wall))
        byid = {t["id"]: t for t in ts}
        rejected += [(byid[tid], hw) for tid, hw in sorted(rej.items())]
    return accepted, rejected


def report(chk, binary, rejected, byid):
    """turn rejected traces into violations; every rejection is confirmed by running the same schedule alone
    with a doubled patience first (the machine may be heavily loaded: what does not reproduce alone is no verdict)"""
    seen = collections.Counter()
    for t, hw in rejected:
        sig = signature(t, hw)
        seen[sig] += 1
        if seen[sig] > 1:
            continue
        if len(chk.violations) >= MAX_REPORT and not any(k.get("key") == sig for k in chk.known):
            continue
        sched = byid[t["id"]]
        again = run_schedules(binary, [dict(sched, id=1)], "confirm", patience_ms=5000, shards=1)
        _, rej2 = validate(chk, again, "confirm")
        if not rej2 or signature(rej2[0][0], rej2[0][1]) != sig:
            chk.fail("ServerMain: %s was seen once and not again when the schedule ran alone with more patience: %s" % (sig, json.dumps(sched["steps"])))
            continue
        t, hw = rej2[0]
        e = t["events"][hw - 1] if hw <= len(t["events"]) else {}
        what = ("the real server main loop (%s) did something spec/ServerMain does not allow: first unexplained event #%d: %s; schedule: %s" % (
            "main() in a child process" if t["mode"] == "proc" else "acceptLoop/handleConn/proxy in-package", hw, brief(e), json.dumps(sched["steps"])))
        chk.violation(sig, what, {"kind": "servermain", "schedule": sched, "trace": t, "first_unexplained": hw})
    for sig, n in seen.items():
        if n > 1:
            chk.note("  %s: %d traces" % (sig, n))


def nostats_demo(chk, binary):
    """the what-if "nobody receives from statsChannel" on the real code: without statsThread every handler parks
    at its first statement - shows that the harness sees that place and that the rendezvous is what lets handlers pass"""
    s = {"id": 1, "mode": "gated", "steps": [{"op": "Accept", "d": "ok"}, {"op": "Accept", "d": "ok"}], "src": "whatif:nostats"}
    traces = run_schedules(binary, [s], "nostats", shards=1, extra_env={"VERIF_SRV_NOSTATS": "1"})
    acc, rej = validate(chk, traces, "nostats", nostats=True)
    obs = [e for e in traces[0]["events"] if e.get("ev") == "obs"]
    if rej or not obs or any(c["h"] != "stats" for c in obs[-1]["conns"]):
        chk.fail("ServerMain: without statsThread the handlers were expected to park at the statsChannel send (what-if StatsThread = FALSE); observed: %s" % (
            brief(obs[-1]) if obs else "nothing"))
    return acc


# --------------------------------------------------------------------------

def run_servermain_part(chk, args):
    chk.known.extend(k for k in KNOWN if k not in chk.known)
    q = chk.tier == "quick"
    rng = random.Random(chk.seed * 7919 + 5051)
    vlib.repo_modfile()
    build = extgraph.Bg(harness_binary)
    scheds, seen = [], set()

    def add(s):
        k = key_of(s)
        if not s["steps"] or k in seen:
            return
        seen.add(k)
        s = dict(s, id=len(scheds) + 1)
        scheds.append(s)

    try:
        gcfg = "Gen_q.cfg" if q else "Gen_one.cfg"
        graph_job = extgraph.Bg(dump_graph, chk, gcfg)
        main_job = extgraph.Bg(dump_graph, chk, "Gen_main.cfg")
        sims = (("Gen_two.cfg", 150, 40), ("Gen_sim.cfg", 100, 60)) if q else (("Gen_two.cfg", 1000, 40), ("Gen_sim.cfg", 1000, 60))
        sim_jobs = [(cfg, extgraph.Bg(simulate, chk, cfg, num, depth)) for cfg, num, depth in sims]
        started = model_check_start(chk, q)
        gs = guard_schedules(chk, started)
        chk.note("ServerMain: %d what-if / as-is configurations violate exactly the property they target; %d counterexample schedules" % (
            len(chk.cov.get("servermain_whatif", [])), len(gs)))
        for s in gs:
            add(s)
        stats = {}
        g, r = graph_job.get()
        chk.add_tlc(r)
        paths, total, covered = g.covering(rng, 10 ** 6, maxcmds=16)
        for p in paths:
            add({"mode": "gated", "steps": g.steps(p), "src": "cover:" + gcfg})
        for p in g.walks(rng, 100 if q else 800, 14):
            add({"mode": "gated", "steps": g.steps(p), "src": "walk:" + gcfg})
        stats[gcfg] = {"states": r.distinct, "edges": len(g.edges), "command_edges": total, "command_edges_covered": covered, "paths": len(paths)}
        chk.note("ServerMain GenSpec %s: %d states, %d edges, %d/%d command edges covered by %d paths" % (gcfg, r.distinct, len(g.edges), covered, total, len(paths)))
        for cfg, bg in sim_jobs:
            r, behs = bg.get()
            chk.add_tlc(r)
            for steps in behs:
                add({"mode": "gated", "steps": steps, "src": "simulate:" + cfg})
        # the configuration with main: behaviours for the child-process rig
        gm, r = main_job.get()
        chk.add_tlc(r)
        nproc = 0
        if PROC_ENABLED:
            pp, ptotal, pcov = gm.covering(rng, 10 ** 6, maxcmds=10)
            pp = [p for p in pp if any(c["op"] in ("Sigterm", "StdinEOF") for c in gm.steps(p)) and not any(c.get("d") == "fail" for c in gm.steps(p))]
            rng.shuffle(pp)
            for p in pp[:(10 if q else 60)]:
                before = len(scheds)
                add({"mode": "proc", "steps": [dict(c, op="Connect") if c["op"] == "Accept" else c for c in gm.steps(p)], "src": "cover:Gen_main.cfg"})
                nproc += len(scheds) - before
            stats["Gen_main.cfg"] = {"states": r.distinct, "edges": len(gm.edges), "command_edges": ptotal, "paths_with_signal": len(pp), "taken": nproc}
        chk.cov.setdefault("generation", {}).update({"ServerMain:" + k: v for k, v in stats.items()})
        if len(scheds) < 200:
            raise vlib.Inconclusive("vacuous: only %d server main loop schedules generated" % len(scheds))
        binary = build.get()
        gated = [s for s in scheds if s["mode"] == "gated"]
        procs = [s for s in scheds if s["mode"] == "proc"]
        pj = extgraph.Bg(run_schedules, binary, procs, "proc", None, 2, None, chk)
        nj = extgraph.Bg(nostats_demo, chk, binary)
        traces = run_schedules(binary, gated, "main", chk=chk) + pj.get()
        scheds = [s for s in scheds if s["id"] not in CRASHED]
        byid = {s["id"]: s for s in scheds}
        skipped = sum(t["skipped"] for t in traces)
        ncmd = sum(len(s["steps"]) for s in scheds)
        chk.note("ServerMain: replayed %d schedules with %d commands on the real code (%d in-package, %d against main() in a child process; %d commands not applicable)" % (
            len(scheds), ncmd, len(gated), len(procs), skipped))
        if skipped * 5 > max(ncmd, 1):
            raise vlib.Inconclusive("more than 20%% of the commands (%d of %d) were not applicable: the model does not describe the code" % (skipped, ncmd))
        accepted, rejected = validate(chk, traces, "main")
        retry_note(chk, traces)
        report(chk, binary, rejected, byid)
        accepted += nj.get()
        model_check_collect(chk, started)
        chk.cov["evaluations"] += len(scheds) + 1
        chk.cov["distinct_nontrivial"] += sum(1 for s in scheds if nontrivial(s))
        chk.cov["traces_validated_against_impl"] += accepted
        exits = [e["ms"] for t in traces if t["mode"] == "proc" for e in t["events"] if e.get("ev") == "pobs" and e.get("exited") and "ms" in e]
        chk.cov["servermain"] = {"schedules": len(scheds), "in_package": len(gated), "child_process": len(procs), "commands": ncmd, "commands_skipped": skipped,
                                 "accepted": accepted, "rejected": len(rejected), "exit_ms_max": max(exits) if exits else None}
        for s in gated[:1] + procs[:1]:
            t = next(t for t in traces if t["id"] == s["id"])
            chk.sample({"servermain_schedule": {k: s[k] for k in ("mode", "src")}, "steps": s["steps"],
                        "last_observation": brief(t["events"][-1]) if t["events"] else None}, limit=5)
    except vlib.Inconclusive as e:
        chk.fail(str(e))
        try:
            build.get()
        except BaseException:   # noqa: BLE001 - already failing
            pass
    chk.assumptions += [
        "ServerMain: gated replays issue commands only when every goroutine of the code under test is parked (GenSpec); finer interleavings are covered by TLC on the model",
        "ServerMain: the client conn is a scripted net.Conn that behaves like the real one (smux stream) at Close: Close unblocks Read, later Read/Write/Close return io.ErrClosedPipe",
        "ServerMain: the ORPort is a loopback TCP listener of the harness behind the real pt.DialOr (plain ORPort; ExtORPort metadata is C18's subject); it always reads (no back-pressure)",
        "ServerMain: an observation waits (at most 2 s, 5 s in the confirmation run) for loopback TCP to deliver what parked goroutines have written; a pause of the accept loop is a gap of at least 4 ms between a temporary error and the next Accept call",
        "ServerMain: or.Close() is observed through the descriptor table of the process (the handler's end of the loopback connection is gone or replaced)",
        "ServerMain: the child-process rig waits 10 s for main() to exit after the signal",
    ]


PROC_ENABLED = True


def replay_part(chk, rp):
    s = dict(rp["schedule"], id=1)
    binary = harness_binary()
    traces = run_schedules(binary, [s], "replay", shards=1)
    accepted, rejected = validate(chk, traces, "replay")
    report(chk, binary, rejected, {1: s})
    chk.cov["evaluations"] += 1
    chk.cov["traces_validated_against_impl"] += accepted


# standalone use (debugging): bin/check C05_SERVERMAIN
LEVEL = "model_checking"


def run(chk, args):
    if args.replay:
        with open(args.replay) as fh:
            return replay_part(chk, json.load(fh)["replay"])
    run_servermain_part(chk, args)
    chk.cov["rule"] = "one evaluation = one schedule executed on the real server main loop and judged by TLC; non-trivial = contains an error / end-of-stream / shutdown event next to other commands"
