"""C19 - published broker counts are rounded up to 8 and never too low.
Part A (here): the true counts are variables of spec/Broker/Broker_Trace.tla,
updated by the validated events of replayed exchanges that are concatenated
on one BrokerContext so that counts cross 8, 16, 24...; the figures scraped
from the real metrics log and the real Prometheus registry must equal
Ceil8(true count), per-type address figures the number of distinct addresses.
Parts B and C (lib/checks/c19_parts.py): counter laws incl. concurrent Inc,
and the distinct-IP journal."""
import importlib
import json

import brokerlib
import vlib

LEVEL = "model_checking"


def run(chk, args):
    if args.replay:
        with open(args.replay) as fh:
            rp = json.load(fh)["replay"]
        if "scenario" in rp:
            return brokerlib.replay(chk, "C19", args.replay)
    q = chk.tier == "quick"
    only = (args.only or "broker,counter,journal").split(",")
    if "broker" in only:
        counts = {"Gen_small": 200, "Gen_core": 300, "Gen_match": 200} if q else {"Gen_small": 800, "Gen_core": 2500, "Gen_match": 1500, "Gen_big": 1500}
        # few shards: long runs on one BrokerContext so that every counter passes several multiples of 8
        brokerlib.pipeline(chk, "C19", chk.tier, chk.seed + 19, counts=counts, herds=30 if q else 300, do_mc=False, shards=4 if q else 8)
    try:
        parts = importlib.import_module("checks.c19_parts")
    except ImportError:
        parts = None
    if parts is not None:
        if "counter" in only:
            parts.run_counter_part(chk, args)
        if "journal" in only:
            parts.run_journal_part(chk, args)
    else:
        chk.note("c19_parts not present: counter-law and journal parts skipped")
    chk.assumptions += ["true counts are reconstructed by TLC from the validated events of the same executions"]


MANIFEST = {
    "technique": "TLA+ trace spec Broker_Trace carries the true event counts and per-type address sets; figures scraped from the real metrics log and Prometheus registry after TLC-generated exchanges concatenated on one BrokerContext must equal Ceil8(count); spec Metrics (sequential law, concurrent Inc model) and spec Journal (writer machine, window contract) with replay into the real roundedCounter, binCount and sinkcluster",
    "text": "The published figures are checked against counts that TLC itself derives from the validated trace of the same execution, for runs of hundreds of exchanges per broker context (counts pass many multiples of 8, measurement-period rollovers included); the counter laws and the journal window contract are explicit TLA+ operators whose enumerated cases are replayed into the real code, and the concurrent Inc is model-checked at the grain of its memory operations.",
    "note": "NAT-type address figures (snowflake-ips-nat-*) and per-country figures are not judged (they depend on the GeoIP database and on first-sighting order); HyperLogLog is trusted within its documented error.",
}
