"""C09 at the call sites of common/encapsulation (wired in by lib/checks/c09.py after the
package-level parts).

spec/Encap/EncapSites.tla EXTENDS Encap: the same case grammar and the same contract
(`Expected(ops, L)`), bound to the two places where the product puts a stream under the decoder.

client  client/lib/turbotunnel.go  encapsulationPacketConn.ReadFrom / WriteTo.
        Contract `Deliver`: the k-th ReadFrom with a buffer of b bytes returns the first
        Min(b, len_k) bytes of the k-th data chunk, and the stream is left at the end of that
        chunk whatever b was (`LaterChunksUnaffected`).  TLC checks the ReadFrom machine (buffer
        chosen anew for every call) against it, shows that the variant which reads only Min(b, n)
        bytes violates it, and prints for every case the bytes delivered per call for the buffer
        lengths 1, 63, 64, 1500 (RedialPacketConn), 8192, 65536, 2^20 and for a run with
        changing buffers.  harness/inpkg/client_lib/encap_callsite_verif_test.go runs the real
        encapsulationPacketConn over the scripted io.Reader of the case and over the receive
        pipe of a WebRTCPeer (one Write per message); WriteTo streams are decoded with the real
        ReadData while a second goroutine reads a case from the same connection.
server  server/lib/http.go  turbotunnelMode.
        Contract `MessageFraming`: the packets queued are Expected(ops, L).chunks for every way of
        cutting ClientID + stream into messages.  TLC checks the read loop over a message-framed
        connection for the design of the tree (no read-ahead) and for a persistent buffered
        reader, shows that a buffered reader per ReadData call violates it, and prints the
        framings (one chunk per message; everything in one message; cut according to the
        reader script: empty messages, single bytes, inside prefixes and bodies, a chunk boundary
        inside a message).  harness/inpkg/server_lib/encap_callsite_verif_test.go feeds the real
        turbotunnelMode through an io.Pipe (ClientID in its own message / sharing the first
        message / split over two), reads the QueuePacketConn, decodes the downstream with the
        real ReadData, and sends a sample through the real ServeHTTP over a loopback WebSocket
        (token, ClientID and chunks sharing messages)."""
import json
import os
import threading
import time

import vlib

SPECDIR = os.path.join(vlib.SPEC, "Encap")
MODULE = "EncapSites"
H_CLIENT = os.path.join(vlib.HARNESS, "inpkg", "client_lib", "encap_callsite_verif_test.go")
H_SERVER = os.path.join(vlib.HARNESS, "inpkg", "server_lib", "encap_callsite_verif_test.go")
T_CLIENT = "TestVerifC09ClientCallSite"
T_SERVER = "TestVerifC09ServerCallSite"
SHARDS = 8

# design-level runs: (cfg, expected TLC verdict, what it shows)
MC_QUICK = [
    ("MCS_client_quick.cfg", None, "ReadFrom machine = Deliver contract, buffer chosen per call"),
    ("MCS_server_quick.cfg", None, "read loop over message framings = contract (no read-ahead, the design of the tree)"),
    ("MCS_server_persistent.cfg", None, "read loop with one buffered reader per connection = contract"),
    ("MCS_client_nodrain.cfg", "invariant:LaterChunksUnaffected", "teeth: ReadFrom that reads only Min(len(p), n) bytes"),
    ("MCS_server_percall.cfg", "invariant:MessageFraming", "teeth: a new buffered reader per ReadData call"),
]
MC_THOROUGH = MC_QUICK + [
    ("MCS_client_thorough.cfg", None, "ReadFrom machine = Deliver contract (4 lengths, 4 buffers)"),
    ("MCS_server_thorough.cfg", None, "read loop over message framings = contract (4 lengths, scripts <= 2)"),
    ("MCS_server_persistent_thorough.cfg", None, "persistent buffered reader = contract (4 lengths, scripts <= 2)"),
]


def _parallel(jobs, limit=None):
    """jobs: {key: callable}; returns {key: result}; the first exception is re-raised.
    At most `limit` jobs run at a time (JVMs started side by side)."""
    res, errs = {}, []
    sem = threading.Semaphore(limit or max(4, vlib.NCPU - 2))

    def wrap(k, fn):
        with sem:
            try:
                res[k] = fn()
            except BaseException as e:  # noqa
                errs.append(e)
    ths = [threading.Thread(target=wrap, args=(k, fn)) for k, fn in jobs.items()]
    for t in ths:
        t.start()
        time.sleep(0.05)
    for t in ths:
        t.join()
    if errs:
        raise errs[0]
    return res


def _shard_cfg(cfg, shard):
    with open(os.path.join(SPECDIR, cfg)) as fh:
        text = fh.read()
    text = text.replace("Shards = 1", "Shards = %d" % SHARDS).replace("Shard = 0", "Shard = %d" % shard)
    return text


def _gen(cfg, shard, outdir):
    name = "_%s_%d.cfg" % (cfg[:-4], shard)
    r = vlib.tlc(SPECDIR, MODULE, name, workers=1, timeout=1500, keep_prints=False, heap="3g",
                 files={name: _shard_cfg(cfg, shard)})
    path = os.path.join(outdir, "%s-%d.tlcout" % (cfg[:-4], shard))
    n = 0
    first = None
    with open(path, "w") as fh:
        for line in r.out.splitlines():
            if line.startswith('"{'):
                fh.write(line)
                fh.write("\n")
                n += 1
                if first is None or n == 1000:
                    first = line
    r.out = r.out[-3000:]
    return r, path, n, first


def _genw(cfg, outdir):
    r = vlib.tlc(SPECDIR, MODULE, cfg, workers=1, timeout=900, keep_prints=False, heap="2g")
    path = os.path.join(outdir, "%s.tlcout" % cfg[:-4])
    n = 0
    with open(path, "w") as fh:
        for line in r.out.splitlines():
            if line.startswith('"{'):
                fh.write(line)
                fh.write("\n")
                n += 1
    r.out = r.out[-3000:]
    return r, path, n, None


def _build():
    return _parallel({
        "client": lambda: vlib.go_test_compile_inpkg("client/lib", [H_CLIENT], "enc-client.test", linkflag=True),
        "server": lambda: vlib.go_test_compile_inpkg("server/lib", [H_SERVER], "enc-server.test", linkflag=True),
    })


def _run_site(chk, site, binary, test, files, wfiles, ws, timeout, kinds=None):
    d = vlib.scratch("c09cs")
    outp = os.path.join(d, "%s-%d.out.ndjson" % (site, int(time.time() * 1000) % 10 ** 9))
    env = vlib.goenv({"VERIF_ENC_IN": ",".join(files), "VERIF_ENC_WIN": ",".join(wfiles), "VERIF_ENC_OUT": outp,
                      "VERIF_ENC_WS": str(ws), "VERIF_SEED": str(chk.seed)})
    r = vlib.run([binary, "-test.run", "^%s$" % test, "-test.timeout", "%ds" % timeout], cwd=d, env=env, timeout=timeout + 30)
    if r.rc != 0 or r.timed_out or not os.path.exists(outp):
        raise vlib.Inconclusive("call-site harness %s failed (rc=%s timeout=%s):\n%s" % (test, r.rc, r.timed_out, r.out[-3000:]))
    return vlib.read_ndjson(outp), r.wall


def _klass(sig):
    """signature without the reader and buffer dimensions (used to report a variety of failures first)"""
    return "/".join(p for p in sig.split("/") if not p.startswith(("reader=", "buf=", "clientid=")))


def _judge(chk, site, results, max_report=8):
    summary = None
    bad = []
    for res in results:
        if "summary" in res:
            summary = res["summary"]
            continue
        sig = res.get("sig", "unknown")
        if sig.startswith("harness/"):
            raise vlib.Inconclusive("call-site harness problem (%s): %s" % (site, json.dumps(res)[:1500]))
        bad.append(res)
    # one report per class of failure first, then whatever else fits
    seen, first, rest = set(), [], []
    for res in bad:
        k = _klass(res["sig"])
        if k not in seen:
            seen.add(k)
            first.append(res)
        elif len(rest) < 4 * max_report:
            rest.append(res)
    order = first + rest
    reported = 0
    for res in order:
        sig = res["sig"]
        if reported < max_report or any(k.get("key") == sig for k in chk.known):
            kind = "write" if ("/WriteTo/" in sig or "/downstream/" in sig or "/duplex/" in sig) else "read"
            if chk.violation(sig, res.get("detail", ""), {"part": "callsites", "site": site, "kind": kind, "case": res.get("case"), "idx": res.get("idx")}):
                reported += 1
    if summary is None:
        raise vlib.Inconclusive("call-site harness (%s) wrote no summary" % site)
    summary["nonconforming"] = len(bad)
    return summary


def run_callsite_part(chk, args):
    q = chk.tier == "quick"
    t0 = time.time()
    outdir = vlib.scratch("c09cs-cases")
    gen_cfgs = ["GenS_quick.cfg"] if q else ["GenS_quick.cfg", "GenS_thorough.cfg", "GenS_big.cfg"]
    genw_cfgs = ["GenSW_quick.cfg"] if q else ["GenSW_quick.cfg", "GenSW_thorough.cfg"]
    mcs = MC_QUICK if q else MC_THOROUGH
    jobs = {("build", 0, 0): _build}
    for cfg, want, _ in mcs:
        jobs[("mc", cfg, 0)] = (lambda cfg=cfg, want=want: vlib.tlc(SPECDIR, MODULE, cfg, workers=2 if want else (3 if q else 4), timeout=1500, keep_prints=False, heap="4g"))
    for cfg in gen_cfgs:
        for s in range(SHARDS):
            jobs[("gen", cfg, s)] = (lambda cfg=cfg, s=s: _gen(cfg, s, outdir))
    for cfg in genw_cfgs:
        jobs[("genw", cfg, 0)] = (lambda cfg=cfg: _genw(cfg, outdir))
    res = _parallel(jobs)
    bins = res[("build", 0, 0)]

    # 1. design level
    for cfg, want, what in mcs:
        r = res[("mc", cfg, 0)]
        if want:
            # the search stops at the counterexample: the states seen until then are no coverage
            # (and their number depends on timing)
            chk.note("TLC %s: %s: verdict %s, as expected (%.0fs)" % (cfg, what, r.error, r.wall))
            r.distinct = r.generated = 0
        else:
            chk.note("TLC %s: %s: %d distinct states, verdict %s (%.0fs)" % (cfg, what, r.distinct, r.error or "no error", r.wall))
        chk.add_tlc(r)
        if r.error != want:
            if want is None:
                # a violation in the model alone is a defect of the specification, not a verdict
                chk.fail("call-site model check %s failed: %s\n%s" % (cfg, r.error, r.out[-2500:]))
            else:
                chk.fail("call-site model has no teeth: %s was expected to end with %s, TLC says %s" % (cfg, want, r.error))
            return

    # 2. cases and expectations printed by TLC
    files, wfiles, ncases, nw, per = {}, [], 0, 0, {}
    for (kind, cfg, s), v in sorted(res.items(), key=lambda kv: (kv[0][0], str(kv[0][1]), kv[0][2])):
        if kind not in ("gen", "genw"):
            continue
        r, path, n, first = v
        chk.add_tlc(r)
        per[cfg] = per.get(cfg, 0) + n
        if r.error:
            chk.fail("call-site case generation %s failed: %s\n%s" % (cfg, r.error, r.out[-2000:]))
            return
        if kind == "gen":
            files.setdefault(cfg, []).append(path)
            ncases += n
            if first and s == 0:
                chk.sample(json.loads(json.loads(first)), limit=5)
        else:
            wfiles.append(path)
            nw += n
    chk.note("TLC call-site cases (%d shards per read cfg): %s; %d read cases, %d packet sequences (%.0fs since the start of the part)" % (
        SHARDS, ", ".join("%s %d" % (c, per[c]) for c in gen_cfgs + genw_cfgs), ncases, nw, time.time() - t0))
    if ncases < 1000 or nw < 100:
        chk.fail("vacuous: only %d read / %d write call-site cases generated" % (ncases, nw))
        return

    # 3. the real call sites
    allfiles = [p for cfg in gen_cfgs for p in files[cfg]]
    ws = 150 if q else 1500
    out = _parallel({
        "client": lambda: _run_site(chk, "client", bins["client"], T_CLIENT, allfiles, wfiles, 0, 1500),
        "server": lambda: _run_site(chk, "server", bins["server"], T_SERVER, allfiles, wfiles, ws, 1500),
    })
    for site in ("client", "server"):
        results, wall = out[site]
        s = _judge(chk, site, results)
        chk.cov["evaluations"] += int(s.get("evaluations", 0))
        chk.cov["distinct_nontrivial"] += int(s.get("nontrivial", 0))
        if int(s.get("read_cases", -1)) != ncases:
            chk.fail("call-site harness (%s) ran %s read cases, %d were generated" % (site, s.get("read_cases"), ncases))
        if site == "client":
            chk.note("client call site: %d cases, %d ReadFrom/WriteTo runs of the real encapsulationPacketConn (%d runs in which a chunk is longer than the buffer), %d non-trivial cases (%.0fs)" % (
                s["cases"], s["evaluations"], s.get("truncating_runs", 0), s["nontrivial"], wall))
            if int(s.get("truncating_runs", 0)) < 1000:
                chk.fail("vacuous: only %s runs with a chunk longer than the buffer" % s.get("truncating_runs"))
        else:
            chk.note("server call site: %d cases, %d runs of the real turbotunnelMode/ServeHTTP over message framings, %d non-trivial cases (%.0fs)" % (
                s["cases"], s["evaluations"], s["nontrivial"], wall))
            if int(s.get("down_timeouts", 0)) and not chk.violations:
                chk.fail("server call site: %s downstream waits timed out without a violation being observed" % s.get("down_timeouts"))
    chk.cov["rule"] = (chk.cov.get("rule", "") + "  Call sites: the same TLC cases with, per case, the bytes each ReadFrom must deliver for 7 buffer lengths "
                       "and a run with changing buffers (client) and three framings of the stream into messages x three placements of the ClientID (server); "
                       "a client case is non-trivial when the stream is truncated, the reader fragments, or a chunk is longer than the buffer; a server case when "
                       "some message does not hold exactly one chunk or the ClientID shares a message; every WriteTo/downstream packet sequence counts.").strip()
    chk.assumptions += [
        "call sites: the connection under turbotunnelMode is an io.Pipe written once per message (what common/websocketconn puts there); a sample goes through the real ServeHTTP and a real loopback WebSocket",
        "call sites: concurrent WriteTo on one encapsulationPacketConn is outside the contract (no lock in the code; RedialPacketConn.exchange has a single writer per connection); one reader and one writer goroutine are exercised together",
        "call sites: how downstream Write calls are split and what happens to an unencodable queued packet are don't-care",
    ]


def replay(chk, rp):
    """rp: the `replay` object of a violation of this part"""
    bins = _build()
    d = vlib.scratch("c09cs-replay")
    case = rp.get("case")
    rfile, wfile = os.path.join(d, "r.ndjson"), os.path.join(d, "w.ndjson")
    rcases, wcases = [], []
    if rp.get("kind") == "write":
        if isinstance(case, dict) and "write" in case:
            wcases, rcases = [case["write"]], ([case["read"]] if case.get("read", {}).get("ops") is not None else [])
        else:
            wcases = [case]
    else:
        rcases = [case]
    vlib.write_ndjson(rfile, rcases)
    vlib.write_ndjson(wfile, wcases)
    site = rp["site"]
    results, _ = _run_site(chk, site, bins[site], T_CLIENT if site == "client" else T_SERVER, [rfile], [wfile], 1 if site == "server" and rcases else 0, 600)
    s = _judge(chk, site, results)
    chk.cov["evaluations"] += int(s.get("evaluations", 0))
    chk.cov["distinct_nontrivial"] += int(s.get("nontrivial", 0))
