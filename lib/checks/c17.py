"""C17 - turbotunnel packet adapters: no surfaced errors, leaks or aliasing.

spec/Redial     RedialPacketConn: dialLoop + reader/writer/exchange per carrier
                generation.  TLC checks the safety invariants and NoLeak
                (liveness, one WF per goroutine step); TLC-generated
                behaviours (every combination of fault orders for <= 3
                generations, sampled data behaviours, a long redial loop,
                queue-full runs) are replayed into the real object by
                harness/cmd/redialdrv and the recorded traces (events +
                goroutine profile at every quiescent point) are validated by
                TLC against Redial_Trace.
spec/QueueConn  QueuePacketConn + ClientMap with an explicit clock.  TLC checks
                the properties and emits every operation sequence with the
                expected result of every step; the in-package harness replays
                them against the real clientMapInner / QueuePacketConn.  The
                periodic sweeper of the real ClientMap is observed in real
                time and its trace validated against QueueConn_Trace."""
import concurrent.futures as cf
import json
import os
import random
import re
import threading
import time

import vlib

LOCK = threading.RLock()   # chk is shared by the validation threads

LEVEL = "model_checking"
RSPEC = os.path.join(vlib.SPEC, "Redial")
QSPEC = os.path.join(vlib.SPEC, "QueueConn")
INPKG = os.path.join(vlib.HARNESS, "inpkg", "common_turbotunnel", "queueconn_verif_test.go")

# Capacity of readErrCh/writeErrCh in exchange() as the code has it.  It was 0
# (D12: one goroutine leaked per redial) until the fix commit; every Redial
# configuration is run with this value.  VERIF_C17_ERRCHANCAP overrides it for
# experiments (e.g. to show what the unbuffered model predicts).
ERR_CHAN_CAP = int(os.environ.get("VERIF_C17_ERRCHANCAP", "1"))

INTERNAL = re.compile(r"^(Dl|Exchange|Reader|Writer|ReadFailsClosed|WriteFailsClosed)")
FAULTS = {"ReadFails", "WriteFails", "BothFail", "DialFails", "Close"}


def cfg_text(specdir, name, **subst):
    with open(os.path.join(specdir, name)) as fh:
        t = fh.read()
    for k, v in subst.items():
        t, n = re.subn(r"(?m)^(\s*%s\s*=\s*).*$" % re.escape(k), lambda m: m.group(1) + str(v), t)
        if n != 1:
            raise vlib.Inconclusive("cfg %s has no constant %s" % (name, k))
    return t


def rtlc(chk, module, cfgname, cfgtext, **kw):
    """TLC on spec/Redial with a generated cfg."""
    files = dict(kw.pop("files", {}) or {})
    files["_run_" + cfgname] = cfgtext
    r = vlib.tlc(RSPEC, module, "_run_" + cfgname, files=files, **kw)
    return r


_live_seq = [0]


def tlc_live(specdir, module, cfgname, cfgtext, workers=4, timeout=1500, coverage=False):
    """TLC run of a configuration with temporal properties.  (vlib.tlc does
    not recognise this TLC version's wording of a liveness violation -
    "Temporal property X was violated" - and would call it a tool failure.)"""
    with LOCK:
        _live_seq[0] += 1
        d = vlib.scratch("tlclive-%d-%s" % (_live_seq[0], module))
    for f in os.listdir(specdir):
        if f.endswith(".tla"):
            with open(os.path.join(specdir, f)) as src, open(os.path.join(d, f), "w") as dst:
                dst.write(src.read())
    with open(os.path.join(d, cfgname), "w") as fh:
        fh.write(cfgtext)
    cmd = ["tlc", "-metadir", os.path.join(d, "meta"), "-workers", str(workers), "-config", cfgname]
    if coverage:
        cmd += ["-coverage", "1"]
    cmd.append(module + ".tla")
    env = dict(os.environ)
    env["JAVA_TOOL_OPTIONS"] = (env.get("JAVA_TOOL_OPTIONS", "") + " -Xss64m").strip()
    r = vlib.run(cmd, cwd=d, env=env, timeout=timeout)
    res = vlib.TLCResult()
    res.out, res.wall, res.cmd, res.dir = r.out, r.wall, " ".join(cmd[:1] + cmd[3:]), d
    m = None
    for m in re.finditer(r"(\d+) states generated, (\d+) distinct states found", r.out):
        pass
    if m:
        res.generated, res.distinct = int(m.group(1)), int(m.group(2))
    if coverage:
        for m in re.finditer(r"^<(\w+) line \d+, col \d+ to line \d+, col \d+ of module (\w+)>: (\d+):(\d+)", r.out, re.M):
            res.coverage[m.group(1)] = (int(m.group(3)), int(m.group(4)))
    o = r.out
    if r.timed_out:
        raise vlib.Inconclusive("TLC timeout after %ss: %s" % (timeout, res.cmd))
    m = re.search(r"Temporal propert(?:y (\S+) was|ies were) violated", o)
    if m:
        res.error = "temporal"
    elif re.search(r"Invariant (\S+) is violated", o):
        res.error = "invariant:" + re.search(r"Invariant (\S+) is violated", o).group(1)
    elif re.search(r"Action property \S+ .*is violated", o):
        res.error = "actionprop:" + re.search(r"Action property (\S+)", o).group(1)
    elif "Model checking completed. No error has been found." in o:
        res.error = None
    else:
        raise vlib.Inconclusive("TLC failed (rc=%s): %s\n%s" % (r.rc, res.cmd, o[-3000:]))
    return res


# ---------------------------------------------------------------------------
# behaviours from the state graph

def projected_paths(dot, limit=None, rng=None):
    """All maximal paths of the dumped graph, projected onto the environment /
    user steps (goroutine steps are not driven: the real code takes them by
    itself).  With `limit`, a seeded random sample of root-to-leaf walks."""
    nodes, edges, inits = vlib.parse_dot(dot)
    succ = {}
    for s, d, lab in edges:
        if s != d:
            succ.setdefault(s, []).append((d, lab))
    if limit is None:
        memo = {}
        order = []
        # iterative post-order (the graph is acyclic: every cycle would need an unbounded counter)
        for root in inits:
            stack = [(root, iter(succ.get(root, [])))]
            seen_on_stack = {root}
            while stack:
                n, it = stack[-1]
                adv = False
                for d, _ in it:
                    if d in memo:
                        continue
                    if d in seen_on_stack:
                        raise vlib.Inconclusive("behaviour graph has a cycle")
                    stack.append((d, iter(succ.get(d, []))))
                    seen_on_stack.add(d)
                    adv = True
                    break
                if adv:
                    continue
                stack.pop()
                seen_on_stack.discard(n)
                out = set()
                ss = succ.get(n, [])
                if not ss:
                    out.add(())
                for d, lab in ss:
                    if INTERNAL.match(lab):
                        out |= memo[d]
                    else:
                        out |= {(lab,) + p for p in memo[d]}
                memo[n] = frozenset(out)
                order.append(n)
        res = set()
        for i in inits:
            res |= memo[i]
        return sorted(res)
    res = set()
    roots = sorted(inits)
    for _ in range(limit * 20):
        n = rng.choice(roots)
        path = []
        while succ.get(n):
            n, lab = rng.choice(succ[n])
            if not INTERNAL.match(lab):
                path.append(lab)
        res.add(tuple(path))
        if len(res) >= limit:
            break
    return sorted(res)


def to_behaviours(paths, first_id=0):
    out = []
    for i, p in enumerate(paths):
        steps = []
        for lab in p:
            m = re.match(r"(\w+?)(?:\((\d+)\))?$", lab)
            act = m.group(1)
            if act == "GUserWrite":
                act = "UserWrite"
            steps.append({"act": act, "g": int(m.group(2) or 0)})
        out.append({"id": first_id + i, "steps": steps})
    return out


# ---------------------------------------------------------------------------
# trace validation

def split_traces(path):
    """-> list of (id, [events]) from a driver output file."""
    traces = []
    cur = None
    for e in vlib.read_ndjson(path):
        if e.get("ev") == "reset":
            if cur is not None and cur[1]:
                traces.append(cur)
            cur = (e.get("id"), [])
        elif cur is not None:
            cur[1].append(e)
    if cur is not None and cur[1]:
        traces.append(cur)
    return traces


def leak_signature(ev):
    if ev.get("ev") == "quiesce":
        if ev.get("rSendErr", 0) > 0 and ev.get("wSendErr", 0) > 0:
            return "leak:reader+writer g@sendErr after exchange returned"
        if ev.get("rSendErr", 0) > 0:
            return "leak:reader g@sendErr after exchange returned"
        if ev.get("wSendErr", 0) > 0:
            return "leak:writer g@sendErr after exchange returned"
        return "diverge:goroutine profile at rest (dl=%s rInRead=%s wSelect=%s wInWrite=%s other=%s)" % (
            ev.get("dl"), ev.get("rInRead"), ev.get("wSelect"), ev.get("wInWrite"), ev.get("other"))
    if ev.get("ev") in ("uread", "uwrite", "closeret"):
        return "diverge:%s result %s" % (ev["ev"], ev.get("res") if ev.get("pkt", 0) >= 0 else "corrupt-pkt")
    if ev.get("ev") in ("writeok", "deliver") and ev.get("pkt", 0) < 0:
        return "diverge:%s corrupt-pkt" % ev["ev"]
    return "diverge:%s" % ev.get("ev")


def validate_traces(chk, traces, label, behaviours=None, window=None, timeout=900):
    """Batch-validate traces with TLC against Redial_Trace.  Every trace that
    TLC does not accept (or on which an invariant fails) is a violation
    observed on the real code.  Returns the number of accepted traces."""
    accepted = 0
    todo = list(traces)
    bmap = {b["id"]: b for b in (behaviours or [])}
    for _round in range(5):
        if not todo:
            break
        evs = []
        starts = []
        maxg = 1
        for tid, tr in todo:
            starts.append(len(evs) + 1)
            evs.append({"ev": "reset", "id": tid})
            evs.extend(tr)
            for e in tr:
                if e.get("ev") == "dialok":
                    maxg = max(maxg, e["g"])
        text = "\n".join(json.dumps(e, separators=(",", ":")) for e in evs) + "\n"
        cfg = cfg_text(RSPEC, "Trace.cfg", G=maxg, ErrChanCap=ERR_CHAN_CAP, Window=(window or maxg))
        r = rtlc(chk, "Redial_Trace", "Trace.cfg", cfg, files={"trace.ndjson": text.encode()}, workers=1, timeout=timeout, keep_prints=True)
        with LOCK:
            chk.add_tlc(r)
        if r.error is None:
            accepted += len(todo)
            break
        # locate the trace that was not explained
        pos, inv = None, None
        if r.error.startswith("invariant:"):
            inv = r.error.split(":", 1)[1]
            ls = re.findall(r"(?m)^/\\ l = (\d+)", r.out)
            pos = int(ls[-1]) - 1 if ls else None
        elif r.error == "postcondition":
            m = re.search(r'<<"UNEXPLAINED", (\d+)>>', r.out)
            pos = int(m.group(1)) if m else None
        if not pos or pos > len(evs):
            raise vlib.Inconclusive("trace validation (%s) failed without a position: %s\n%s" % (label, r.error, r.out[-2000:]))
        k = max(i for i, s in enumerate(starts) if s <= pos)
        tid, tr = todo[k]
        ev = evs[pos - 1]
        if inv == "ObservedNoLeak":
            sig = leak_signature(ev)
            what = ("the real RedialPacketConn keeps goroutines of an abandoned generation: at a quiescent point the goroutine profile is %s "
                    "(invariant ObservedNoLeak fails on the observed execution; trace %s/%s, event %d)" % (json.dumps(ev), label, tid, pos - starts[k]))
        elif inv:
            sig = "invariant:%s" % inv
            what = "invariant %s fails on an execution recorded from the real code (trace %s/%s, event %d: %s)" % (inv, label, tid, pos - starts[k], json.dumps(ev))
        else:
            sig = leak_signature(ev)
            what = ("the model (ErrChanCap=%d) has no behaviour that explains this observation of the real code: %s "
                    "(trace %s/%s, event %d)" % (ERR_CHAN_CAP, json.dumps(ev), label, tid, pos - starts[k]))
        with LOCK:
            chk.violation("C17/redial/" + sig, what, {"mode": "redial", "label": label, "behaviour": bmap.get(tid), "trace": tr, "unexplained_at": pos - starts[k]})
        accepted += k        # the traces before it were explained
        todo = todo[k + 1:]
    else:
        chk.note("trace validation %s: stopped after 5 rejected traces (%d traces not validated)" % (label, len(todo)))
    return accepted


def run_driver(drv, args, timeout=600):
    r = vlib.run([drv] + [str(a) for a in args], timeout=timeout)
    if r.rc != 0 or r.timed_out:
        raise vlib.Inconclusive("redialdrv %s failed (rc=%s timeout=%s):\n%s" % (args[0], r.rc, r.timed_out, r.out[-3000:]))
    m = re.search(r'\{"summary":.*\}', r.out)
    if not m:
        raise vlib.Inconclusive("redialdrv wrote no summary:\n" + r.out[-2000:])
    return json.loads(m.group(0))["summary"]


def replay_behaviours(chk, drv, behaviours, label, shards=8):
    """Run the behaviours through the real code (several driver processes:
    goroutine profiles are per process) and validate the traces."""
    d = vlib.scratch("redial-" + label)
    shards = max(1, min(shards, len(behaviours) // 20 or 1))
    parts = [behaviours[i::shards] for i in range(shards)]

    def one(i):
        inp, outp = os.path.join(d, "b%d.ndjson" % i), os.path.join(d, "t%d.ndjson" % i)
        vlib.write_ndjson(inp, parts[i])
        s = run_driver(drv, ["replay", inp, outp, chk.seed])
        return s, split_traces(outp)

    with cf.ThreadPoolExecutor(max_workers=shards) as ex:
        results = list(ex.map(one, range(shards)))
    tot = {"behaviours": 0, "events": 0, "skipped_steps": 0, "executed_steps": 0, "hung": 0, "quiescent_points": 0}
    traces = []
    for s, tr in results:
        for k in tot:
            tot[k] += s.get(k, 0)
        traces += tr
    traces.sort(key=lambda t: t[0])
    # validate in parallel batches
    nb = max(1, min(4, len(traces) // 100 or 1))
    batches = [traces[i::nb] for i in range(nb)]
    with cf.ThreadPoolExecutor(max_workers=nb) as ex:
        futs = []
        for i, b in enumerate(batches):
            futs.append(ex.submit(validate_traces, chk, b, "%s.%d" % (label, i), behaviours))
            time.sleep(0.15)
        acc = sum(f.result() for f in futs)
    chk.note("replay %s: %d behaviours, %d steps executed (%d not offered by the real code), %d quiescent points, %d events; TLC accepted %d/%d traces" % (
        label, tot["behaviours"], tot["executed_steps"], tot["skipped_steps"], tot["quiescent_points"], tot["events"], acc, len(traces)))
    chk.cov["evaluations"] += tot["behaviours"]
    chk.cov["traces_validated_against_impl"] += acc
    return tot, traces


# ---------------------------------------------------------------------------

def redial_part(chk, args, drv, only):
    q = chk.tier == "quick"
    cap = ERR_CHAN_CAP
    model_cex = []

    # 1. model checking ------------------------------------------------------
    if only is None or "redial_mc" in only:
        jobs = [("MC_g1.cfg", 4), ("MC_g2_quick.cfg" if q else "MC_g2.cfg", 5), ("MC_g2_close.cfg", 3)]
        if not q:
            jobs += [("MC_g3.cfg", 8), ("MC_g3_close.cfg", 6)]
        with cf.ThreadPoolExecutor(max_workers=len(jobs) + 1) as ex:
            futs = {}
            for name, w in jobs:
                futs[name] = ex.submit(tlc_live, RSPEC, "Redial", name, cfg_text(RSPEC, name, ErrChanCap=cap), workers=w, timeout=1500,
                                       coverage=(not q and name == "MC_g2.cfg"))
                time.sleep(0.15)
            # sensitivity of the model: with unbuffered error channels NoLeak must fail (D12's mechanism)
            futs["cap0"] = ex.submit(tlc_live, RSPEC, "Redial", "MC_cap0_g2.cfg", cfg_text(RSPEC, "MC_cap0_g2.cfg", ErrChanCap=0), workers=3,
                                     timeout=600)
            for name, f in futs.items():
                r = f.result()
                chk.add_tlc(r)
                chk.note("TLC Redial %s (ErrChanCap=%s): %d distinct states, error=%s (%.0fs)" % (name, 0 if name == "cap0" else cap, r.distinct, r.error, r.wall))
                if name == "cap0":
                    if r.error != "temporal":
                        chk.fail("vacuity: the Redial model with unbuffered error channels does not violate NoLeak (got %s)" % r.error)
                elif r.error:
                    model_cex.append((name, r.error))
                if r.coverage:
                    zero = sorted(a for a, (d_, t_) in r.coverage.items() if t_ == 0 and a not in ("Init",))
                    chk.cov["coverage_zero_actions"] = zero
                    if zero:
                        chk.fail("vacuity: Redial actions never taken in %s: %s" % (name, zero))

    # 2. behaviours -> real code -> traces -> TLC -----------------------------
    nviol0 = len(chk.violations)
    if only is None or "redial_replay" in only:
        d = vlib.scratch("redial-gen")
        fcfg = "Gen_faults_g2.cfg" if q else "Gen_faults_g3.cfg"
        dot1, dot2 = os.path.join(d, "faults.dot"), os.path.join(d, "data.dot")
        with cf.ThreadPoolExecutor(max_workers=2) as ex:
            f1 = ex.submit(rtlc, chk, "Redial_Gen", fcfg, cfg_text(RSPEC, fcfg, ErrChanCap=cap), workers=1, timeout=600, dump_dot=dot1, keep_prints=False)
            time.sleep(0.15)
            f2 = ex.submit(rtlc, chk, "Redial_Gen", "Gen_data_g2.cfg", cfg_text(RSPEC, "Gen_data_g2.cfg", ErrChanCap=cap), workers=1, timeout=600,
                           dump_dot=dot2, keep_prints=False)
            r1, r2 = f1.result(), f2.result()
        for r in (r1, r2):
            chk.add_tlc(r)
            if r.error:
                raise vlib.Inconclusive("behaviour generation failed: %s" % r.error)
        fpaths = projected_paths(dot1 + ".dot" if not os.path.exists(dot1) else dot1)
        rng = random.Random(chk.seed)
        dpaths = projected_paths(dot2 + ".dot" if not os.path.exists(dot2) else dot2, limit=(250 if q else 3000), rng=rng)
        chk.note("TLC %s: %d states -> %d maximal fault-order behaviours (exhaustive); Gen_data_g2: %d states -> %d sampled data behaviours" % (
            fcfg, r1.distinct, len(fpaths), r2.distinct, len(dpaths)))
        if len(fpaths) < 100:
            chk.fail("vacuous: only %d fault-order behaviours" % len(fpaths))
        beh = to_behaviours(fpaths) + to_behaviours(dpaths, first_id=len(fpaths))
        nontriv = set()
        for b in beh:
            acts = tuple((s["act"], s["g"]) for s in b["steps"])
            if any(a in FAULTS for a, _ in acts):
                nontriv.add(acts)
        chk.cov["distinct_nontrivial"] += len(nontriv)
        chk.sample({"behaviour": beh[len(fpaths) // 2]})
        tot, traces = replay_behaviours(chk, drv, beh, "gen")
        if tot["hung"]:
            chk.note("%d behaviours did not come to rest (reported through their traces)" % tot["hung"])
        if traces:
            chk.sample({"trace_of_behaviour": traces[len(traces) // 3][0], "events": traces[len(traces) // 3][1][:14]})

    if only is None or "redial_loop" in only:
        d = vlib.scratch("redial-loop")
        n = 100 if q else 500
        outp = os.path.join(d, "loop.ndjson")
        s = run_driver(drv, ["loop", outp, chk.seed, n])
        tr = split_traces(outp)
        acc = validate_traces(chk, tr, "loop%d" % n, window=3, timeout=900)
        chk.note("loop: %d redials on one object, %d steps, %d quiescent points, %d events; TLC accepted %d/%d" % (
            s["max_gen"], s["executed_steps"], s["quiescent_points"], s["events"], acc, len(tr)))
        if s["max_gen"] < n and not chk.violations:
            chk.fail("loop made only %d of %d redials" % (s["max_gen"], n))
        chk.cov["evaluations"] += 1
        chk.cov["distinct_nontrivial"] += 1
        chk.cov["traces_validated_against_impl"] += acc

    if only is None or "redial_full" in only:
        d = vlib.scratch("redial-full")
        outp = os.path.join(d, "full.ndjson")
        s = run_driver(drv, ["full", outp, chk.seed])
        tr = split_traces(outp)
        acc = validate_traces(chk, tr, "full", timeout=900)
        chk.note("queue-full runs (2050 packets into a 2048-packet queue, both directions): %d events; TLC accepted %d/%d" % (s["events"], acc, len(tr)))
        chk.cov["evaluations"] += len(tr)
        chk.cov["distinct_nontrivial"] += len(tr)
        chk.cov["traces_validated_against_impl"] += acc

    if model_cex and len(chk.violations) == nviol0:
        chk.fail("TLC found a counterexample in the Redial model (%s) that the real code did not reproduce: the model is wrong" % model_cex)
    elif model_cex:
        chk.note("model counterexample(s) %s reproduced on the real code (see violations)" % model_cex)


# ---------------------------------------------------------------------------
# QueueConn

def qtlc(cfg, **kw):
    return vlib.tlc(QSPEC, kw.pop("module", "QueueConn"), cfg, **kw)


# Durations (ns) that one tick of the specification's abstract clock is
# concretised as in the explicit-clock replay: always the smallest, one below
# 100 ms and one second, plus a seeded choice of two more.
TICK_ALWAYS = [1, 37 * 10**6, 10**9]
TICK_POOL = [10**3, 10**6, 3 * 10**6, 250 * 10**6, 60 * 10**9, 3600 * 10**9]


def tick_scales(chk):
    rng = random.Random(chk.seed * 7919 + 17)
    return TICK_ALWAYS + rng.sample(TICK_POOL, 2)


def run_queue_cases(chk, target, cases, tag, T=2, ticks=None):
    d = vlib.scratch("queue")
    inp, outp = os.path.join(d, tag + ".in.ndjson"), os.path.join(d, tag + ".out.ndjson")
    vlib.write_ndjson(inp, cases)
    r = vlib.go_test_inpkg("common/turbotunnel", [INPKG], "TestVerifQueue$", timeout=900,
                           env={"VERIF_IN": inp, "VERIF_OUT": outp, "VERIF_TARGET": target, "VERIF_T": str(T), "VERIF_SEED": str(chk.seed),
                                "VERIF_TICKS_NS": ",".join(str(t) for t in (ticks or [10**9]))})
    if r.rc != 0 or r.timed_out or not os.path.exists(outp):
        raise vlib.Inconclusive("in-package queue harness failed (%s):\n%s" % (tag, r.out[-3000:]))
    summary, reported = None, 0
    for res in vlib.read_ndjson(outp):
        if "summary" in res:
            summary = res["summary"]
        elif reported < 6:
            if chk.violation("C17/" + res["sig"], res["detail"], {"mode": "queue", "target": target, "T": T, "case": res.get("case")}):
                reported += 1
    if summary is None:
        raise vlib.Inconclusive("queue harness wrote no summary (%s)" % tag)
    chk.cov["evaluations"] += summary.get("runs", summary["cases"])
    chk.cov["distinct_nontrivial"] += summary["nontrivial"]
    return summary


def rt_select(cases, rng, cap):
    """Sequences for the real-time run on a real QueuePacketConn with its real
    sweeper: only W/O/D/A/S, at least one Advance, every run of Advances is
    followed at once by a Sweep (so the model sweeps where the real sweeper
    does), and some client is touched on both sides of an Advance.  Those in
    which one address is written twice across an Advance with no write to
    another address in between are always kept."""
    must, rest = [], []
    for c in cases:
        ops = c["ops"]
        names = [o["op"] for o in ops]
        if any(n not in "WODAS" for n in names) or "A" not in names:
            continue
        ok = True
        for i, n in enumerate(names):
            if n == "A" and (i + 1 >= len(names) or names[i + 1] not in "AS"):
                ok = False
        if not ok or names[-1] == "A":
            continue
        first_a = names.index("A")
        if not any(n in "WO" for n in names[:first_a]):
            continue
        same = False
        lastw = None
        crossed = False
        for o in ops:
            if o["op"] == "W":
                if lastw == o["a"] and crossed:
                    same = True
                lastw, crossed = o["a"], False
            elif o["op"] == "A":
                crossed = True
        (must if same else rest).append(c)
    rng.shuffle(rest)
    return must[:cap] + rest[:max(0, cap - len(must))], len(must)


def queue_realtime(chk, cases, tick_ms=50):
    """Selected Advance/Sweep sequences on the real QueuePacketConn + real
    sweeper goroutine (timeout = 2 ticks of 50 ms).  A 'record survives' verdict
    rests on a real-time deadline and is confirmed by a second run with doubled
    allowance; every other verdict is a safety observation."""
    sel, nmust = rt_select(cases, random.Random(chk.seed + 4242), 400 if chk.tier == "quick" else 800)
    if len(sel) < 50:
        chk.fail("vacuous: only %d sequences selected for the real-time QueuePacketConn run" % len(sel))
        return
    d = vlib.scratch("queue-rt")
    pending = sel
    for attempt, allow in ((1, 2), (2, 4)):
        inp, outp = os.path.join(d, "rt%d.in.ndjson" % attempt), os.path.join(d, "rt%d.out.ndjson" % attempt)
        vlib.write_ndjson(inp, pending)
        r = vlib.go_test_inpkg("common/turbotunnel", [INPKG], "TestVerifQueueRT$", timeout=300,
                               env={"VERIF_IN": inp, "VERIF_OUT": outp, "VERIF_T": "2", "VERIF_RT_TICK_MS": str(tick_ms),
                                    "VERIF_RT_ALLOW": str(allow), "VERIF_SEED": str(chk.seed)})
        if r.rc != 0 or r.timed_out or not os.path.exists(outp):
            raise vlib.Inconclusive("real-time queue harness failed:\n%s" % r.out[-3000:])
        summary, confirm, reported = None, [], 0
        for res in vlib.read_ndjson(outp):
            if "summary" in res:
                summary = res["summary"]
            elif res["sig"].startswith("harness/"):
                raise vlib.Inconclusive("real-time queue harness: %s" % res)
            elif res["sig"].endswith("record-survives") and attempt == 1:
                confirm.append(res["case"])
            elif reported < 6:
                if chk.violation("C17/" + res["sig"], res["detail"], {"mode": "queue_rt", "case": res.get("case")}):
                    reported += 1
        if summary is None:
            raise vlib.Inconclusive("real-time queue harness wrote no summary")
        if attempt == 1:
            chk.cov["evaluations"] += summary["runs"]
            chk.cov["distinct_nontrivial"] += summary["cases"]
            chk.note("QueueConn real time: %d sequences with Advance/Sweep (%d with same-address writes across an Advance) x 3 sweeper phases on the real QueuePacketConn "
                     "(timeout %d ms, real sweeper): %d runs, %d skipped as timing-ambiguous" % (summary["cases"], nmust, 2 * tick_ms, summary["runs"], summary["skipped"]))
            if summary["skipped"] > summary["runs"] * 4 // 5:
                chk.fail("real-time queue run: %d of %d runs were timing-ambiguous (machine too loaded?)" % (summary["skipped"], summary["runs"]))
        if not confirm:
            return
        chk.note("real-time queue run: %d 'record survives' observations, confirming with doubled allowance" % len(confirm))
        pending = confirm


def queue_tlc_start(chk, only):
    """Start every QueueConn TLC job in the background (pure TLC, no use of chk)."""
    q = chk.tier == "quick"
    n = 5 if q else 6
    ex = cf.ThreadPoolExecutor(max_workers=8)
    futs = {}
    if only is None or "queue_mc" in only:
        for name in ("MC.cfg", "MC_periodic.cfg", "MC_persweep.cfg", "MC_snapshot.cfg") + (() if q else ("MC_big.cfg",)):
            futs[name] = ex.submit(qtlc, name, workers=(8 if name == "MC_big.cfg" else 4), timeout=1500, keep_prints=False, coverage=False)
            time.sleep(0.15)
    if only is None or "queue_replay" in only:
        for name in ("Gen_inner_%d.cfg" % n, "Gen_inner_T1_%d.cfg" % n, "Gen_all_%d.cfg" % n, "Gen_fullsend.cfg", "Gen_fullrecv.cfg"):
            futs[name] = ex.submit(qtlc, name, workers=1, timeout=1500)
            time.sleep(0.15)
    ex.shutdown(wait=False)
    return futs


def queue_part(chk, args, only, futs):
    q = chk.tier == "quick"
    n = 5 if q else 6
    res = {k: f.result() for k, f in futs.items()}
    for name, r in res.items():
        chk.add_tlc(r)
        if name.startswith("MC"):
            chk.note("TLC QueueConn %s: %d distinct states, error=%s (%.0fs)" % (name, r.distinct, r.error, r.wall))
            if name == "MC_snapshot.cfg":
                # sensitivity: a sweep that trusts its snapshot must violate the property
                if r.error not in ("actionprop:NeverDiscardEarly", "actionprop:KeptWhileSeen"):
                    chk.fail("vacuity: the snapshot-sweep variant of QueueConn does not violate NeverDiscardEarly (got %s)" % r.error)
            elif r.error:
                chk.fail("QueueConn model check %s failed: %s\n%s" % (name, r.error, r.out[-1500:]))
        elif r.error:
            raise vlib.Inconclusive("QueueConn case generation %s failed: %s" % (name, r.error))
    if only is None or "queue_replay" in only:
        for name, target in (("Gen_inner_%d.cfg" % n, "inner"), ("Gen_inner_T1_%d.cfg" % n, "inner"), ("Gen_all_%d.cfg" % n, "conn"),
                             ("Gen_fullsend.cfg", "conn"), ("Gen_fullrecv.cfg", "conn")):
            cases = res[name].prints
            floor = 1 if "full" in name else 1000
            if len(cases) < floor:
                chk.fail("vacuous: %s produced %d cases" % (name, len(cases)))
                continue
            ticks = tick_scales(chk) if target == "inner" else (([37 * 10**6, 10**9] if q else [37 * 10**6, 10**9, 3600 * 10**9]) if name.startswith("Gen_all") else None)
            s = run_queue_cases(chk, target, cases, name[:-4], T=(1 if "_T1_" in name else 2), ticks=ticks)
            chk.note("QueueConn %s: %d operation sequences (%d steps) replayed on the real %s" % (
                name, s["cases"], s["steps"], ("clientMapInner (explicit clock, timeout %d ticks, one tick = %s ns: %d runs)" % (
                    1 if "_T1_" in name else 2, "/".join(str(t) for t in ticks), s.get("runs", 0))) if target == "inner" else
                ("QueuePacketConn" + (" (Advance = every record made one tick older; one tick = %s ns: %d runs)" % ("/".join(str(t) for t in ticks), s.get("runs", 0)) if ticks else ""))))
            if "full" not in name:
                chk.sample({"queue_case": cases[len(cases) // 2]})
            if name.startswith("Gen_all"):
                queue_realtime(chk, cases)
    if only is None or "sweeper" in only:
        sweeper(chk)
        sweep_stress(chk)


def sweeper(chk, ms=300):
    """Real ClientMap, real time: the trace of touches and observed closes is
    validated by TLC against QueueConn_Trace (T = 300 ms, H = T/2, allowance
    one timeout).  A rejection caused by the upper (scheduling-dependent)
    bound is confirmed by a second run with doubled allowance."""
    d = vlib.scratch("sweeper")
    for attempt, slack in ((1, ms * 1000), (2, 2 * ms * 1000)):
        outp = os.path.join(d, "sweep%d.ndjson" % attempt)
        r = vlib.go_test_inpkg("common/turbotunnel", [INPKG], "TestVerifSweeper$", timeout=300,
                               env={"VERIF_OUT": outp, "VERIF_SWEEP_MS": str(ms)})
        if r.rc != 0 or r.timed_out or not os.path.exists(outp):
            raise vlib.Inconclusive("sweeper harness failed:\n%s" % r.out[-2000:])
        evs = vlib.read_ndjson(outp)
        with open(os.path.join(QSPEC, "Trace_sweeper.cfg")) as fh:
            cfg = fh.read()
        cfg = re.sub(r"Slack = \d+", "Slack = %d" % slack, cfg)
        cfg = re.sub(r"T = \d+", "T = %d" % (ms * 1000), cfg)
        cfg = re.sub(r"H = \d+", "H = %d" % (ms * 500), cfg)
        with open(outp) as fh:
            text = fh.read()
        t = vlib.tlc(QSPEC, "QueueConn_Trace", "_sw.cfg", files={"_sw.cfg": cfg, "trace.ndjson": text.encode()}, workers=1, timeout=300)
        chk.add_tlc(t)
        chk.cov["evaluations"] += 1
        if t.error is None:
            chk.cov["traces_validated_against_impl"] += 1
            chk.cov["distinct_nontrivial"] += 1
            closes = [e for e in evs if e["ev"] == "closed"]
            chk.note("sweeper (real time, T=%d ms): %d events, %d queues seen closed, trace accepted by TLC (attempt %d)" % (ms, len(evs), len(closes), attempt))
            return
        m = re.search(r'<<"UNEXPLAINED", (\d+)>>', t.out)
        if not m:
            raise vlib.Inconclusive("sweeper trace validation failed: %s\n%s" % (t.error, t.out[-1500:]))
        ev = evs[int(m.group(1)) - 1]
        last_touch = [e for e in evs[:int(m.group(1)) - 1] if e["ev"] == "touch" and e["a"] == ev.get("a")]
        lt = last_touch[-1] if last_touch else {}
        early = ev["ev"] == "closed" and lt and ev["t"] - lt["t0"] < ms * 1000
        if ev["ev"] == "closed" and not early and attempt == 1:
            chk.note("sweeper: close observed %.0f ms after the last touch (> 1.5 T + allowance); confirming with a second run" % ((ev["t"] - lt.get("t1", 0)) / 1000.0))
            continue
        kind = {"closed": "closed-early" if early else "closed-late", "touch": "queue-replaced-while-seen", "kept": "contents-lost-while-seen",
                "open": "never-closed"}.get(ev["ev"], ev["ev"])
        chk.violation("C17/sweeper/" + kind, "real ClientMap sweeper (T=%d ms): unexplained observation %s (last touch %s)" % (ms, json.dumps(ev), json.dumps(lt)),
                      {"mode": "sweeper", "trace": evs})
        return


def sweep_stress(chk):
    """Mass expiry against concurrent sightings on the real ClientMap + real
    sweeper (TestVerifSweepStress): thousands of filler clients and a few
    watched ones expire in one sweep; the watched ones start being seen the
    moment the sweep begins.  TLC (QueueConn_Trace) holds the rule that a
    client's queue may be replaced only when its previous sighting started a
    full timeout earlier - the real-time form of NeverDiscardEarly /
    KeptWhileSeen for a sweep that is atomic per record."""
    race = os.environ.get("VERIF_RACE") == "1"
    ms, fillers, watched, rounds = (2500, 2000, 16, 3) if race else (1000, 3000, 16, 3)
    d = vlib.scratch("sweep-stress")
    valid_rounds, contended = 0, 0
    for attempt in (1, 2):
        outp = os.path.join(d, "stress%d.ndjson" % attempt)
        r = vlib.go_test_inpkg("common/turbotunnel", [INPKG], "TestVerifSweepStress$", timeout=300,
                               env={"VERIF_OUT": outp, "VERIF_STRESS_MS": str(ms), "VERIF_STRESS_FILLERS": str(fillers),
                                    "VERIF_STRESS_WATCHED": str(watched), "VERIF_STRESS_ROUNDS": str(rounds)})
        if r.rc != 0 or r.timed_out or not os.path.exists(outp + ".summary"):
            raise vlib.Inconclusive("sweep stress harness failed:\n%s" % r.out[-3000:])
        with open(outp + ".summary") as fh:
            summ = json.load(fh)
        evs = vlib.read_ndjson(outp)
        good = [x for x in summ["rounds"] if x["valid"]]
        for x in summ["rounds"]:
            if x.get("panic"):
                chk.violation("C17/sweeper/panic:" + x["panic"], "ClientMap.SendQueue panicked while a mass expiry was in progress (round %s)" % x["round"],
                              {"mode": "sweep_stress"})
        with open(os.path.join(QSPEC, "Trace_sweeper.cfg")) as fh:
            cfg = fh.read()
        cfg = re.sub(r"Slack = \d+", "Slack = %d" % (ms * 1000), cfg)
        cfg = re.sub(r"\bT = \d+", "T = %d" % (ms * 1000), cfg)
        cfg = re.sub(r"\bH = \d+", "H = %d" % (ms * 500), cfg)
        cfg = re.sub(r"NClients = \d+", "NClients = %d" % (watched * rounds), cfg)
        with open(outp) as fh:
            text = fh.read()
        t = vlib.tlc(QSPEC, "QueueConn_Trace", "_st.cfg", files={"_st.cfg": cfg, "trace.ndjson": text.encode()}, workers=1, timeout=300)
        chk.add_tlc(t)
        chk.cov["evaluations"] += sum(x["touches"] for x in summ["rounds"])
        valid_rounds += len(good)
        contended += sum(x["touches_in_window"] for x in good)
        if t.error is not None:
            m = re.search(r'<<"UNEXPLAINED", (\d+)>>', t.out)
            if not m:
                raise vlib.Inconclusive("sweep stress trace validation failed: %s\n%s" % (t.error, t.out[-1500:]))
            k = int(m.group(1))
            ev = evs[k - 1]
            prev = [e for e in evs[:k - 1] if e["a"] == ev["a"]]
            chk.violation("C17/sweeper/queue-replaced-while-seen",
                          "real ClientMap, mass expiry (%d fillers in one sweep, timeout %d ms): client %d got a new queue %.3f ms after the start of its previous sighting "
                          "(the old queue was discarded although the client had just been seen): %s after %s" % (
                              fillers, ms, ev["a"], (ev["t1"] - prev[-1]["t0"]) / 1000.0 if prev else -1, json.dumps(ev), json.dumps(prev[-1] if prev else None)),
                          {"mode": "sweep_stress", "trace": evs[max(0, k - 40):k]})
            return
        chk.cov["traces_validated_against_impl"] += 1
    chk.note("sweep stress (real ClientMap + sweeper, %d fillers + %d watched per round, timeout %d ms%s): %d valid rounds, %d sightings of watched clients "
             "started while the sweep was in progress, trace accepted by TLC" % (fillers, watched, ms, ", -race" if race else "", valid_rounds, contended) + " (2 runs)")
    if not valid_rounds or not contended:
        chk.fail("sweep stress: no round had all clients expiring in one sweep with sightings inside it (machine too loaded?)")
    chk.cov["distinct_nontrivial"] += valid_rounds


# ---------------------------------------------------------------------------

def run(chk, args):
    only = set(args.only.split(",")) if getattr(args, "only", None) else None
    if args.replay:
        return replay(chk, args.replay)
    want_redial = only is None or any(o.startswith("redial") for o in only)
    want_queue = only is None or any(o.startswith("queue") or o == "sweeper" for o in only)
    drv = vlib.go_build("./cmd/redialdrv", "redialdrv", linkflag=False) if want_redial else None
    qfuts = queue_tlc_start(chk, only) if want_queue else {}
    for want, part in ((want_redial, lambda: redial_part(chk, args, drv, only)), (want_queue, lambda: queue_part(chk, args, only, qfuts))):
        if want:
            try:
                part()
            except vlib.Inconclusive as e:
                chk.fail(str(e))
    chk.cov["exhaustive"] = True
    chk.cov["rule"] = ("Redial: a behaviour is the sequence of environment/user steps of a maximal path of the TLC state graph of Redial_Gen "
                       "(fault orders exhaustive for <=%d generations, data behaviours sampled by seed); non-trivial = contains a carrier fault, a failed dial or a Close; "
                       "distinct by step sequence.  QueueConn: a case is one operation sequence of exactly N ops emitted by TLC; non-trivial = some step dequeues, "
                       "finds a queue empty/closed or is refused" % (2 if chk.tier == "quick" else 3))
    chk.assumptions += [
        "scripted carriers: a ReadFrom/WriteTo pending or issued on a closed carrier fails (the carrier assumption under which NoLeak is stated)",
        "quiescence = every goroutine with a turbotunnel.(*RedialPacketConn) frame parked in a channel operation in two consecutive stop-the-world stack dumps",
        "goroutine profile is compared by class counts (reader in ReadFrom / in error send; writer in select / in WriteTo / in error send; dialLoop position), not by generation",
        "user operations are issued sequentially by the driver (no concurrent user calls)",
        "QueuePacketConn is replayed with the wall clock (no Advance); expiry with an explicit clock is replayed on clientMapInner with one abstract tick concretised as 1 ns, 37 ms, 1 s and two seeded scales between 1 us and 1 h; the periodic sweeper is observed in real time (T=300 ms, allowance one timeout on the upper bound only)",
        "model ErrChanCap=%d (capacity of the error channels of exchange())" % ERR_CHAN_CAP,
    ]


def queue_realtime_replay(chk, case):
    d = vlib.scratch("queue-rt")
    inp, outp = os.path.join(d, "rp.in.ndjson"), os.path.join(d, "rp.out.ndjson")
    vlib.write_ndjson(inp, [case] * 5)
    r = vlib.go_test_inpkg("common/turbotunnel", [INPKG], "TestVerifQueueRT$", timeout=300,
                           env={"VERIF_IN": inp, "VERIF_OUT": outp, "VERIF_T": "2", "VERIF_RT_TICK_MS": "50", "VERIF_RT_ALLOW": "4", "VERIF_SEED": str(chk.seed)})
    if r.rc != 0 or r.timed_out or not os.path.exists(outp):
        raise vlib.Inconclusive("real-time queue harness failed:\n%s" % r.out[-3000:])
    for res in vlib.read_ndjson(outp):
        if "summary" not in res:
            chk.violation("C17/" + res["sig"], res["detail"], {"mode": "queue_rt", "case": res.get("case")})
    chk.cov["evaluations"] += 15


def replay(chk, path):
    with open(path) as fh:
        rp = json.load(fh)["replay"]
    if rp.get("mode") == "queue_rt":
        queue_realtime_replay(chk, rp["case"])
    elif rp.get("mode") == "queue":
        s = run_queue_cases(chk, rp["target"], [rp["case"]], "replay", T=rp.get("T", 2), ticks=TICK_ALWAYS + TICK_POOL)
        chk.note("replayed 1 queue case: %s" % s)
    elif rp.get("mode") == "sweeper":
        sweeper(chk)
    elif rp.get("mode") == "sweep_stress":
        sweep_stress(chk)
    elif rp.get("mode") == "redial":
        drv = vlib.go_build("./cmd/redialdrv", "redialdrv", linkflag=False)
        if rp.get("behaviour"):
            replay_behaviours(chk, drv, [rp["behaviour"]], "replay", shards=1)
        elif rp.get("label", "").startswith("loop"):
            n = int(rp["label"][4:])
            d = vlib.scratch("redial-loop")
            outp = os.path.join(d, "loop.ndjson")
            run_driver(drv, ["loop", outp, chk.seed, n])
            validate_traces(chk, split_traces(outp), rp["label"], window=3)
        else:
            d = vlib.scratch("redial-full")
            outp = os.path.join(d, "full.ndjson")
            run_driver(drv, ["full", outp, chk.seed])
            validate_traces(chk, split_traces(outp), "full")
    else:
        raise vlib.Inconclusive("unknown replay file")


MANIFEST = {
    "technique": "TLA+ specs Redial (+Redial_Gen, Redial_Trace) and QueueConn (+QueueConn_Trace): TLC model-checks safety and NoLeak liveness; TLC-generated behaviours are replayed into the real RedialPacketConn with scripted gated carriers and the recorded traces (events + goroutine profile at every quiescent point) are validated by TLC; TLC-emitted operation sequences with expected results are replayed against the real clientMapInner/QueuePacketConn; the real ClientMap sweeper is traced in real time and validated by TLC",
    "text": "Redial models dialLoop/exchange/reader/writer per carrier generation with the error-channel capacity as a constant; TLC checks ErrorOnlyAfterCloseOrDialFail, AtMostOneActive, EveryCarrierClosed, FIFO and NoLeak under per-step weak fairness (and that the unbuffered variant violates NoLeak). Every combination of fault orders (read first, write first, both, neither before Close, dial failure) for up to 3 generations, sampled data behaviours, a 500-redial loop and queue-overflow runs are executed on the real object; TLC accepts a recorded trace only if some interleaving of unobserved goroutine steps explains every event and every goroutine profile at rest. QueueConn gives the expected result of every step of every operation sequence (length 6, 2 addresses) for the explicit-clock client map and the queue connection, with caller buffers overwritten after each call.",
    "note": "Bounded: <=3 generations exhaustively (fault orders), 500 redials in one loop, op sequences of length <=6 over 2 addresses, timeout 2 ticks. Profiles compared by class counts. User calls sequential. Sweeper checked in real time with 300 ms timeout and one timeout of allowance on the upper bound.",
}
