"""C07 - no IP address survives the log scrubber.
spec/Scrub: the token grammar (address forms x delimiter classes) with the
contract operators Must / Exact, enumerated by TLC as initial states, and the
LogScrubber machine (buffer, Write, sink) model-checked for every splitting of
1-2 line inputs into <= 4 writes and every interleaving of two writers.
harness/cmd/scrubdrv spells every token (addresses printed by Go's net package
or accepted by net.ParseIP, distinct per token, seeded) and pushes every case
through the real safelog.Scrub and safelog.LogScrubber."""
import json
import os
import re
import vlib

LEVEL = "model_checking"
SPECDIR = os.path.join(vlib.SPEC, "Scrub")

# spelling classes the concretisation must have exercised (vacuity guard)
REQUIRED_VARIANTS = {"v4", "full", "full-explicit0", "run1@start", "run1@mid", "run1@end", "run@start", "run@mid",
                     "run@end", "all", "emb-mapped", "emb-mapped-upper", "emb-compat", "emb-prefix::", "emb-::groups",
                     "emb-mid", "emb-full6"}


def _gen(chk, cfg, minimum):
    r = vlib.tlc(SPECDIR, "Scrub", cfg, workers=1, timeout=1500)
    chk.add_tlc(r)
    if r.error:
        raise vlib.Inconclusive("case generation %s failed: %s\n%s" % (cfg, r.error, r.out[-1500:]))
    if len(r.prints) < minimum:
        raise vlib.Inconclusive("vacuous: %s produced only %d cases" % (cfg, len(r.prints)))
    chk.note("TLC %s: %d cases (%.0fs)" % (cfg, len(r.prints), r.wall))
    return r.prints


def _drive(chk, drv, mode, cases, n, seen, tag):
    s = vlib.drive_cases(chk, drv, [mode], cases, [chk.seed, n], tag=tag, timeout=1500)
    for k, v in (s.get("variants") or {}).items():
        seen[k] = seen.get(k, 0) + int(v)
    return s


def run(chk, args):
    q = chk.tier == "quick"
    drv = vlib.go_build("./cmd/scrubdrv", "scrubdrv", linkflag=False)
    if args.replay:
        return replay(chk, drv, args.replay)
    seen = {}

    # 1. design level: the LogScrubber machine against the contract, every splitting / interleaving
    for cfg in (["MC_w1_quick.cfg", "MC_w2_quick.cfg"] if q else ["MC_w1_quick.cfg", "MC_w1_thorough.cfg", "MC_w2_quick.cfg"]):
        r = vlib.tlc(SPECDIR, "Scrub", cfg, timeout=1500, keep_prints=False)
        chk.add_tlc(r)
        chk.note("TLC %s: %d distinct states, error=%s (%.0fs)" % (cfg, r.distinct, r.error, r.wall))
        if r.error:
            # a violation in the model alone is a defect of the specification, never a verdict
            chk.fail("model check %s failed: %s\n%s" % (cfg, r.error, r.out[-2000:]))
            return
        if r.distinct < 1000:
            chk.fail("vacuous: %s explored only %d states" % (cfg, r.distinct))
            return
    # sensitivity of the invariant: a scrubber that is not line-local (consumes the
    # delimiter after a match) must make EmittedIsContract fail
    r = vlib.tlc(SPECDIR, "Scrub", "MC_sens.cfg", timeout=600, keep_prints=False)
    chk.add_tlc(r)
    if r.error != "invariant:EmittedIsContract":
        chk.fail("vacuity: the mutated model (MC_sens.cfg) was not rejected by EmittedIsContract (got %s)" % r.error)
        return
    chk.note("TLC MC_sens.cfg: mutated scrubber rejected by EmittedIsContract, as it must be")

    # 2. Scrub: token lines enumerated by TLC, replayed through the real code
    nspell = 3 if q else 12
    line_cfgs = [("Gen_lines_full3.cfg", 10000, nspell), ("Gen_lines_red5.cfg", 30000, nspell)]
    if not q:
        line_cfgs += [("Gen_lines_mid4.cfg", 100000, nspell), ("Gen_lines_red6.cfg", 250000, 6)]
    conc_cases = None
    for cfg, minimum, n in line_cfgs:
        cases = _gen(chk, cfg, minimum)
        if cfg == "Gen_lines_red5.cfg":
            conc_cases = cases
        if cfg == "Gen_lines_full3.cfg":
            multi = [c for c in cases if len(c["expect"]["must"]) >= 2]
            chk.sample(multi[len(multi) // 2])
            dc = [c for c in cases if not c["expect"]["must"]]
            chk.sample(dc[len(dc) // 3])
        _drive(chk, drv, "lines", cases, n, seen, "lines")
        del cases

    # 3. LogScrubber: every splitting / schedule enumerated by TLC, replayed through the real code
    wn = 2 if q else 3
    for cfg, minimum in ([("Gen_w1_quick.cfg", 10000), ("Gen_w2_quick.cfg", 10000)] if q else
                         [("Gen_w1_quick.cfg", 10000), ("Gen_w1_thorough.cfg", 80000), ("Gen_w2_quick.cfg", 10000)]):
        cases = _gen(chk, cfg, minimum)
        if cfg == "Gen_w1_quick.cfg":
            cut = [c for c in cases if len(c["writes"]) == 4 and len(c["expect"]["lines"]) == 2]
            chk.sample(cut[len(cut) // 2])
        _drive(chk, drv, "writer", cases, wn, seen, "writer")
        del cases

    # 4. real goroutines on one LogScrubber (whole lines per Write): overlapped Write calls and herds
    _drive(chk, drv, "conc", conc_cases, 20 if q else 150, seen, "conc")

    # vacuity of the concretisation
    classes = set()
    go_printed = 0
    zone = 0
    for k, v in seen.items():
        m = re.match(r"^(\w+)\[(zone:)?([^/\]]+)/(\w+)\]$", k)
        if not m:
            continue
        classes.add(m.group(3))
        if m.group(4) == "go":
            go_printed += v
        if m.group(2):
            zone += v
    missing = REQUIRED_VARIANTS - classes
    if missing or not go_printed or not zone:
        chk.fail("vacuous concretisation: spelling classes never drawn: %s (go-printed %d, zone %d)" % (sorted(missing), go_printed, zone))
    chk.note("spelling classes exercised: %d form/variant/style combinations, %d Go-printed spellings, %d zone spellings" % (len(seen), go_printed, zone))
    chk.cov["spelling_classes"] = len(seen)
    chk.cov["exhaustive"] = True
    chk.cov["traces_validated_against_impl"] = 0
    chk.cov["rule"] = ("cases are TLC initial states of spec/Scrub: every token line over 9 address forms x 17 delimiter classes up to "
                       "length 3 (thorough: a 19-token alphabet at length 4) and over a reduced alphabet up to length 5 (thorough 6), each "
                       "concretised with 3 (thorough 12/6) seeded spellings; every splitting of 1-2 line inputs (+ optional unterminated "
                       "tail) into <= 4 writes and every schedule of two writers (whole lines / all at once / pieces). An evaluation is one "
                       "(case, spelling) pushed through the real code; it is non-trivial when the line has a context (>= 2 tokens) or the "
                       "stream is delivered in >= 2 writes; every concurrency round counts")
    chk.assumptions += [
        "an address token is judged only when both neighbours are a line boundary, whitespace or safe punctuation (DESIGN 3.7); "
        "all other contexts, the text kept from zone forms, and lines in which non-address tokens spell an address are don't-care",
        "the address-with-port token is replaced as a whole (as the package's own tests pin down)",
        "Write is atomic (the code holds its mutex for the whole call); unsynchronised access is C20's subject",
        "spellings are drawn at random per token (seeded), not enumerated by TLC; the check fails as vacuous if a spelling class was never drawn",
    ]


def replay(chk, drv, path):
    with open(path) as fh:
        doc = json.load(fh)
    rp = doc["replay"]
    chk.seed = int(doc.get("seed", chk.seed))
    mode = rp["args"][0]
    seen = {}
    c = rp.get("case")
    if mode == "conc" or not c:
        cases = _gen(chk, "Gen_lines_red5.cfg", 30000)
        _drive(chk, drv, "conc", cases, 20 if doc.get("tier") == "quick" else 150, seen, "replay")
        return
    n = int(c.get("spelling", 0)) + 1
    _drive(chk, drv, mode, [c["case"]], n, seen, "replay")


MANIFEST = {
    "technique": "TLA+ spec Scrub: contract operators Must/Exact over a token grammar enumerated by TLC as cases; LogScrubber buffer machine model-checked against the contract for all write splittings and two-writer interleavings; Go driver replays every case (seeded Go-printed / ParseIP-accepted spellings, distinct address per token) into safelog.Scrub and safelog.LogScrubber",
    "text": "TLC enumerates every line of address-form and delimiter-class tokens up to the bound and computes, in TLA+, which address tokens must be replaced (both neighbours a line boundary, whitespace or safe punctuation) and for which lines the whole output is determined; the driver spells each token, runs the real Scrub and LogScrubber and checks that no must-replace address occurs in the output and that determined lines are exact. The writer is a TLA+ state machine (buffer, Write, sink) checked by TLC for emitted = contract scrub of the complete prefix, whole lines only, nothing lost, over every splitting into <= 4 writes and every two-writer interleaving; the same cases are replayed on the real LogScrubber (output per Write call compared with the line-wise Scrub), plus overlapped and free-running goroutine writers. Exhaustive over the grammar up to the bound, bound to the code by differential replay.",
    "note": "Bounded: lines of <= 3 tokens over the full alphabet (4 over a 19-token alphabet, 5-6 over an 8-token alphabet), 1-2 line inputs, <= 4 writes, 2 writers; spellings are seeded random draws per token (vacuity-guarded by class), not enumerated. Don't-care: addresses next to word characters, ':', '[' ']', another address or an inner '.', zone text, accidental addresses spelled by delimiter tokens.",
}
