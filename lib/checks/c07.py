"""C07 - no IP address survives the log scrubber.
spec/Scrub: the token grammar (address forms x delimiter classes) with the
contract operators Must / Exact, enumerated by TLC as initial states, and the
LogScrubber machine (buffer, Write, sink) model-checked for every splitting of
1-2 line inputs into <= 4 writes and every interleaving of two writers.
harness/cmd/scrubdrv spells every token (addresses printed by Go's net package
or accepted by net.ParseIP, distinct per token, seeded) and pushes every case
through the real safelog.Scrub and safelog.LogScrubber.
spec/Scrub/ScrubLong: long unterminated pending data (1 KiB .. 1 MiB) delivered
in several writes with an address slid byte by byte across each boundary.
spec/LogWiring + harness/cmd/logwiredrv: the log sinks of the five real
binaries (every sink that can carry an address is behind the scrubber unless
-unsafe-logging): the real processes are started, provoked from addresses the
harness knows, and their log sinks are searched for those addresses."""
import json
import os
import re
import threading
import vlib

LEVEL = "model_checking"
SPECDIR = os.path.join(vlib.SPEC, "Scrub")
WIREDIR = os.path.join(vlib.SPEC, "LogWiring")
BINARIES = ["broker", "probetest", "server", "proxy", "client"]

# spelling classes the concretisation must have exercised (vacuity guard)
REQUIRED_VARIANTS = {"v4", "full", "full-explicit0", "run1@start", "run1@mid", "run1@end", "run@start", "run@mid",
                     "run@end", "all", "emb-mapped", "emb-mapped-upper", "emb-compat", "emb-prefix::", "emb-::groups",
                     "emb-mid", "emb-full6"}


def _gen(chk, cfg, minimum):
    r = vlib.tlc(SPECDIR, "Scrub", cfg, workers=1, timeout=1500)
    chk.add_tlc(r)
    if r.error:
        raise vlib.Inconclusive("case generation %s failed: %s\n%s" % (cfg, r.error, r.out[-1500:]))
    if len(r.prints) < minimum:
        raise vlib.Inconclusive("vacuous: %s produced only %d cases" % (cfg, len(r.prints)))
    chk.note("TLC %s: %d cases (%.0fs)" % (cfg, len(r.prints), r.wall))
    return r.prints


def _drive(chk, drv, mode, cases, n, seen, tag):
    s = vlib.drive_cases(chk, drv, [mode], cases, [chk.seed, n], tag=tag, timeout=1500)
    for k, v in (s.get("variants") or {}).items():
        seen[k] = seen.get(k, 0) + int(v)
    return s


def _gen_mod(chk, specdir, module, cfg, minimum):
    r = vlib.tlc(specdir, module, cfg, workers=1, timeout=1500)
    chk.add_tlc(r)
    if r.error:
        raise vlib.Inconclusive("case generation %s/%s failed: %s\n%s" % (module, cfg, r.error, r.out[-1500:]))
    if len(r.prints) < minimum:
        raise vlib.Inconclusive("vacuous: %s/%s produced only %d cases" % (module, cfg, len(r.prints)))
    return r.prints


def build_binaries():
    """The real binaries, built from the repository's working tree (never from a cache of ours)."""
    out = vlib.scratch("realbin")
    mf = vlib.repo_modfile()
    res = {}

    def one(b):
        res[b] = vlib.run([vlib.GO_DEFAULT, "build", "-modfile=" + mf, vlib.LINKFLAGS, "-o", os.path.join(out, b), "./" + b],
                          cwd=vlib.REPO, env=vlib.goenv(), timeout=900)
    ts = [threading.Thread(target=one, args=(b,)) for b in BINARIES]
    for t in ts:
        t.start()
    for t in ts:
        t.join()
    for b, r in res.items():
        if r.rc != 0 or r.timed_out:
            raise vlib.Inconclusive("go build ./%s failed:\n%s" % (b, r.out[-3000:]))
    return out


def wiring_part(chk, q, wdrv, box):
    """Process level (spec/LogWiring).  Runs on its own thread (the processes
    mostly wait); everything that touches chk's verdict is handed back in box."""
    try:
        tl = []
        r = vlib.tlc(WIREDIR, "LogWiring", "MC_wiring.cfg", timeout=600, keep_prints=False)
        tl.append(r)
        if r.error:
            box["fail"] = "model check LogWiring/MC_wiring.cfg failed: %s\n%s" % (r.error, r.out[-1500:])
            return
        r = vlib.tlc(WIREDIR, "LogWiring", "MC_wiring_sens.cfg", timeout=600, keep_prints=False)
        tl.append(r)
        if r.error != "invariant:Wired":
            box["fail"] = "vacuity: a carrier sink that captures log.Writer() at package initialisation (MC_wiring_sens.cfg) was not rejected by Wired (got %s)" % r.error
            return
        r = vlib.tlc(WIREDIR, "LogWiring", "Gen_quick.cfg" if q else "Gen_thorough.cfg", workers=1, timeout=600)
        tl.append(r)
        if r.error or len(r.prints) < 7:
            box["fail"] = "LogWiring run enumeration failed: %s (%d runs)" % (r.error, len(r.prints))
            return
        box["tlc"] = tl
        box["runs"] = r.prints
        bindir = build_binaries()
        d = vlib.scratch("logwire")
        inp, outp = os.path.join(d, "runs.ndjson"), os.path.join(d, "out.ndjson")
        vlib.write_ndjson(inp, r.prints)
        rr = vlib.run([wdrv, inp, outp, str(chk.seed), bindir], timeout=400)
        if rr.rc != 0 or rr.timed_out or not os.path.exists(outp):
            box["fail"] = "logwiredrv failed (rc=%s timeout=%s):\n%s" % (rr.rc, rr.timed_out, rr.out[-3000:])
            return
        box["results"] = vlib.read_ndjson(outp)
    except vlib.Inconclusive as e:
        box["fail"] = str(e)
    except Exception as e:  # noqa
        import traceback
        box["fail"] = "internal error in the wiring part:\n" + traceback.format_exc()


def wiring_report(chk, box):
    for r in box.get("tlc", []):
        chk.add_tlc(r)
    if "fail" in box:
        chk.fail(box["fail"])
        return
    summary = None
    for res in box["results"]:
        if "summary" in res:
            summary = res["summary"]
        elif "vacuous" in res:
            chk.fail("log wiring: " + res["vacuous"])
        else:
            chk.violation(res.get("sig", "unknown"), res.get("detail", ""),
                          {"driver": "logwiredrv", "args": ["wiring"], "case": res.get("case")})
    if summary is None:
        chk.fail("logwiredrv wrote no summary")
        return
    chk.cov["evaluations"] += int(summary.get("provocations", 0))
    chk.cov["distinct_nontrivial"] += int(summary.get("provocations", 0))
    chk.cov["wiring_runs"] = int(summary.get("cases", 0))
    chk.cov["wiring_dontcare_lines"] = summary.get("dontcare_lines", [])
    chk.note("log wiring: %d real-process runs, %d provocations; lines with a harness address that Scrub itself leaves alone (not judged): %s"
             % (summary.get("cases", 0), summary.get("provocations", 0), summary.get("dontcare_lines", [])))
    chk.sample(box["runs"][0], limit=4)


def run(chk, args):
    q = chk.tier == "quick"
    drv = vlib.go_build("./cmd/scrubdrv", "scrubdrv", linkflag=False)
    wdrv = vlib.go_build("./cmd/logwiredrv", "logwiredrv", linkflag=False)
    if args.replay:
        return replay(chk, drv, wdrv, args.replay)
    seen = {}
    # 0. process level, in the background: the log sinks of the real binaries
    box = {}
    wt = threading.Thread(target=wiring_part, args=(chk, q, wdrv, box))
    wt.start()
    try:
        scrub_parts(chk, q, drv, seen)
    finally:
        wt.join()
    wiring_report(chk, box)


def scrub_parts(chk, q, drv, seen):

    # 1. design level: the LogScrubber machine against the contract, every splitting / interleaving
    for cfg in (["MC_w1_quick.cfg", "MC_w2_quick.cfg"] if q else ["MC_w1_quick.cfg", "MC_w1_thorough.cfg", "MC_w2_quick.cfg"]):
        r = vlib.tlc(SPECDIR, "Scrub", cfg, timeout=1500, keep_prints=False)
        chk.add_tlc(r)
        chk.note("TLC %s: %d distinct states, error=%s (%.0fs)" % (cfg, r.distinct, r.error, r.wall))
        if r.error:
            # a violation in the model alone is a defect of the specification, never a verdict
            chk.fail("model check %s failed: %s\n%s" % (cfg, r.error, r.out[-2000:]))
            return
        if r.distinct < 1000:
            chk.fail("vacuous: %s explored only %d states" % (cfg, r.distinct))
            return
    # sensitivity of the invariant: a scrubber that is not line-local (consumes the
    # delimiter after a match) must make EmittedIsContract fail
    r = vlib.tlc(SPECDIR, "Scrub", "MC_sens.cfg", timeout=600, keep_prints=False)
    chk.add_tlc(r)
    if r.error != "invariant:EmittedIsContract":
        chk.fail("vacuity: the mutated model (MC_sens.cfg) was not rejected by EmittedIsContract (got %s)" % r.error)
        return
    chk.note("TLC MC_sens.cfg: mutated scrubber rejected by EmittedIsContract, as it must be")

    # 2. Scrub: token lines enumerated by TLC, replayed through the real code
    nspell = 3 if q else 12
    line_cfgs = [("Gen_lines_full3.cfg", 10000, nspell), ("Gen_lines_red5.cfg", 30000, nspell)]
    if not q:
        line_cfgs += [("Gen_lines_mid4.cfg", 100000, nspell), ("Gen_lines_red6.cfg", 250000, 6)]
    conc_cases = None
    for cfg, minimum, n in line_cfgs:
        cases = _gen(chk, cfg, minimum)
        if cfg == "Gen_lines_red5.cfg":
            conc_cases = cases
        if cfg == "Gen_lines_full3.cfg":
            multi = [c for c in cases if len(c["expect"]["must"]) >= 2]
            chk.sample(multi[len(multi) // 2])
            dc = [c for c in cases if not c["expect"]["must"]]
            chk.sample(dc[len(dc) // 3])
        _drive(chk, drv, "lines", cases, n, seen, "lines")
        del cases

    # 3. LogScrubber: every splitting / schedule enumerated by TLC, replayed through the real code
    wn = 2 if q else 3
    for cfg, minimum in ([("Gen_w1_quick.cfg", 10000), ("Gen_w2_quick.cfg", 10000)] if q else
                         [("Gen_w1_quick.cfg", 10000), ("Gen_w1_thorough.cfg", 80000), ("Gen_w2_quick.cfg", 10000)]):
        cases = _gen(chk, cfg, minimum)
        if cfg == "Gen_w1_quick.cfg":
            cut = [c for c in cases if len(c["writes"]) == 4 and len(c["expect"]["lines"]) == 2]
            chk.sample(cut[len(cut) // 2])
        _drive(chk, drv, "writer", cases, wn, seen, "writer")
        del cases

    # 3b. long unterminated pending data (ScrubLong): 1 KiB .. 1 MiB, address slid across each boundary
    r = vlib.tlc(SPECDIR, "ScrubLong", "MC_long_quick.cfg", timeout=1500, keep_prints=False)
    chk.add_tlc(r)
    chk.note("TLC ScrubLong MC_long_quick.cfg: %d distinct states, error=%s (%.0fs)" % (r.distinct, r.error, r.wall))
    if r.error or r.distinct < 10000:
        chk.fail("model check ScrubLong/MC_long_quick.cfg failed or vacuous: %s (%d states)\n%s" % (r.error, r.distinct, r.out[-1500:]))
        return
    r = vlib.tlc(SPECDIR, "ScrubLong", "MC_long_sens.cfg", timeout=600, keep_prints=False)
    chk.add_tlc(r)
    if r.error != "invariant:LNothingEarly":
        chk.fail("vacuity: the mutated long-line model (flush of an unterminated buffer, MC_long_sens.cfg) was not rejected by LNothingEarly (got %s)" % r.error)
        return
    cases = _gen_mod(chk, SPECDIR, "ScrubLong", "Gen_long_quick.cfg" if q else "Gen_long_thorough.cfg", 5000)
    chk.note("TLC ScrubLong: %d long-line cases" % len(cases))
    big = [c for c in cases if c["b"] == 4096 and c["c"] == 4096 and c["pos"] == "straddle"]
    chk.sample(big[len(big) // 2], limit=4)
    vlib.drive_cases(chk, drv, ["long"], cases, [chk.seed, 1 if q else 2], tag="long", timeout=1500)
    del cases

    # 4. real goroutines on one LogScrubber (whole lines per Write): overlapped Write calls and herds
    _drive(chk, drv, "conc", conc_cases, 20 if q else 150, seen, "conc")

    # vacuity of the concretisation
    classes = set()
    go_printed = 0
    zone = 0
    for k, v in seen.items():
        m = re.match(r"^(\w+)\[(zone:)?([^/\]]+)/(\w+)\]$", k)
        if not m:
            continue
        classes.add(m.group(3))
        if m.group(4) == "go":
            go_printed += v
        if m.group(2):
            zone += v
    missing = REQUIRED_VARIANTS - classes
    if missing or not go_printed or not zone:
        chk.fail("vacuous concretisation: spelling classes never drawn: %s (go-printed %d, zone %d)" % (sorted(missing), go_printed, zone))
    chk.note("spelling classes exercised: %d form/variant/style combinations, %d Go-printed spellings, %d zone spellings" % (len(seen), go_printed, zone))
    chk.cov["spelling_classes"] = len(seen)
    chk.cov["exhaustive"] = True
    chk.cov["traces_validated_against_impl"] = 0
    chk.cov["rule"] = ("cases are TLC initial states of spec/Scrub: every token line over 9 address forms x 17 delimiter classes up to "
                       "length 3 (thorough: a 19-token alphabet at length 4) and over a reduced alphabet up to length 5 (thorough 6), each "
                       "concretised with 3 (thorough 12/6) seeded spellings; every splitting of 1-2 line inputs (+ optional unterminated "
                       "tail) into <= 4 writes and every schedule of two writers (whole lines / all at once / pieces). An evaluation is one "
                       "(case, spelling) pushed through the real code; it is non-trivial when the line has a context (>= 2 tokens) or the "
                       "stream is delivered in >= 2 writes; every concurrency round counts")
    chk.assumptions += [
        "an address token is judged only when both neighbours are a line boundary, whitespace or safe punctuation (DESIGN 3.7); "
        "all other contexts, the text kept from zone forms, and lines in which non-address tokens spell an address are don't-care",
        "the address-with-port token is replaced as a whole (as the package's own tests pin down)",
        "Write is atomic (the code holds its mutex for the whole call); unsynchronised access is C20's subject",
        "spellings are drawn at random per token (seeded), not enumerated by TLC; the check fails as vacuous if a spelling class was never drawn",
    ]


def replay(chk, drv, wdrv, path):
    with open(path) as fh:
        doc = json.load(fh)
    rp = doc["replay"]
    chk.seed = int(doc.get("seed", chk.seed))
    mode = rp["args"][0]
    seen = {}
    c = rp.get("case")
    if mode == "wiring":
        # re-run the one run of the real binary
        box = {"runs": [c["case"]], "tlc": []}
        bindir = build_binaries()
        d = vlib.scratch("logwire")
        inp, outp = os.path.join(d, "runs.ndjson"), os.path.join(d, "out.ndjson")
        vlib.write_ndjson(inp, [c["case"]])
        rr = vlib.run([wdrv, inp, outp, str(chk.seed), bindir], timeout=400)
        if rr.rc != 0 or not os.path.exists(outp):
            raise vlib.Inconclusive("logwiredrv failed:\n" + rr.out[-2000:])
        box["results"] = vlib.read_ndjson(outp)
        return wiring_report(chk, box)
    if mode == "conc" or not c:
        cases = _gen(chk, "Gen_lines_red5.cfg", 30000)
        _drive(chk, drv, "conc", cases, 20 if doc.get("tier") == "quick" else 150, seen, "replay")
        return
    n = int(c.get("spelling", 0)) + 1
    _drive(chk, drv, mode, [c["case"]], n, seen, "replay")


MANIFEST = {
    "technique": "TLA+ specs Scrub / ScrubLong / LogWiring: contract operators Must/Exact over a token grammar enumerated by TLC as cases; LogScrubber buffer machine model-checked against the contract for all write splittings and two-writer interleavings; Go driver replays every case (seeded Go-printed / ParseIP-accepted spellings, distinct address per token) into safelog.Scrub and safelog.LogScrubber",
    "text": "TLC enumerates every line of address-form and delimiter-class tokens up to the bound and computes, in TLA+, which address tokens must be replaced (both neighbours a line boundary, whitespace or safe punctuation) and for which lines the whole output is determined; the driver spells each token, runs the real Scrub and LogScrubber and checks that no must-replace address occurs in the output and that determined lines are exact. The writer is a TLA+ state machine (buffer, Write, sink) checked by TLC for emitted = contract scrub of the complete prefix, whole lines only, nothing lost, over every splitting into <= 4 writes and every two-writer interleaving; the same cases are replayed on the real LogScrubber (output per Write call compared with the line-wise Scrub), plus overlapped and free-running goroutine writers. Long unterminated pending data (ScrubLong: 1 KiB..1 MiB, chunk sizes 1/7/512/4095/4096/4097/cut/whole, address slid byte by byte across each boundary) is modelled with byte counts and replayed the same way. Process level (LogWiring): the sink tables of the five binaries are model-checked for 'every address-carrying sink is behind the scrubber unless unsafe logging', and the real binaries are started, provoked from addresses the harness knows (failed TLS handshakes, malformed/oversized requests, bind address, client_ip, dead broker, SOCKS connect) and their log sinks searched for those addresses. Exhaustive over the grammar up to the bound, bound to the code by differential replay.",
    "note": "Bounded: lines of <= 3 tokens over the full alphabet (4 over a 19-token alphabet, 5-6 over an 8-token alphabet), 1-2 line inputs, <= 4 writes, 2 writers; spellings are seeded random draws per token (vacuity-guarded by class), not enumerated. Don't-care: addresses next to word characters, ':', '[' ']', another address or an inner '.', zone text, accidental addresses spelled by delimiter tokens.",
}
