"""Part of C15 built separately (to be wired in by lib/checks/c15.py: `from checks import c15_natdisc;
c15_natdisc.run_natdisc_part(chk, args)`): client-side NAT discovery, common/nat/nat.go, and how its
result becomes the `nat` member of client polls (client/lib updateNATType, BrokerChannel.natType).

spec/NatDiscovery/NatTable.tla      grammar of scripted STUN server behaviours + the CONTRACT (classification table)
spec/NatDiscovery/NatDiscovery.tla  the two tests as a machine: caller, listener goroutine with its unbuffered
                                    channel, socket, scripted server, explicit clock; TLC: machine = contract for
                                    every behaviour, Total (liveness), socket closed, no listener left, bounded time
spec/NatDiscovery/NatClient.tla     updateNATType over a server list + BrokerChannel lock + pollers; TLC: final
                                    value = first completed test, "unknown" unless a test completed, lock discipline

Conformance: TLC prints every case with the demanded values; in-package drivers (go test -overlay) run the real
CheckIfRestrictedNAT / isRestrictedFiltering against a scripted two-socket STUN responder (all cases in parallel:
the code's timeout is 10 s per round trip), and the real updateNATType / NewSnowflakeClient / Negotiate against
scripted responders and a recording rendezvous.  Stand-alone: bin/check C15_NATDISC."""
import collections
import json
import os
import random
import re
import threading
import time

import vlib

LEVEL = "model_checking"
SPECDIR = os.path.join(vlib.SPEC, "NatDiscovery")
H_NAT = os.path.join(vlib.HARNESS, "inpkg", "common_nat", "natdisc_verif_test.go")
H_CLIENT = os.path.join(vlib.HARNESS, "inpkg", "client_lib", "natdisc_verif_test.go")
T_TICKS = 10           # T of the .cfg files; with the driver's tick of 1 s: the code's 10 s
TICK_MS = 1000
KNOWN = []             # nothing open: the listener leak found here is repaired (see MANIFEST note)
NAMES = ("unknown", "restricted", "unrestricted")


# --------------------------------------------------------------------------------------------
# model checking

def model_check(quick, box):
    w = max(2, vlib.NCPU // 4)

    def safe(module, cfg, coverage=False, ignore_zero=()):
        def fn():
            r = vlib.tlc(SPECDIR, module, cfg, workers=w, timeout=900, coverage=coverage, keep_prints=False)
            box["tlc"].append(r)
            box["notes"].append("TLC %s %s: %d distinct states, %s (%.0fs)" % (module, cfg, r.distinct, r.error or "no error", r.wall))
            if r.error:
                box["fail"].append("%s: model check %s failed: %s\n%s" % (module, cfg, r.error, r.out[-2500:]))
            elif coverage:
                zero = sorted(a for a, (d, t) in r.coverage.items() if t == 0 and a not in ignore_zero)
                if zero:
                    box["fail"].append("%s: vacuity: actions never taken in %s: %s" % (module, cfg, zero))
        return fn

    def sens(module, cfg, want, why):
        def fn():
            r = vlib.tlc(SPECDIR, module, cfg, workers=2, timeout=600, keep_prints=False)
            box["tlc"].append(r)
            if r.error != want:
                box["fail"].append("%s: sensitivity: %s should violate %s, TLC says %s" % (module, cfg, want, r.error))
            else:
                box["notes"].append("TLC %s sensitivity %s: %s as expected (%s)" % (module, cfg, r.error, why))
        return fn

    jobs = [safe("NatDiscovery", "MC_quick.cfg" if quick else "MC_thorough.cfg", coverage=not quick),
            safe("NatDiscovery", "MC_live.cfg"),
            sens("NatDiscovery", "MC_asis_leak.cfg", "invariant:NoListenerLeft", "the pinned code's parked listener is visible to the model"),
            sens("NatDiscovery", "MC_reach_dup.cfg", "invariant:NeverDupServed", "reachability: a duplicate of the first response serves the second round trip"),
            safe("NatClient", "MCC_quick.cfg" if quick else "MCC_thorough.cfg"),
            safe("NatClient", "MCC_live.cfg")]
    ths = []
    for j in jobs:
        def wrap(j=j):
            try:
                j()
            except vlib.Inconclusive as e:
                box["fail"].append(str(e))
            except Exception:  # noqa
                import traceback
                box["fail"].append("internal error in NatDiscovery model check:\n" + traceback.format_exc())
        ths.append(threading.Thread(target=wrap))
    for t in ths:
        t.start()
    for t in ths:
        t.join()


# --------------------------------------------------------------------------------------------
# real-code runs

_seq = [0]
_lock = threading.Lock()


def run_proc(binary, test, envin, envout, cases, timeout, extra_env=None):
    with _lock:
        _seq[0] += 1
        seq = _seq[0]
    d = vlib.scratch("natdisc")
    inp, outp = os.path.join(d, "c%d.in.ndjson" % seq), os.path.join(d, "c%d.out.ndjson" % seq)
    vlib.write_ndjson(inp, cases)
    env = dict(os.environ)
    env.update({envin: inp, envout: outp})
    env.update(extra_env or {})
    r = vlib.run([binary, "-test.run", "^%s$" % test, "-test.timeout", "%ds" % int(timeout), "-test.count", "1"], env=env, timeout=timeout + 30)
    recs = vlib.read_ndjson(outp) if os.path.exists(outp) else []
    return recs, r


def rdesc(r, second):
    if r["kind"] != "success":
        return r["kind"]
    bits = []
    if not second:
        bits.append("other=" + r["other"])
    elif r["mapped"] != "-":
        bits.append(r["mapped"])
    if r["copies"] == 2:
        bits.append("twice")
    if r["from"] == "cross":
        bits.append("from-other-socket")
    if r["txid"] == "wrong":
        bits.append("wrong-txid")
    if r["delay"]:
        bits.append("late")
    return "success(%s)" % ",".join(bits)


def ncls(c):
    """abstract class of a server behaviour, for signatures"""
    if c["addr"] != "ok":
        return "%s:addr=%s" % (c["fn"], c["addr"])
    s = "%s:r1=%s" % (c["fn"], rdesc(c["r1"], False))
    if c["expect"]["requests"] == 2:
        s += ",r2=%s" % rdesc(c["r2"], True)
    return s


def outcome(restricted, stage, cause):
    if stage == "none":
        return "restricted" if restricted else "unrestricted"
    return "error@%s/%s%s" % (stage, cause, "+restricted=true" if restricted else "")


def judge_nat(c, o, tick_ms):
    """-> list of (signature, what, needs_confirmation); the expected values are the ones TLC printed"""
    e = c["expect"]
    k = ncls(c)
    out = []
    if o.get("note"):
        return [("NatDiscovery/harness/" + o["note"][:60], o["note"], False)]
    if o.get("panic"):
        return [("NatDiscovery/panic/%s" % k, "the call panicked on server behaviour %s: %s" % (k, o["panic"]), False)]
    if not o.get("returned"):
        return [("NatDiscovery/never-returned/%s" % k, "no return within 60 s (the code's own bound is two round trips of 10 s) on server behaviour %s; the server saw %d requests" % (
            k, len(o.get("reqs", []))), True)]
    got, want = outcome(o["restricted"], o["stage"], o["cause"]), outcome(e["restricted"], e["stage"], e["cause"])
    if got != want:
        out.append(("NatDiscovery/result/%s/got=%s/want=%s" % (k, got, want), "server behaviour %s: the call returned %s (err=%r), the classification table says %s" % (
            k, got, o["err"][:160], want), True))        # confirmed alone: the code takes any datagram for the response, also another case's stray
    elif o["is_timed_out"] != (e["cause"] == "timeout"):
        out.append(("NatDiscovery/errors-is-timeout/%s" % k, "errors.Is(err, ErrTimedOut) = %s for err=%r" % (o["is_timed_out"], o["err"][:160]), False))
    want_ms = e["ticks"] * tick_ms
    if o["ms"] < want_ms - 150:
        out.append(("NatDiscovery/returned-early/%s" % k, "returned after %d ms; the model says %d ticks = %d ms (timeout %d ticks)" % (o["ms"], e["ticks"], want_ms, T_TICKS), False))
    elif o["ms"] > want_ms + o.get("held_ms", 0) + 5000:
        out.append(("NatDiscovery/returned-late/%s" % k, "returned after %d ms; the model says %d ticks = %d ms" % (o["ms"], e["ticks"], want_ms), True))
    reqs = o.get("reqs", [])
    if len(reqs) != e["requests"]:
        out.append(("NatDiscovery/requests/%s/got=%d/want=%d" % (k, len(reqs), e["requests"]), "the server saw %d requests, the model says %d" % (len(reqs), e["requests"]), True))
    else:
        if any(q["type"] != "Binding request" for q in reqs):
            out.append(("NatDiscovery/request-type/%s" % c["fn"], "requests are %s" % [q["type"] for q in reqs], False))
        if reqs and reqs[0]["at"] != "primary":
            out.append(("NatDiscovery/first-request-at/%s" % reqs[0]["at"], "the first request went to the %s address" % reqs[0]["at"], False))
        if len(reqs) == 2:
            if reqs[1]["at"] != e["second_at"]:
                out.append(("NatDiscovery/second-request-at/%s/got=%s/want=%s" % (c["fn"], reqs[1]["at"], e["second_at"]),
                            "the second request went to the %s address, the model says %s" % (reqs[1]["at"], e["second_at"]), False))
            if (reqs[1]["change"] == "00000002") != e["change_request"] or (not e["change_request"] and reqs[1]["change"] != "none"):
                out.append(("NatDiscovery/change-request/%s/got=%s" % (c["fn"], reqs[1]["change"]), "CHANGE-REQUEST of the second request is %s" % reqs[1]["change"], False))
        if reqs and reqs[0]["change"] != "none":
            out.append(("NatDiscovery/change-request/first/%s" % c["fn"], "the first request carries CHANGE-REQUEST %s" % reqs[0]["change"], False))
    if o["sock_bound"] != e["sock_bound"]:
        out.append(("NatDiscovery/socket-left-open/%s" % (o["stage"] if o["stage"] != "none" else "success"), "the client's UDP socket (port %d, inode %s) is still open 1.5 s after "
                    "the call returned (%s) [server behaviour %s]" % (o["client_port"], o.get("sock_inode"), got, k), False))
    if o["listener_left"] != e["listener_left"]:
        out.append(("NatDiscovery/listener-left/%s" % re.sub(r"\W+", "-", o.get("left_where", "?")), "the listener goroutine started by the call is still alive 1.5 s after it "
                    "returned, blocked in [%s]: a message arrived that no round trip was waiting for (server behaviour %s) and Close only closes the socket" % (
                        o.get("left_where", "?"), k), False))
    return out


def judge_client(c, o, tick_ms):
    e = c["expect"]
    k = "%s:[%s]" % (c["kind"], ",".join(c["servers"]))
    out = []
    if o.get("note"):
        return [("NatClient/harness/" + o["note"][:60], o["note"], False)]
    if o.get("panic"):
        return [("NatClient/panic/%s" % k, "updateNATType panicked: %s" % o["panic"], False)]
    if not o.get("returned"):
        return [("NatClient/never-returned/%s" % k, "updateNATType did not return", True)]
    polls = {p["at"]: p for p in o["polls"]}

    def cmp(at, want):
        p = polls.get(at)
        if p is None:
            out.append(("NatClient/harness/no-%s-poll" % at, "no poll %s the update [%s]" % (at, k), False))
        elif p.get("err") or p["nat"] not in NAMES:
            out.append(("NatClient/reported-not-a-nat-type/%s" % at, "poll request carries nat=%r (%s) [%s]" % (p["nat"], p.get("err"), k), False))
        elif p["nat"] != want:
            out.append(("NatClient/reported/%s/%s/got=%s/want=%s" % (at, k, p["nat"], want), "the poll made %s updateNATType reported %s, the contract says %s" % (at, p["nat"], want), False))
    if c["kind"] == "update":
        cmp("before", e["before"])
    if e["held"]:
        cmp("during", e["during"])
    cmp("after", e["after"])
    if o["final"] != e["after"]:
        out.append(("NatClient/final/%s/got=%s/want=%s" % (k, o["final"], e["after"]), "BrokerChannel.natType is %s at the end, the contract says %s" % (o["final"], e["after"]), False))
    if c["kind"] == "update":
        if list(o["contacted"]) != list(e["contacted"]):
            out.append(("NatClient/contacted/%s/got=%s/want=%s" % (k, o["contacted"], list(e["contacted"])), "requests seen by the servers: %s, the contract says %s "
                        "(the loop stops at the first completed test)" % (o["contacted"], list(e["contacted"])), False))
        want_ms = e["ticks"] * tick_ms
        if o["ms"] < want_ms - 150:
            out.append(("NatClient/returned-early/%s" % k, "updateNATType returned after %d ms, the model says %d ms" % (o["ms"], want_ms), False))
        elif o["ms"] > want_ms + 6000:
            out.append(("NatClient/returned-late/%s" % k, "updateNATType returned after %d ms, the model says %d ms" % (o["ms"], want_ms), True))
    return out


def race_reports(d, words):
    reports = []
    for f in os.listdir(d):
        if f.startswith("race."):
            with open(os.path.join(d, f)) as fh:
                reports += [b for b in fh.read().split("==================") if "DATA RACE" in b]
    mine = []
    for rep in reports:
        parts = re.split(r"\n\s*\n", rep.strip())
        acc = [p for p in parts if re.match(r"\s*(WARNING: DATA RACE\s*)?(Write|Read|Previous write|Previous read|Atomic|Previous atomic)", p.strip())][:2]
        if len(acc) < 2:
            continue
        tops, harness_top = [], False
        for p in acc:
            frames = re.findall(r"^\s+(\S+)\(\)\n\s+(\S+):\d+", p, re.M)
            if not frames:
                continue
            fn, fl = frames[0]
            harness_top = harness_top or fl.endswith("_verif_test.go")
            tops.append(re.sub(r"^.*/", "", fn))
        if any(w in rep for w in words) and not harness_top and len(tops) == 2:
            mine.append(("~".join(sorted(tops)), rep))
    return mine, len(reports)


def run_natdisc_part(chk, args, binaries=None):
    quick = chk.tier == "quick"
    rng = random.Random(chk.seed * 32452843 + 15)
    chk.known.extend(KNOWN)
    box = {"tlc": [], "notes": [], "fail": []}
    mc = threading.Thread(target=model_check, args=(quick, box))
    mc.start()
    try:
        bins = {}

        def build(name, fn):
            try:
                bins[name] = fn()
            except Exception as ex:  # noqa
                bins[name] = ex
        bt = [threading.Thread(target=build, args=("nat", lambda: vlib.go_test_compile_inpkg("common/nat", [H_NAT], "nat.verif.test"))),
              threading.Thread(target=build, args=("client", lambda: vlib.go_test_compile_inpkg("client/lib", [H_CLIENT], "client_natdisc.verif.test", linkflag=True)))]
        if not quick:
            bt.append(threading.Thread(target=build, args=("client-race", lambda: vlib.go_test_compile_inpkg("client/lib", [H_CLIENT], "client_natdisc.race.test", linkflag=True, race=True))))
        for t in bt:
            t.start()
        g = vlib.tlc(SPECDIR, "NatDiscovery", "Gen_quick.cfg" if quick else "Gen_thorough.cfg", workers=1, timeout=600)
        chk.add_tlc(g)
        gc = vlib.tlc(SPECDIR, "NatClient", "GenC_quick.cfg" if quick else "GenC_thorough.cfg", workers=1, timeout=600)
        chk.add_tlc(gc)
        for t in bt:
            t.join()
        for v in bins.values():
            if isinstance(v, Exception):
                raise vlib.Inconclusive(str(v))
        if g.error or gc.error:
            raise vlib.Inconclusive("NatDiscovery generation: %s / %s" % (g.error, gc.error))
        ncases = [p for p in g.prints if isinstance(p, dict) and "r1" in p]
        ccases = [p for p in gc.prints if isinstance(p, dict) and "servers" in p]
        classes = collections.Counter(c["expect"]["class"] for c in ncases)
        if len(ncases) < 500 or min(classes[x] for x in ("restricted", "unrestricted", "error")) == 0 or len(ccases) < 50:
            raise vlib.Inconclusive("NatDiscovery generation is vacuous: %d cases %s, %d server lists" % (len(ncases), dict(classes), len(ccases)))
        for i, c in enumerate(ncases):
            c["id"] = i + 1
            c["slow"] = c["expect"]["ticks"] >= T_TICKS
        clist = []
        for c in ccases:
            c["servers"] = list(c["servers"] or [])
            c["expect"]["contacted"] = list(c["expect"]["contacted"] or [])
            clist.append(dict(c, id=len(clist) + 1, kind="update"))
            if c["expect"]["order_free"] and "silent" not in c["servers"]:
                clist.append(dict(c, id=len(clist) + 1, kind="client"))
        # ONE process for all behaviours: the code accepts any datagram as "the response", so the driver lets no socket be
        # created while stray answers can be in flight (a barrier inside the process, see the harness); the client part
        # starts first and has all its sockets before the behaviours start
        nproc = 1
        njobs = [ncases]
        nto = sum(1 for c in ncases if c["expect"]["ticks"] >= T_TICKS)
        chk.note("NatDiscovery: %d server behaviours from TLC (%s; %d wait for the 10 s timeout) in %d processes; %d server lists -> %d client cases" % (
            len(ncases), ", ".join("%d %s" % (v, k) for k, v in sorted(classes.items())), nto, nproc, len(ccases), len(clist)))
        t0 = time.time()
        def nat_job(j):
            time.sleep(2.0)
            return run_proc(bins["nat"], "TestVerifNatDiscovery", "VERIF_ND_IN", "VERIF_ND_OUT", j, 200)
        jobs = [(lambda j=j: nat_job(j)) for j in njobs]
        jobs.append(lambda: run_proc(bins["client"], "TestVerifNatDiscClient", "VERIF_NDC_IN", "VERIF_NDC_OUT", clist, 200))
        results = vlib.run_parallel(jobs, workers=len(jobs))
        chk.note("NatDiscovery: real-code runs done (%.0fs)" % (time.time() - t0))
        found = collections.OrderedDict()
        njudged = nontriv = 0
        for j, (recs, r) in zip(njobs, results[:-1]):
            summ = next((x["summary"] for x in recs if "summary" in x), None)
            if r.timed_out or r.rc != 0 or summ is None:
                chk.fail("NatDiscovery driver failed (rc=%s timeout=%s):\n%s" % (r.rc, r.timed_out, r.out[-2000:]))
                continue
            if summ["tick_ms"] * T_TICKS != 10000:
                raise vlib.Inconclusive("NatDiscovery: driver tick %d ms x T %d is not the code's 10 s" % (summ["tick_ms"], T_TICKS))
            byid = {x["id"]: x for x in recs if "id" in x}
            for c in j:
                o = byid.get(c["id"])
                if o is None:
                    chk.fail("NatDiscovery driver: no record for case %s" % c["id"])
                    continue
                njudged += 1
                chk.cov["evaluations"] += 1
                nontriv += 1 if c["expect"]["nontrivial"] else 0
                for sig, what, confirm in judge_nat(c, o, summ["tick_ms"]):
                    found.setdefault(sig, (what, c, o, confirm, "nat"))
                if c["expect"]["class"] == "unrestricted" and c["r1"]["copies"] == 2 and c["r2"]["kind"] == "success" and c["r2"]["mapped"] != "same":
                    chk.sample({"module": "NatDiscovery", "surprise": "S1: a duplicate of the first response serves the second round trip",
                                "server": ncls(c), "returned": outcome(o["restricted"], o["stage"], o["cause"])}, limit=4)
            if summ.get("udp_sockets_left", 0) > 0 and not any(s.startswith("NatDiscovery/socket-left-open/") for s in found):
                found.setdefault("NatDiscovery/socket-left-open/at-end", ("the test process holds %d UDP sockets more than before the run after every call has returned and every "
                                 "responder is closed" % summ["udp_sockets_left"], j[0], summ, False, "nat"))
            if summ.get("listeners_left_total", 0) > 0 and not any(s.startswith("NatDiscovery/listener-left/") for s in found):
                found.setdefault("NatDiscovery/listener-left/at-end", ("%d listener goroutines of package nat are alive after every call has returned" % summ["listeners_left_total"], j[0], summ, False, "nat"))
        recs, r = results[-1]
        summ = next((x["summary"] for x in recs if "summary" in x), None)
        if r.timed_out or r.rc != 0 or summ is None:
            chk.fail("NatClient driver failed (rc=%s timeout=%s):\n%s" % (r.rc, r.timed_out, r.out[-2000:]))
        else:
            byid = {x["id"]: x for x in recs if "id" in x}
            for c in clist:
                o = byid.get(c["id"])
                if o is None:
                    chk.fail("NatClient driver: no record for case %s" % c["id"])
                    continue
                njudged += 1
                chk.cov["evaluations"] += len(o.get("polls", []))
                nontriv += 1 if c["expect"]["nontrivial"] else 0
                for sig, what, confirm in judge_client(c, o, TICK_MS):
                    found.setdefault(sig, (what, c, o, confirm, "client"))
                if c["kind"] == "update" and len(c["servers"]) >= 2 and c["expect"]["after"] != "unknown":
                    chk.sample({"module": "NatClient", "servers": c["servers"], "polls": ["%s=%s" % (p["at"], p["nat"]) for p in o["polls"]], "contacted": o["contacted"]}, limit=4)
        for sig, (what, c, o, confirm, part) in list(found.items())[:10]:
            if "/harness/" in sig:
                chk.fail("%s: %s" % (sig, what))
                continue
            if confirm:
                # established by a real-time bound: re-run the case alone before reporting
                if part == "nat":
                    recs, r = run_proc(bins["nat"], "TestVerifNatDiscovery", "VERIF_ND_IN", "VERIF_ND_OUT", [c], 200)
                    o2 = next((x for x in recs if x.get("id") == c["id"]), None)
                    again = [s for s, _, _ in judge_nat(c, o2, TICK_MS)] if o2 else []
                else:
                    recs, r = run_proc(bins["client"], "TestVerifNatDiscClient", "VERIF_NDC_IN", "VERIF_NDC_OUT", [c], 200)
                    o2 = next((x for x in recs if x.get("id") == c["id"]), None)
                    again = [s for s, _, _ in judge_client(c, o2, TICK_MS)] if o2 else []
                if sig not in again:
                    chk.fail("%s was observed under load but not reproduced in an isolated re-run: no verdict" % sig)
                    continue
            chk.violation(sig, what, {"kind": "natdisc-" + part, "case": c, "observed": o})
        chk.cov["distinct_nontrivial"] += nontriv
        chk.cov["natdisc"] = {"server_behaviours": len(ncases), "classes": dict(classes), "with_timeout": nto, "client_cases": len(clist), "judged": njudged}
        if njudged == 0:
            chk.fail("NatDiscovery: no case was judged")
        if not quick:
            race_run(chk, bins["client-race"], clist)
    finally:
        mc.join()
        for n in box["notes"]:
            chk.note(n)
        for r in box["tlc"]:
            chk.add_tlc(r)
        for f in box["fail"]:
            chk.fail(f)
    chk.assumptions += [
        "NatDiscovery: real time; one model tick = 1 s, T = 10 ticks = the 10 s literal in RoundTrip; cases avoid ties between a response and the timeout",
        "NatDiscovery: the scripted responder sends every datagram of one reply back to back and answers the second request only after the first reply is "
        "out (loopback keeps the order); its two sockets are 127.0.0.1 and the first non-loopback address (else 127.0.0.1 again)",
        "NatDiscovery: a socket left open is the client's UDP port still bound (/proc/net/udp) 1.5 s after the call; a listener left is a goroutine created by "
        "nat.listen in the calling goroutine that is alive 1.5 s after the call",
        "NatClient: sync.Mutex is starvation-free (strong fairness on the acquisitions in the liveness run)",
    ]


def race_run(chk, binary, clist):
    """NoRace of NatClient on the real code: polls hammer Negotiate while updateNATType stores, under the race detector"""
    pick = [c for c in clist if c["kind"] == "update" and c["servers"] in (["noother", "garbage", "restricted"], ["noother", "unrestricted"], ["garbage", "garbage", "garbage"])][:3]
    cases = [dict(c, hammer=True) for c in pick]
    if not cases:
        chk.fail("NatClient race run: no case to hammer")
        return
    d = vlib.scratch("natdisc-race")
    recs, r = run_proc(binary, "TestVerifNatDiscClient", "VERIF_NDC_IN", "VERIF_NDC_OUT", cases, 240,
                       {"GORACE": "log_path=%s halt_on_error=0" % os.path.join(d, "race")})
    if r.timed_out or not any("summary" in x for x in recs):
        chk.fail("NatClient race run failed (rc=%s):\n%s" % (r.rc, r.out[-1500:]))
        return
    mine, total = race_reports(d, ("SetNATType", "natType", "updateNATType", "Negotiate"))
    bad = [x for x in recs if x.get("bad_hammer")]
    if bad:
        chk.violation("NatClient/reported-not-a-nat-type/hammer", "a poll made while updateNATType ran carried nat=%r" % bad[0]["bad_hammer"], {"kind": "natdisc-race", "cases": cases})
    if mine:
        for key, rep in list(collections.OrderedDict(mine).items())[:3]:
            chk.violation("NatClient/NoRace/%s" % key, "the race detector reports unsynchronised accesses to the client's NAT type (updateNATType storing while polls encode):\n" + rep[:1500],
                          {"kind": "natdisc-race", "cases": cases, "report": rep[:4000]})
    else:
        chk.note("NatClient: race detector: %d updates with %d hammering polls, no report on the NAT type (%d other reports ignored)" % (
            len(cases), sum(x.get("hammered", 0) for x in recs if "id" in x), total))


def replay(chk, rp):
    kind = rp.get("kind", "")
    if not kind.startswith("natdisc-"):
        return False
    if kind == "natdisc-race":
        chk.fail("replay of a race report: run the thorough tier")
        return True
    c = rp["case"]
    if kind == "natdisc-nat":
        b = vlib.go_test_compile_inpkg("common/nat", [H_NAT], "nat.verif.test")
        recs, r = run_proc(b, "TestVerifNatDiscovery", "VERIF_ND_IN", "VERIF_ND_OUT", [c], 200)
        o = next((x for x in recs if x.get("id") == c["id"]), None)
        res = judge_nat(c, o, TICK_MS) if o else None
    else:
        b = vlib.go_test_compile_inpkg("client/lib", [H_CLIENT], "client_natdisc.verif.test", linkflag=True)
        recs, r = run_proc(b, "TestVerifNatDiscClient", "VERIF_NDC_IN", "VERIF_NDC_OUT", [c], 200)
        o = next((x for x in recs if x.get("id") == c["id"]), None)
        res = judge_client(c, o, TICK_MS) if o else None
    if res is None:
        chk.fail("replay: the driver returned no record:\n" + r.out[-1500:])
        return True
    for sig, what, _ in res[:3]:
        chk.violation(sig, what + " (replayed case)", {"kind": kind, "case": c, "observed": o})
    if not res:
        chk.note("replay: the case conforms to the contract: %s" % json.dumps(o)[:300])
    return True


def run(chk, args):
    if getattr(args, "replay", None):
        with open(args.replay) as fh:
            if not replay(chk, json.load(fh)["replay"]):
                chk.fail("replay file is not from c15_natdisc")
        return
    run_natdisc_part(chk, args)
    chk.cov["exhaustive"] = True
    chk.cov["rule"] = ("NatDiscovery: a case is one scripted STUN server behaviour (address class x first response x second response) printed by TLC and executed on the "
                       "real CheckIfRestrictedNAT / isRestrictedFiltering; non-trivial = it ends in an error or in `restricted`, or a response is duplicated, comes "
                       "from the other socket, carries a foreign transaction id, or the server advertises itself as OTHER-ADDRESS.  NatClient: a case is one server "
                       "list run through the real updateNATType (and NewSnowflakeClient when the order cannot matter); non-trivial = a server fails before the loop ends")


MANIFEST = {
    "technique": "TLA+ specs NatTable (behaviour grammar + classification contract), NatDiscovery (the two RFC 5780 tests as a machine: caller, listener goroutine, "
                 "unbuffered channel, socket, scripted server, explicit clock) and NatClient (updateNATType, BrokerChannel.natType under its lock, pollers); TLC checks "
                 "machine = contract for every behaviour incl. liveness and emits every case with the demanded values; in-package drivers run the real functions "
                 "against a scripted two-socket STUN responder (all timeout classes in parallel) and a recording rendezvous; race detector on the lock (thorough)",
    "text": "CheckIfRestrictedNAT is total (returns for every server behaviour within two round trips of 10 s, never panics), classifies exactly as the table says "
            "(unrestricted iff both round trips answered with equal XOR-MAPPED-ADDRESS, restricted iff answered and different, error otherwise - an error never "
            "classifies), closes its socket and ends its listener on every path; the client reports `unknown` unless a test completed, then the class of the first "
            "server whose test completed, never touches natType without the lock and never holds it while a test is in flight.",
    "note": "Found and repaired: the listener goroutine of StunServerConn stayed blocked for ever in its channel send when a datagram arrived that no round trip was "
            "waiting for (duplicate or stray response). Documented surprises S1-S8 in spec/NatDiscovery/NatDiscovery.tla (a duplicated first response makes every "
            "NAT look unrestricted; no source / transaction-id check; one undecodable datagram ends the test; ...).",
}
