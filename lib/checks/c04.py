"""C04 - decided by spec/Broker (TLC) + gated replay / herds on the real handlers + TLC trace validation.
See lib/brokerlib.py."""
import brokerlib

LEVEL = "model_checking"


def run(chk, args):
    if args.replay:
        return brokerlib.replay(chk, "C04", args.replay)
    brokerlib.pipeline(chk, "C04", chk.tier, chk.seed)


MANIFEST = {
    "technique": 'TLA+ spec Broker: TLC deadlock freedom + NoGhost + leads-to completion with explicit timer deadlines; replays place every timer expiry next to the racing lock acquisition via gates; hangs observed on the real code under the fake clock; /debug, gauge and fresh polls checked at quiescence by the trace spec',
    "text": "A hang is a TLC deadlock of the model (some handler blocked, no timer pending); on the real code every scenario is drained 25 fake seconds past its last step and any request that has not returned is a violation, as is a leftover registration (/debug count, snowflake_available_proxies gauge, heaps, fresh clients of both pools must be told 'no proxies'). The pinned code violated this in three ways (D1-D3), found by this check and repaired.",
    "note": "Bounded as C02; 'bounded time' is judged on the fake clock (10 s + 10 s + 5 s slack); a panic in a broker goroutine during replay is reported as a crash.",
}
