"""C03 - decided by spec/Broker (TLC) + gated replay / herds on the real handlers + TLC trace validation.
See lib/brokerlib.py."""
import brokerlib

LEVEL = "model_checking"


def run(chk, args):
    only = set(args.only.split(",")) if args.only else None
    if args.replay:
        import json
        with open(args.replay) as fh:
            rp = json.load(fh)["replay"]
        if isinstance(rp, dict) and str(rp.get("kind", "")).startswith("bridgelist"):
            from checks import c03_bridgelist
            return c03_bridgelist.replay_part(chk, rp)
        return brokerlib.replay(chk, "C03", args.replay)
    if only is None or only - {"bridgelist"}:
        brokerlib.pipeline(chk, "C03", chk.tier, chk.seed)
    if only is None or "bridgelist" in only:
        # how the bridge table the model takes as a constant comes to be: spec/BridgeList (loader, lookups, reload)
        from checks import c03_bridgelist
        c03_bridgelist.run_bridgelist_part(chk, chk.tier == "quick")


MANIFEST = {
    "technique": 'TLA+ spec Broker: MatchRight/NATCompatible model-checked over all NAT x load populations of <=3 waiting proxies; pop events logged under the matching lock (heap root, pool size) validated by TLC against the trace spec on replays and herds',
    "text": 'Pool selection, refusal condition and least-load choice are action properties of ClientMatch, checked exhaustively on the model and on every recorded pop of the real code: the hook inside the matching lock logs the decoded NAT, the pool size and the heap root the pop returns; TLC reconstructs the heaps from add/pop/remove events and rejects a pop that is not a minimum of the eligible pool or a refusal with a non-empty pool.',
    "note": 'The bridge table (fingerprint -> relay URL) that the model takes as a constant is covered by spec/BridgeList: the line-by-line loader with its all-or-nothing and last-wins rules as a contract over TLC-enumerated files, the swap under the RW lock against concurrent lookups, and the relay URL handed out through the real IPC pair. Bounded populations (<=3 waiting per scenario in replays, up to 12+ in herds, loads 0/8/16/24); ties are accepted in either order; wire NAT values absent/empty/three names.',
}
