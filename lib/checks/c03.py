"""C03 - decided by spec/Broker (TLC) + gated replay / herds on the real handlers + TLC trace validation.
See lib/brokerlib.py."""
import brokerlib

LEVEL = "model_checking"


def run(chk, args):
    if args.replay:
        return brokerlib.replay(chk, "C03", args.replay)
    brokerlib.pipeline(chk, "C03", chk.tier, chk.seed)


MANIFEST = {
    "technique": 'TLA+ spec Broker: MatchRight/NATCompatible model-checked over all NAT x load populations of <=3 waiting proxies; pop events logged under the matching lock (heap root, pool size) validated by TLC against the trace spec on replays and herds',
    "text": 'Pool selection, refusal condition and least-load choice are action properties of ClientMatch, checked exhaustively on the model and on every recorded pop of the real code: the hook inside the matching lock logs the decoded NAT, the pool size and the heap root the pop returns; TLC reconstructs the heaps from add/pop/remove events and rejects a pop that is not a minimum of the eligible pool or a refusal with a non-empty pool.',
    "note": 'Bounded populations (<=3 waiting per scenario in replays, up to 12+ in herds, loads 0/8/16/24); ties are accepted in either order; wire NAT values absent/empty/three names.',
}
