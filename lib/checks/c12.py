"""C12 - broker messages round-trip and invalid ones are rejected.
spec/Messages: the contract (Valid / Normalise) on abstract messages, what a
JSON document denotes, and the codecs as documented; TLC checks
ModelDecode(Encode(m)) = Normalise(m) and ModelDecode(doc) within the contract
on every enumerated case and prints every case with the outcomes the contract
allows; harness/cmd/msgdrv concretises the tokens and runs the real
common/messages encoders and decoders."""
import collections
import json
import os
import vlib

LEVEL = "model_checking"
SPECDIR = os.path.join(vlib.SPEC, "Messages")
KINDS = ["ppreq", "ppresp", "pareq", "paresp", "cpreq", "cpresp"]
MIN_CASES = {"quick": 10000, "thorough": 60000}


def run(chk, args):
    drv = vlib.go_build("./cmd/msgdrv", "msgdrv", linkflag=False)
    if args.replay:
        return replay(chk, drv, args.replay)
    t = chk.tier
    # 1. design level: the documented codecs satisfy the contract on every case
    r = vlib.tlc(SPECDIR, "Messages", "MC_%s.cfg" % t, workers=1, timeout=1500, keep_prints=False)
    chk.add_tlc(r)
    chk.note("TLC MC_%s: %d distinct states, error=%s (%.0fs)" % (t, r.distinct, r.error, r.wall))
    if r.error:
        # a violation in the model alone is a defect of the specification, not a verdict
        chk.fail("model check MC_%s failed: %s\n%s" % (t, r.error, r.out[-3000:]))
        return
    # 2. case enumeration by TLC + replay through the real code
    g = vlib.tlc(SPECDIR, "Messages", "Gen_%s.cfg" % t, workers=1, timeout=1500)
    chk.add_tlc(g)
    if g.error:
        chk.fail("case generation Gen_%s failed: %s" % (t, g.error))
        return
    cases = g.prints
    chk.note("TLC Gen_%s: %d cases (%.0fs)" % (t, len(cases), g.wall))
    if len(cases) != r.distinct:
        chk.fail("case generation and model check disagree on the number of cases: %d vs %d" % (len(cases), r.distinct))
        return
    # vacuity: every message kind in every family, both verdicts of the contract present
    fam = collections.Counter((c["kind"], "rt" if c["mode"] == "rt" else c["shape"].split(":")[0]) for c in cases)
    missing = [(k, f) for k in KINDS for f in ("rt", "product", "wrongtype", "duplicate", "extra", "top") if fam[(k, f)] == 0]
    want = collections.Counter()
    for c in cases:
        errs = [o["err"] for o in c["expect"]["full"]]
        want["reject" if errs == ["error"] else "any" if "any" in errs else "either" if "error" in errs else "accept"] += 1
    if len(cases) < MIN_CASES[t] or missing or min(want[x] for x in ("reject", "accept", "either", "any")) == 0:
        chk.fail("vacuous: %d cases, missing families %s, contract verdicts %s" % (len(cases), missing, dict(want)))
        return
    chk.note("contract verdicts over the cases: %s" % dict(want))
    for c in (cases[0], cases[len(cases) // 2], cases[-1]):
        chk.sample(c)
    s = vlib.drive_cases(chk, drv, ["run"], cases, [chk.seed], tag="msg")
    chk.note("msgdrv: %s" % s)
    if t == "thorough":
        # two more concretisations of every case: contents are a function of (seed, case index), so the index is shifted
        # (the shifted index is what a replay file records)
        for k in (1, 2):
            s2 = vlib.drive_cases(chk, drv, ["run"], [dict(c, _idx=i + 1000000 * k) for i, c in enumerate(cases)], [chk.seed], tag="msg%d" % k)
            chk.note("msgdrv round %d: %s" % (k + 1, s2))
    chk.cov["distinct_nontrivial"] = int(s.get("nontrivial", 0))   # abstract cases, counted once
    chk.cov["exhaustive"] = True
    chk.cov["traces_validated_against_impl"] = 0
    chk.cov["contract_verdicts"] = dict(want)
    chk.cov["cases_per_family"] = {"%s/%s" % k: v for k, v in sorted(fam.items())}
    chk.cov["rule"] = ("cases are TLC initial states of spec/Messages: for each of the six messages (a) every argument class of the real "
                       "encoders (round trip), (b) the full product of member classes of hand-made documents (absent / empty / content "
                       "classes / protocol keywords / version, NAT, type, clients, fingerprint, pattern classes), (c) JSON shapes (wrong "
                       "member type, duplicate, extra member, non-object, non-JSON, empty, white space, reversed order, BOM, invalid "
                       "UTF-8). A case is non-trivial when the contract rejects it or allows a rejection, applies a documented default, "
                       "a member is absent, or the document deviates from the encoders' shape (flag computed by TLC, counted by the driver "
                       "for the cases actually executed)")
    chk.assumptions += ["free-text contents are seeded representatives of the classes ascii / needs-escaping / multi-byte / newline / long "
                        "(not enumerated by TLC); strings are valid UTF-8 as the property's quantifier says",
                        "Go int is 64 bit on the checking platform (clients up to 2^63-1 round-trip)",
                        "encoding/json's reading rules (last duplicate wins, null = absent, unknown members ignored) are the model of "
                        "the decoder at design level; the contract itself allows every reading listed in the spec's don't-care list"]


def replay(chk, drv, path):
    with open(path) as fh:
        f = json.load(fh)
    rp = f["replay"]
    case = dict(rp["case"])
    case["_idx"] = rp.get("idx", 0)
    vlib.drive_cases(chk, drv, ["run"], [case], [f.get("seed", chk.seed)], tag="replay")


MANIFEST = {
    "technique": "TLA+ spec Messages: contract operators Valid/Normalise on abstract messages, Allowed(doc) over JSON shapes, and the "
                 "documented codecs; TLC checks ModelDecode(Encode(m)) = Normalise(m) and ModelDecode(doc) in Allowed(doc) on every "
                 "case and emits each case with the allowed outcomes; Go driver concretises tokens and runs the real "
                 "messages.Encode*/Decode* functions (all six messages, incl. the two legacy decoders)",
    "text": "The protocol's accept/reject/default rules are explicit TLA+ operators. TLC enumerates the product of field classes and the "
            "JSON shape classes for all six messages as initial states, checks at design level that the documented wire format "
            "round-trips to the normalised fields and never leaves the contract, and prints every case with the set of outcomes the "
            "contract allows; each case is concretised with seeded strings and executed against the real package; fields are compared "
            "by data equality, a panic or a nil result without error is a violation. Exhaustive over the contract's partitions, hence "
            "model_checking bound to the code by differential replay.",
    "note": "String contents are seeded representatives per class, not enumerated; don't-care regions (minor versions never produced, "
            "NAT of a poll response, unknown/duplicate/null members, legacy decoders given a relay field, BOM/invalid UTF-8) are "
            "listed in the spec header and notes/C12.md. No trace validation (pure functions).",
}
