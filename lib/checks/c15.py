"""C15 - client bounds its peers, survives failed rendezvous, always shuts down.

spec/Peers/Peers.tla        Collect / Pop / End / connectLoop at the grain of the code's
                            critical sections; TLC checks Bound, NoPanic, PopNeverClosed,
                            AllClosedAfterEnd, NoCatchAfterEnd and EndReturns (liveness).
spec/Peers/Peers_Trace.tla  trace specification: every trace recorded from the real Peers
                            must be a behaviour of Peers.
spec/Peers/PeerConnect.tla  one rendezvous attempt as a sequential machine; TLC emits every
                            path with the outcome the contract demands.

Binding: (1) behaviours of GenSpec (environment steps in quiescent states only) are taken
from TLC's dumped state graph (edge-covering + seeded walks), from `tlc -simulate` and
from TLC's counterexamples of the as-is configurations, projected to command schedules and
executed against the real Peers by harness/inpkg/client_lib/peers_verif_test.go (scripted
Tongue, goroutine-dump quiescence); every recorded trace is validated by TLC against
Peers_Trace.  (2) every PeerConnect path is executed through the real dialer.  (3) the real
Transport.Dial / connectLoop / SnowflakeConn.Close run once in real time."""
import collections
import json
import os
import random
import re
import threading

import vlib

LEVEL = "model_checking"
SPECDIR = os.path.join(vlib.SPEC, "Peers")
INPKG = os.path.join(vlib.HARNESS, "inpkg", "client_lib")
HFILES = [os.path.join(INPKG, "peers_verif_test.go"), os.path.join(INPKG, "peerconnect_verif_test.go"),
          os.path.join(INPKG, "peerclose_verif_test.go")]

# Open findings of this property (none: D8, D9, D10 are repaired).  D5 (C13,
# DeserializeSessionDescription panicking on a non-string member, repaired by
# 0418892) is on C15's path too: reverting it makes the PeerConnect classes
# nonstring_type / nonstring_sdp fail with C15/panic:negotiate/answer-member-not-string.
KNOWN = []

MAX_REPORT = 8


# --------------------------------------------------------------------------
# behaviours -> command schedules

def cmd_of(label):
    """TLC action label of a GenSpec environment step -> harness command."""
    m = re.match(r"^(\w+?)(?:\((\d+)\))?$", label)
    if not m:
        return None
    a, arg = m.group(1), m.group(2)
    if a in ("GLoopWait", "LoopWait"):
        return {"op": "StartCollect"}
    if a in ("GCatchOK", "CCatchOK"):
        return {"op": "Catch", "ok": True}
    if a in ("GCatchErr", "CCatchErr"):
        return {"op": "Catch", "ok": False}
    if a in ("GPopCall", "PopCall"):
        return {"op": "StartPop"}
    if a in ("GEStart", "EStart"):
        return {"op": "StartEnd", "c": int(arg)}
    if a in ("GPeerCloses", "PeerCloses"):
        return {"op": "PeerClose", "k": int(arg)}
    return None


def key_of(steps):
    return tuple((s["op"], s.get("ok"), s.get("c"), s.get("k")) for s in steps)


def nontrivial(steps):
    """a schedule is non-trivial when it contains an action of the property's critical kind:
    an End call, a failed rendezvous or a peer closing on its own"""
    return any(s["op"] in ("StartEnd", "PeerClose") or (s["op"] == "Catch" and not s["ok"]) for s in steps)


class Graph:
    def __init__(self, dot):
        nodes, edges, inits = vlib.parse_dot(dot)
        if not edges or len(inits) != 1:
            raise vlib.Inconclusive("state graph dump unusable: %d edges, %d initial states" % (len(edges), len(inits)))
        self.init = next(iter(inits))
        self.edges = edges
        self.out = collections.defaultdict(list)
        for i, (s, d, lab) in enumerate(edges):
            self.out[s].append(i)
        self.cmd = [cmd_of(lab) for (_, _, lab) in edges]
        unknown = {lab for (_, _, lab), c in zip(edges, self.cmd) if c is None and lab.startswith("G")}
        if unknown:
            raise vlib.Inconclusive("unknown environment labels in the dump: %s" % sorted(unknown)[:5])
        # shortest-path tree
        self.parent = {self.init: None}
        dq = collections.deque([self.init])
        while dq:
            u = dq.popleft()
            for i in self.out[u]:
                v = edges[i][1]
                if v not in self.parent:
                    self.parent[v] = i
                    dq.append(v)

    def path_to(self, node):
        p = []
        while self.parent[node] is not None:
            i = self.parent[node]
            p.append(i)
            node = self.edges[i][0]
        p.reverse()
        return p

    def steps(self, path):
        return [self.cmd[i] for i in path if self.cmd[i] is not None]

    def covering(self, rng, limit, maxcmds=28):
        """paths from the initial state that together cover every environment (command) edge
        (or as many as `limit` paths allow); each path is extended greedily over uncovered edges"""
        uncovered = set(i for i, c in enumerate(self.cmd) if c is not None)
        total = len(uncovered)
        targets = sorted(uncovered)
        rng.shuffle(targets)
        paths = []
        for t in targets:
            if t not in uncovered:
                continue
            if len(paths) >= limit:
                break
            path = self.path_to(self.edges[t][0]) + [t]
            ncmd = sum(1 for i in path if self.cmd[i] is not None)
            cur = self.edges[t][1]
            idle = 0
            while ncmd < maxcmds:
                outs = self.out[cur]
                if not outs:
                    break
                code = [i for i in outs if self.cmd[i] is None]
                if code:
                    pick = rng.choice(code)       # goroutines run to rest before the next command
                else:
                    unc = [i for i in outs if i in uncovered]
                    if unc:
                        pick, idle = rng.choice(unc), 0
                    else:
                        idle += 1
                        if idle > 2:
                            break
                        pick = rng.choice(outs)
                    ncmd += 1
                path.append(pick)
                cur = self.edges[pick][1]
            for i in path:
                uncovered.discard(i)
            paths.append(path)
        return paths, total, total - len(uncovered)

    def walks(self, rng, n, maxcmds):
        paths = []
        for _ in range(n):
            cur, path, ncmd = self.init, [], 0
            want = rng.randint(4, maxcmds)
            while ncmd < want:
                outs = self.out[cur]
                if not outs:
                    break
                pick = rng.choice(outs)
                if self.cmd[pick] is not None:
                    ncmd += 1
                path.append(pick)
                cur = self.edges[pick][1]
            paths.append(path)
        return paths


def dump_graph(chk, cfg):
    d = vlib.scratch("dot")
    dot = os.path.join(d, cfg.replace(".cfg", ".dot"))
    r = vlib.tlc(SPECDIR, "Peers", cfg, workers=1, timeout=1200, dump_dot=dot, keep_prints=False, heap="3g")
    chk.add_tlc(r)
    if r.error:
        raise vlib.Inconclusive("GenSpec %s: %s\n%s" % (cfg, r.error, r.out[-1500:]))
    return Graph(dot), r


def simulate(chk, cfg, num, depth):
    """behaviours sampled by `tlc -simulate` (larger configuration)"""
    d = vlib.scratch("sim-%s-%d" % (cfg, chk.seed))
    r = vlib.tlc(SPECDIR, "Peers", cfg, workers=1, timeout=1200, simulate="file=%s/t,num=%d" % (d, num),
                 depth=depth, seed=chk.seed, keep_prints=False)
    chk.add_tlc(r)
    if r.error:
        raise vlib.Inconclusive("simulation %s: %s" % (cfg, r.error))
    out = []
    for f in sorted(os.listdir(d)):
        steps = []
        with open(os.path.join(d, f)) as fh:
            for line in fh:
                m = re.match(r"^\\\* <(\w+(?:\(\d+\))?) line ", line)
                if m:
                    c = cmd_of(m.group(1))
                    if c is not None and m.group(1).startswith("G"):
                        steps.append(c)
        if steps:
            out.append(steps)
    return out


def cex_schedule(out):
    """project a TLC counterexample (text) of a GenSpec configuration to commands"""
    steps = []
    for m in re.finditer(r"^State \d+: <(\w+(?:\(\d+\))?) line ", out, re.M):
        c = cmd_of(m.group(1)) if m.group(1).startswith("G") else None
        if c is not None:
            steps.append(c)
    return steps


# --------------------------------------------------------------------------
# harness + trace validation

def go_test(regex, env, timeout):
    r = vlib.go_test_inpkg("client/lib", HFILES, regex, env=env, linkflag=True, timeout=timeout)
    if r.timed_out or r.rc != 0 or "\nok" not in "\n" + r.out:
        raise vlib.Inconclusive("go test %s failed (rc=%s timeout=%s):\n%s" % (regex, r.rc, r.timed_out, r.out[-3000:]))
    return r


def run_schedules(scheds, tag):
    d = vlib.scratch("peers")
    inp, outp = os.path.join(d, tag + ".sched.ndjson"), os.path.join(d, tag + ".traces.ndjson")
    vlib.write_ndjson(inp, scheds)
    go_test("^TestVerifC15Peers$", {"VERIF_C15_SCHED": inp, "VERIF_C15_OUT": outp, "VERIF_C15_WORKERS": "4"}, 600)
    traces = vlib.read_ndjson(outp)
    if len(traces) != len(scheds):
        raise vlib.Inconclusive("harness returned %d traces for %d schedules" % (len(traces), len(scheds)))
    return traces


def obs_brief(e):
    if e.get("ev") not in ("obs", "final"):
        return json.dumps(e, sort_keys=True)
    return "%s chan=%d active=%s closed=%s created=%d catches=%d melted=%s col=%s/%s pop=%s/%s ends=%s" % (
        e["ev"], e["chanlen"], e["active"], e["closed"], e["created"], e["catches"], e["melted"],
        e["col"]["st"], e["col"]["res"], e["pop"]["st"], e["pop"]["k"], [x["st"] for x in e["ends"]])


def signature(trace, hw):
    """canonical signature of a rejected trace, from the first unexplained event (abstract state
    only: where each operation is parked / what it returned), never from ids or counts"""
    evs = trace["events"]
    e = evs[hw - 1] if 0 < hw <= len(evs) else {}
    prev_obs = next((x for x in reversed(evs[:max(hw - 1, 0)]) if x.get("ev") == "obs"), None)
    prev_cmd = next((x for x in reversed(evs[:max(hw - 1, 0)]) if x.get("ev") not in ("obs", "final")), {})
    if e.get("ev") in ("obs", "final"):
        ops = [("Collect", e["col"]), ("Pop", e["pop"])] + [("End", x) for x in e["ends"]]
        was = ([("Collect", prev_obs["col"]), ("Pop", prev_obs["pop"])] + [("End", x) for x in prev_obs["ends"]]) if prev_obs else None
        for j, (name, o) in enumerate(ops):
            if o["st"] == "panic" and not (was and was[j][1]["st"] == "panic"):
                when = "already-melted" if (prev_obs and prev_obs["melted"]) else "not-melted"
                txt = re.sub(r"[^a-z ]", "", o.get("panic", "").lower()).strip().replace(" ", "-")[:40]
                return "C15/panic:%s/%s/%s" % (name, when, txt)
        pending = sorted({x["st"] for x in e["ends"] if x["st"] in ("lock", "once")})
        # an End call parked although nothing but unfair environment steps can release it: either seen at the
        # final observation, or earlier because the model says Collect must leave its send once melt is closed
        if pending and (e["ev"] == "final" or (e["col"]["st"] == "send" and e["melted"])):
            full = "chan-full" if e["chanlen"] >= trace["max"] else "chan-not-full"
            return "C15/hang:End@%s/behind-Collect@%s/%s" % ("lock" if "lock" in pending else "once", e["col"]["st"], full)
        live = e["created"] - len(e["closed"])
        ended = any(x["st"] == "done" for x in e["ends"])
        was_ended = bool(prev_obs) and any(x["st"] == "done" for x in prev_obs["ends"])
        if was_ended and e["catches"] > prev_obs["catches"]:
            return "C15/catch-after-End:Collect@%s" % e["col"]["st"]
        if ended and live > 0:
            return "C15/peer-left-open-after-End"
        if live > trace["max"]:
            return "C15/bound:more-than-Max-live-peers"
        if e["pop"]["st"] == "idle" and e["pop"]["k"] > 0 and prev_obs and prev_obs["pop"]["st"] != "idle" and e["pop"]["k"] in prev_obs["closed"]:
            return "C15/pop-returned-closed-peer"
        return "C15/unexplained:after-%s/col=%s:%s/pop=%s:%s/ends=%s/chan=%s/live%sMax/melted=%s" % (
            prev_cmd.get("ev", "?"), e["col"]["st"], e["col"]["res"], e["pop"]["st"],
            "none" if e["pop"]["k"] < 0 else ("nil" if e["pop"]["k"] == 0 else ("closed-peer" if e["pop"]["k"] in e["closed"] else "peer")),
            "+".join(x["st"] for x in e["ends"]),
            "empty" if e["chanlen"] == 0 else ("full" if e["chanlen"] >= trace["max"] else "some"),
            ">" if live > trace["max"] else "<=", e["melted"])
    return "C15/unexplained:command-%s" % e.get("ev", "?")


def validate(chk, traces, scheds_by_id, tag, asis=False):
    """TLC decides, per trace, whether Peers explains it.  Returns number accepted."""
    accepted = 0
    bymax = collections.defaultdict(list)
    for t in traces:
        if t.get("note"):
            raise vlib.Inconclusive("harness: schedule %s: %s" % (t["id"], t["note"]))
        bymax[t["max"]].append(t)
    for mx in sorted(bymax):
        ts = bymax[mx]
        d = vlib.scratch("tv")
        f = os.path.join(d, "%s-max%d.ndjson" % (tag, mx))
        vlib.write_ndjson(f, ts)
        cfg = "Trace_max%d%s.cfg" % (mx, "_asis" if asis else "")
        r = vlib.tlc(SPECDIR, "Peers_Trace", cfg, workers=1, timeout=1500, files={"traces.ndjson": f}, heap="3g")
        chk.add_tlc(r)
        if r.error:
            raise vlib.Inconclusive("trace validation %s (model only): %s\n%s" % (cfg, r.error, r.out[-2500:]))
        verdicts = [p for p in r.prints if isinstance(p, dict) and "rejected" in p]
        if len(verdicts) != 1 or verdicts[0].get("nt") != len(ts):
            raise vlib.Inconclusive("trace validation %s printed no verdict for %d traces\n%s" % (cfg, len(ts), r.out[-2000:]))
        rej = {int(a): int(b) for a, b in verdicts[0]["rejected"]}
        accepted += len(ts) - len(rej)
        chk.note("TLC %s: %d traces, %d accepted, %d rejected, %d states (%.0fs)" % (cfg, len(ts), len(ts) - len(rej), len(rej), r.distinct, r.wall))
        byid = {t["id"]: t for t in ts}
        reported = collections.Counter()
        for tid in sorted(rej):
            t, hw = byid[tid], rej[tid]
            sig = signature(t, hw)
            reported[sig] += 1
            if reported[sig] > 1:
                continue
            e = t["events"][hw - 1] if hw <= len(t["events"]) else {}
            what = ("the real Peers (Max=%d) did something spec/Peers does not allow: first unexplained event #%d: %s; "
                    "schedule: %s" % (mx, hw, obs_brief(e), json.dumps(scheds_by_id[tid]["steps"])))
            if len(chk.violations) < MAX_REPORT or any(k.get("key") == sig for k in chk.known):
                chk.violation(sig, what, {"kind": "peers", "schedule": scheds_by_id[tid], "trace": t, "first_unexplained": hw,
                                          "also": reported[sig]})
        for sig, n in reported.items():
            if n > 1:
                chk.note("  %s: %d traces" % (sig, n))
    return accepted


# --------------------------------------------------------------------------
# PeerConnect

def pc_signature(case, k, at, exp):
    """signature of attempt k (1-based) of a PeerConnect case that does not conform"""
    nth = "first-attempt" if k == 1 else "attempt-after-%s" % ("failed-negotiate" if case["expects"][k - 2]["failstep"] == "negotiate"
                                                                 else "failed-" + case["expects"][k - 2]["failstep"] if case["expects"][k - 2]["result"] == "err" else "success")
    if at["result"] == "hang":
        return "C15/hang:%s/%s" % (at.get("hang_at") or "attempt", nth)
    if at["result"] == "panic" and at.get("panic_in"):
        return "C15/panic:" + at["panic_in"]        # event-listener/<event type>
    if at.get("contract"):
        return "C15/event:" + at["contract"][0]     # nil-error/<event type>
    if at["result"] == "panic":
        step = exp.get("failstep") or "none"
        if case["broker"] in ("nonstring_type", "nonstring_sdp"):
            return "C15/panic:negotiate/answer-member-not-string"
        if step == "prepare":
            return "C15/panic:prepare/ice-config-rejected"
        return "C15/panic:%s/ice=%s/broker=%s/dc=%s/fp=%s" % (step, case["ice"], case["broker"], case["dc"], case["fp"])
    return "C15/peerconnect:got-%s-want-%s/ice=%s/broker=%s/dc=%s/fp=%s/%s" % (
        at["result"], exp["result"], case["ice"], case["broker"], case["dc"], case["fp"], nth)


def pc_cases(prints):
    """group TLC's Emit lines (one per attempt) into cases with their per-attempt expectations"""
    by = collections.OrderedDict()
    for p in prints:
        if not (isinstance(p, dict) and "expect" in p):
            continue
        k = (p["ice"], p["broker"], p["dc"], p["fp"])
        c = by.setdefault(k, {"ice": p["ice"], "broker": p["broker"], "dc": p["dc"], "fp": p["fp"], "attempts": p["attempts"], "expects": {}})
        c["expects"][p["attempt"]] = p["expect"]
    out = []
    for c in by.values():
        if sorted(c["expects"]) != list(range(1, c["attempts"] + 1)):
            raise vlib.Inconclusive("PeerConnect: TLC printed attempts %s of %d for case %s" % (sorted(c["expects"]), c["attempts"], c))
        c["expects"] = [c["expects"][i] for i in range(1, c["attempts"] + 1)]
        out.append(c)
    return out


def peerconnect(chk, result):
    try:
        r = vlib.tlc(SPECDIR, "PeerConnect", "PC_gen.cfg", workers=1, timeout=300)
        if r.error:
            raise vlib.Inconclusive("PeerConnect model: %s\n%s" % (r.error, r.out[-1500:]))
        cases = pc_cases(r.prints)
        if len(cases) < 90:
            raise vlib.Inconclusive("PeerConnect: only %d cases emitted" % len(cases))
        result["tlc"] = [r]
        if result.get("only_case") is not None:
            oc = result["only_case"]
            cases = [c for c in cases if all(c[k] == oc.get(k, c[k]) for k in ("ice", "broker", "dc", "fp"))]
        d = vlib.scratch("pc")
        inp, outp = os.path.join(d, "cases.ndjson"), os.path.join(d, "out.ndjson")
        vlib.write_ndjson(inp, cases)
        go_test("^TestVerifC15PeerConnect$", {"VERIF_C15_PC_CASES": inp, "VERIF_C15_PC_OUT": outp}, 300)
        result["results"] = vlib.read_ndjson(outp)
    except Exception as e:  # noqa: BLE001 - reported by the main thread
        result["error"] = e


def judge_peerconnect(chk, result):
    if "error" in result:
        raise result["error"]
    for r in result["tlc"]:
        chk.add_tlc(r)
    res = result["results"]
    bad = nattempts = second = 0

    def report(sig, what, x, extra=None):
        if len(chk.violations) >= MAX_REPORT and not any(k.get("key") == sig for k in chk.known):
            return
        chk.violation(sig, what, {"kind": "peerconnect", "case": {k: x[k] for k in ("ice", "broker", "dc", "fp")}, "got": x, "extra": extra})

    for x in res:
        name = "ice=%s broker=%s dc=%s fingerprint=%s" % (x["ice"], x["broker"], x["dc"], x["fp"])
        if x.get("harness"):
            raise vlib.Inconclusive("PeerConnect harness problem in case %s: %s" % (name, x["harness"]))
        for k, at in enumerate(x["attempts"], 1):
            exp = x["expects"][k - 1]
            nattempts += 1
            second += k > 1
            if at["result"] == exp["result"] and at["events"] == exp["events"] and not at.get("contract"):
                continue
            bad += 1
            report(pc_signature(x, k, at, exp),
                   "rendezvous attempt %d of %d on one BrokerChannel with %s: the real dialer gave result=%s events=%s %s; the contract "
                   "(spec/Peers/PeerConnect.tla) demands result=%s events=%s" % (
                       k, len(x["expects"]), name, at["result"], at["events"], (at.get("panic") or at.get("err") or at.get("hang_at") or "")[:200],
                       exp["result"], exp["events"]), x)
        ran_all = len(x["attempts"]) == len(x["expects"]) and all(a["result"] not in ("hang", "panic") for a in x["attempts"])
        if x["end"] != "ok" and ran_all:
            bad += 1
            report("C15/%s:End/after-rendezvous-attempts" % ("hang" if x["end"] == "hang" else "panic"),
                   "Peers.End after %d attempts with %s: %s" % (len(x["attempts"]), name, x["end"]), x)
        if x["nat_lock"] != "ok" and ran_all:
            bad += 1
            report("C15/hang:SetNATType@channel-lock", "BrokerChannel.SetNATType after %d attempts with %s did not return: the channel lock "
                   "was left held (LockReleased)" % (len(x["attempts"]), name), x)
    chk.cov["evaluations"] += nattempts
    chk.cov["distinct_nontrivial"] += sum(1 for x in res for e in x["expects"] if e["result"] == "err")
    chk.cov["peerconnect"] = {"cases": len(res), "attempts": nattempts, "attempts_after_a_previous_one_on_the_same_channel": second}
    chk.note("PeerConnect: %d cases / %d attempts through the real dialer (%d on a channel already used), %d not conforming (slowest case %d ms)" % (
        len(res), nattempts, second, bad, max(x["wall_ms"] for x in res)))
    if res:
        x = res[len(res) // 2]
        chk.sample({"peerconnect": {k: x[k] for k in ("ice", "broker", "dc", "fp")},
                    "attempts": [{"result": a["result"], "events": a["events"]} for a in x["attempts"]], "expects": x["expects"]})
    return len(res)


# --------------------------------------------------------------------------
# connectLoop + SnowflakeConn.Close in real time

def connectloop(chk, result):
    try:
        d = vlib.scratch("loop")
        outp = os.path.join(d, "loop.ndjson")
        r = vlib.go_test_inpkg("client/lib", HFILES, "^TestVerifC15ConnectLoop$", env={"VERIF_C15_LOOP_OUT": outp},
                               linkflag=True, timeout=300)
        m = re.search(r"^panic: (?!test timed out).*$", r.out, re.M)
        if r.rc != 0 and not r.timed_out and m and "client/lib.connectLoop" in r.out:
            # the listener has no recover, exactly like the client binary's: a panic on connectLoop's goroutine
            # ends the process - here the test binary.  That IS the observation.
            result["crash"] = {"panic": m.group(0), "stack": r.out[m.start():m.start() + 3500]}
            return
        if r.timed_out or r.rc != 0 or "\nok" not in "\n" + r.out:
            raise vlib.Inconclusive("go test TestVerifC15ConnectLoop failed (rc=%s timeout=%s):\n%s" % (r.rc, r.timed_out, r.out[-3000:]))
        result["results"] = vlib.read_ndjson(outp)
    except Exception as e:  # noqa: BLE001
        result["error"] = e


def judge_connectloop(chk, result):
    if "error" in result:
        raise result["error"]
    if "crash" in result:
        c = result["crash"]
        m = re.search(r"common/event\.(EventOn\w+)\.String", c["stack"])
        sig = "C15/panic:event-listener/" + m.group(1) if m else "C15/panic:client-process/connectLoop"
        chk.violation(sig, "real Transport.Dial/connectLoop with a listener that prints every event like the client binary's ptEventLogger: "
                      "the process died on connectLoop's goroutine instead of reporting the failed attempt and retrying: %s" % c["panic"],
                      {"kind": "loop", "crash": c})
        chk.cov["evaluations"] += 1
        return
    res = result["results"]
    for x in res:
        if x.get("note", "").startswith(("Dial", "no rendezvous", "harness")):
            raise vlib.Inconclusive("connectLoop scenario %s: %s" % (x["scenario"], x["note"]))
        rp = {"kind": "loop", "got": x}
        if not x["close_returned"]:
            if x.get("note", "").startswith("first Close: panic"):
                chk.violation("C15/panic:SnowflakeConn.Close/first", "scenario %s: %s" % (x["scenario"], x["note"]), rp)
            else:
                chk.violation("C15/hang:SnowflakeConn.Close/" + x["scenario"].split("/")[0],
                              "scenario %s: Close did not return within 5 s although the only rendezvous attempt in flight had ended" % x["scenario"], rp)
        if x["second_close"].startswith("panic"):
            chk.violation("C15/panic:End/already-melted/close-of-closed-channel",
                          "scenario %s: the second SnowflakeConn.Close panicked: %s" % (x["scenario"], x["second_close"]), rp)
        elif x["second_close"] != "ok":
            chk.violation("C15/hang:SnowflakeConn.Close/second", "scenario %s: the second Close did not return" % x["scenario"], rp)
        when = "session-died-first" if x.get("killed") else "live-session"
        if x["close_returned"] and not x["melted_after_close"]:
            chk.violation("C15/not-melted-after-Close/" + when,
                          "scenario %s: SnowflakeConn.Close returned but the Peers are not melted (connectLoop keeps running); "
                          "session dead when Close was called: %s" % (x["scenario"], x["session_was_dead"]), rp)
        if x["close_returned"] and x["has_spare"] and not x["spare_closed"]:
            chk.violation("C15/peer-left-open-after-Close/" + when,
                          "scenario %s: SnowflakeConn.Close returned but a held spare peer is still open" % x["scenario"], rp)
        if x["scenario"].startswith("dc-never-opens") and not (x["retried"] and "failed" in x["events"]):
            chk.violation("C15/no-report-or-retry-after-dc-timeout",
                          "scenario %s: after the data channel of the first peer never opened, retried=%s events=%s "
                          "(want a 'failed' event and a new rendezvous attempt)" % (x["scenario"], x["retried"], x["events"]), rp)
        if x["scenario"].startswith("invalid-fingerprint") and not x["retried"]:
            chk.violation("C15/no-retry-after-failed-rendezvous",
                          "scenario %s: connectLoop's retry on the same BrokerChannel was not reported within ReconnectTimeout + 6 s "
                          "(events %s)" % (x["scenario"], x["events"]), rp)
        if x.get("contract"):
            chk.violation("C15/event:" + x["contract"][0], "scenario %s: event contract: %s" % (x["scenario"], x["contract"]), rp)
        if x["calls_after_wait"] != x["calls_at_close"]:
            chk.violation("C15/catch-after-close:" + x["scenario"].split("/")[0],
                          "scenario %s: %d rendezvous attempt(s) started after SnowflakeConn.Close had returned (watched %d ms > ReconnectTimeout)" % (
                              x["scenario"], x["calls_after_wait"] - x["calls_at_close"], x["observed_ms"]), rp)
    chk.cov["evaluations"] += len(res)
    chk.cov["distinct_nontrivial"] += len(res)
    chk.note("connectLoop/Close: %d real-time scenarios, watched %d ms after Close" % (len(res), min(x["observed_ms"] for x in res)))


# --------------------------------------------------------------------------
# concurrent closers of one WebRTCPeer (spec/Peers/PeerClose.tla)

def closerace(chk, result):
    try:
        d = vlib.scratch("close")
        outp = os.path.join(d, "close.ndjson")
        r = vlib.go_test_inpkg("client/lib", HFILES, "^TestVerifC15CloseRace$", env={"VERIF_C15_CLOSE_OUT": outp},
                               linkflag=True, timeout=300)
        result["parts"] = vlib.read_ndjson(outp) if os.path.exists(outp) else []
        m = re.search(r"^panic: (?!test timed out).*$", r.out, re.M)
        if r.rc != 0 and not r.timed_out and m:
            # a closer the driver cannot wrap (staleness goroutine, pion's OnClose callback) panicked: the process died
            result["crash"] = {"panic": m.group(0), "stack": r.out[m.start():m.start() + 3500]}
            return
        if r.timed_out or r.rc != 0 or "\nok" not in "\n" + r.out:
            raise vlib.Inconclusive("go test TestVerifC15CloseRace failed (rc=%s timeout=%s):\n%s" % (r.rc, r.timed_out, r.out[-3000:]))
    except Exception as e:  # noqa: BLE001
        result["error"] = e


def closerace_contract(chk):
    """TLC: the atomic Close satisfies CloseOnce (2 and 3 closers) and prints the terminal observation;
    the check-then-act what-if must violate it"""
    terminal = None
    for cfg in (("PCl_atomic2.cfg",) if chk.tier == "quick" else ("PCl_atomic2.cfg", "PCl_atomic3.cfg")):
        r = vlib.tlc(SPECDIR, "PeerClose", cfg, workers=1, timeout=300)
        chk.add_tlc(r)
        if r.error:
            raise vlib.Inconclusive("PeerClose %s (model only): %s\n%s" % (cfg, r.error, r.out[-1500:]))
        obs = {json.dumps({k: p[k] for k in ("panics", "cleanups", "closed")}, sort_keys=True) for p in r.prints if isinstance(p, dict) and "cleanups" in p}
        if len(obs) != 1:
            raise vlib.Inconclusive("PeerClose %s: terminal observations %s" % (cfg, sorted(obs)))
        t = json.loads(obs.pop())
        if terminal is not None and t != terminal:
            raise vlib.Inconclusive("PeerClose: terminal observation depends on the number of closers: %s vs %s" % (t, terminal))
        terminal = t
    r = vlib.tlc(SPECDIR, "PeerClose", "PCl_mut.cfg", workers=1, timeout=300, keep_prints=False)
    chk.add_tlc(r)
    if r.error != "invariant:CloseOnce":
        raise vlib.Inconclusive("vacuity: the check-then-act Close does not violate CloseOnce: %s" % r.error)
    return terminal


def judge_closerace(chk, result, terminal):
    if "error" in result:
        raise result["error"]
    parts = result.get("parts", [])
    if "crash" in result:
        c = result["crash"]
        sig = "C15/panic:WebRTCPeer.Close/concurrent-closers" if "close of closed channel" in c["panic"] else "C15/panic:close-race-driver-process"
        chk.violation(sig, "a goroutine that closes a peer on its own (staleness checker / pion's OnClose callback) panicked while Peers.End "
                      "was closing the same peer, and the process died: %s (parts finished before: %s)" % (c["panic"], [p["part"] for p in parts]),
                      {"kind": "close", "crash": c})
        chk.cov["evaluations"] += 1
        return
    if len(parts) < 5:
        raise vlib.Inconclusive("close-race driver wrote %d of 5 parts" % len(parts))
    rounds = 0
    for p in parts:
        if p.get("note"):
            raise vlib.Inconclusive("close-race part %s: %s" % (p["part"], p["note"]))
        rounds += p["rounds"]
        rp = {"kind": "close", "got": p}
        name = "%s (%d rounds, %d simultaneous closers, %d peers)" % (p["part"], p["rounds"], p["closers"], p["peers"])
        if p["panics"] != terminal["panics"] * p["peers"]:
            txt = re.sub(r"[^a-z ]", "", p["first_panic"].split(": ", 1)[-1].lower()).strip().replace(" ", "-")[:40]
            chk.violation("C15/panic:WebRTCPeer.Close/concurrent-closers" if "close of closed channel" in p["first_panic"] else "C15/panic:WebRTCPeer.Close/" + txt,
                          "%s: %d closer(s) panicked (first: %s); in the client these goroutines are pion's / the staleness checker's / the data "
                          "path's / the one inside End, none recovers" % (name, p["panics"], p["first_panic"]), rp)
        if p["closings"] != terminal["cleanups"] * p["peers"]:
            chk.violation("C15/close-body-ran-%s" % ("more-than-once" if p["closings"] > p["peers"] else "less-than-once"),
                          "%s: the body of Close (close + cleanup) ran %d times for %d peers; CloseOnce demands exactly once each" % (name, p["closings"], p["peers"]), rp)
        if (p["not_closed"] == 0) != terminal["closed"] or p["pc_not_closed"]:
            chk.violation("C15/peer-left-open-after-concurrent-Close",
                          "%s: %d peers report Closed() == false and %d PeerConnections are not closed after all closers returned" % (
                              name, p["not_closed"], p["pc_not_closed"]), rp)
    chk.cov["evaluations"] += rounds
    chk.cov["distinct_nontrivial"] += len(parts)
    chk.cov["close_race"] = {p["part"] + "/%d" % p["closers"]: {"rounds": p["rounds"], "peers": p["peers"], "panics": p["panics"]} for p in parts}
    chk.note("close race: %d parts, %d rounds of simultaneous closers on the real WebRTCPeer, %d ms" % (len(parts), rounds, sum(p["wall_ms"] for p in parts)))


# --------------------------------------------------------------------------

def run(chk, args):
    chk.known.extend(KNOWN)
    q = chk.tier == "quick"
    rng = random.Random(chk.seed * 7919 + 15)
    vlib.repo_modfile()
    if args.replay:
        return replay(chk, args.replay)
    only = set((args.only or "mc,peers,pc,loop,close").split(","))

    # real-time parts run in the background (Go subprocesses only; TLC stays on this thread)
    threads, pcres, loopres, closeres = [], {}, {}, {}
    if "close" in only:
        threads.append(threading.Thread(target=closerace, args=(chk, closeres)))
    if "loop" in only:
        threads.append(threading.Thread(target=connectloop, args=(chk, loopres)))
    if "pc" in only:
        threads.append(threading.Thread(target=peerconnect, args=(chk, pcres)))
    for t in threads:
        t.start()
    terminal = None
    try:
        if "close" in only:
            terminal = closerace_contract(chk)
        if "mc" in only:
            model_check(chk, q)
        if "peers" in only and not chk.inconclusive:
            peers(chk, q, rng)
    except vlib.Inconclusive as e:
        chk.fail(str(e))      # what the real-time parts observed on the real code still counts
    finally:
        for t in threads:
            t.join()
    for part, judge, res in (("pc", judge_peerconnect, pcres), ("loop", judge_connectloop, loopres)):
        if part in only:
            try:
                judge(chk, res)
            except vlib.Inconclusive as e:
                chk.fail(str(e))
    if "close" in only and terminal is not None:
        try:
            judge_closerace(chk, closeres, terminal)
        except vlib.Inconclusive as e:
            chk.fail(str(e))
    chk.cov["exhaustive"] = False
    chk.cov["rule"] = ("an evaluation is one command schedule executed against the real Peers (projection of a TLC behaviour of "
                       "spec/Peers GenSpec: state-graph edge cover, seeded walks, -simulate samples, counterexamples of the as-is "
                       "configurations), one PeerConnect path through the real dialer, or one real-time connectLoop/Close scenario; "
                       "a schedule is non-trivial when it contains an End call, a failed rendezvous or a peer closing on its own; "
                       "a PeerConnect path when it must fail; distinct schedules only")
    chk.assumptions += [
        "replayed behaviours issue commands only when all operation goroutines are parked (GenSpec); interleavings at a finer grain "
        "(a command landing between two steps of Collect/End) are covered by TLC on the model only",
        "sync.Mutex does not starve a waiter (strong fairness for the two lock acquisitions in EndReturns)",
        "peers in the Peers replay are the hook-free fake *WebRTCPeer{closed: ...} the repository's own tests use; real pion peers only in PeerConnect",
        "quiescence = every operation goroutine finished or parked (chan send/receive, select, sync.Mutex.Lock) in two consecutive goroutine dumps",
        "connectLoop/Close is observed in real time for ReconnectTimeout + 2 s after Close returned",
        "concurrent closers: a stress part (spin barrier, a few thousand rounds) - detection of a check-then-act Close is statistical "
        "(measured 21 % of 2-closer rounds, 63 % of 4-closer rounds), not exhaustive over interleavings; TLC covers the interleavings on PeerClose.tla",
        "SessionDies is bound to the real code by the real-time scenarios only (the harness closes the smux session / packet conn through "
        "the SnowflakeConn's fields, as smux's keep-alive would after 10 min); the Peers replay calls End directly",
        "events are consumed by a mirror of client/snowflake.go ptEventLogger (String() on every event, synchronously, no recover); "
        "pt.Log's own output path is not exercised",
    ]


def model_check(chk, q):
    cfgs = ["MC_max1_quick.cfg", "MC_max2_quick.cfg"] if q else ["MC_max1.cfg", "MC_max2.cfg"]
    for cfg in cfgs:
        r = vlib.tlc(SPECDIR, "Peers", cfg, timeout=3000, keep_prints=False, coverage=not q, heap="4g")
        chk.add_tlc(r)
        chk.note("TLC %s: %d distinct states, error=%s (%.0fs)" % (cfg, r.distinct, r.error, r.wall))
        if r.error:
            chk.fail("model check %s failed (model only, no verdict): %s\n%s" % (cfg, r.error, r.out[-2500:]))
            return
        if not q:
            if len(r.coverage) < 25:
                chk.fail("vacuity: TLC coverage of %s lists only %d actions" % (cfg, len(r.coverage)))
                return
            zero = sorted(a for a, (d, t) in r.coverage.items() if t == 0 and a not in ("Init",))
            if zero:
                chk.fail("vacuity: actions never taken in %s: %s" % (cfg, zero))
                return
            chk.cov["coverage_zero_actions"] = zero
    # what-if: Close returning early on a dead stream must violate AllClosedAfterEnd once SessionDies can happen
    r = vlib.tlc(SPECDIR, "Peers", "MC_max1_mutC.cfg", workers=1, timeout=300, keep_prints=False)
    chk.add_tlc(r)
    if r.error != "invariant:AllClosedAfterEnd":
        chk.fail("vacuity: SessionDies + early-returning Close does not violate AllClosedAfterEnd: %s" % r.error)
    if not q:   # D10 is repaired; its vacuity check is kept for the thorough tier only (one JVM start less)
        r = vlib.tlc(SPECDIR, "PeerConnect", "PC_asisD10.cfg", workers=1, timeout=300, keep_prints=False)
        chk.add_tlc(r)
        if r.error != "invariant:NoPanic":
            chk.fail("vacuity: PeerConnect as-is (D10) configuration does not violate NoPanic: %s" % r.error)
    r = vlib.tlc(SPECDIR, "PeerConnect", "PC_lockleak.cfg", workers=1, timeout=300, keep_prints=False)
    chk.add_tlc(r)
    if r.error != "invariant:LockReleased":
        chk.fail("vacuity: a Negotiate error exit that keeps the channel lock does not violate LockReleased: %s" % r.error)
    r = vlib.tlc(SPECDIR, "PeerConnect", "PC_nilevent.cfg", workers=1, timeout=300, keep_prints=False)
    chk.add_tlc(r)
    if r.error != "invariant:NoPanic":
        chk.fail("vacuity: PeerConnect with an unprintable failure event does not violate NoPanic: %s" % r.error)


def tlc_expect_error(chk, module, cfg, timeout=600):
    """Run TLC on a configuration that is expected to END IN A VIOLATION and return (kind, output).
    (vlib.tlc does not recognise this TLC build's wording of a liveness violation, "Temporal property X was
    violated", and would raise; the full output is needed anyway to read the counterexample.)"""
    import shutil
    d = vlib.scratch("asis-" + cfg.replace(".cfg", ""))
    for f in os.listdir(SPECDIR):
        if f.endswith((".tla", ".cfg")):
            shutil.copy(os.path.join(SPECDIR, f), d)
    cmd = ["tlc", "-metadir", os.path.join(d, "meta"), "-workers", "1", "-config", cfg, module + ".tla"]
    r = vlib.run(cmd, cwd=d, timeout=timeout)
    if r.timed_out:
        raise vlib.Inconclusive("TLC timeout: %s" % " ".join(cmd))
    res = vlib.TLCResult()
    res.out, res.wall, res.cmd = r.out, r.wall, "tlc -workers 1 -config %s %s.tla" % (cfg, module)
    m = None
    for m in re.finditer(r"(\d+) states generated, (\d+) distinct states found", r.out):
        pass
    if m:
        res.generated, res.distinct = int(m.group(1)), int(m.group(2))
    chk.add_tlc(res)
    m = re.search(r"Invariant (\S+) is violated", r.out)
    if m:
        return "invariant:" + m.group(1), r.out
    m = re.search(r"Temporal propert(?:y (\S+) was|ies were) violated", r.out)
    if m:
        return "temporal:" + (m.group(1) or ""), r.out
    if "No error has been found" in r.out:
        return None, r.out
    raise vlib.Inconclusive("TLC failed: %s\n%s" % (res.cmd, r.out[-2000:]))


def asis_counterexamples(chk, q):
    """The as-is configurations (pinned code: AsIs_D8 / AsIs_D9 = TRUE) must violate NoPanic / NoStuckEnd /
    EndReturns: the properties are not vacuous.  The counterexamples of the quiescent-grain configurations
    are the minimal failing schedules; they are replayed on the real code with all other schedules."""
    out = []
    cfgs = [("Gen_max1_asisD8.cfg", "invariant:NoPanic", 1), ("Gen_max1_asisD9.cfg", "invariant:NoStuckEnd", 1)]
    if not q:
        cfgs.append(("Gen_max2_asisD9.cfg", "invariant:NoStuckEnd", 2))
    for cfg, want, mx in cfgs:
        kind, text = tlc_expect_error(chk, "Peers", cfg)
        if kind != want:
            raise vlib.Inconclusive("vacuity: as-is configuration %s gives %s, expected %s" % (cfg, kind, want))
        steps = cex_schedule(text)
        if not steps:
            raise vlib.Inconclusive("no counterexample steps parsed from %s" % cfg)
        out.append((mx, steps))
    if not q:
        # the liveness property itself, on the full interleaving specification
        for cfg, want in (("MC_max1_asisD8.cfg", "invariant:NoPanic"), ("MC_max2_asisD9.cfg", "temporal:EndReturns")):
            kind, _ = tlc_expect_error(chk, "Peers", cfg)
            if kind != want:
                raise vlib.Inconclusive("vacuity: as-is configuration %s gives %s, expected %s" % (cfg, kind, want))
    return out


def peers(chk, q, rng):
    scheds, seen = [], set()
    stats = {}

    def add(mx, steps, src):
        k = (mx,) + key_of(steps)
        if not steps or k in seen:
            return
        seen.add(k)
        scheds.append({"id": len(scheds) + 1, "max": mx, "steps": steps, "src": src})

    # (c) counterexamples of the as-is configurations
    for mx, steps in asis_counterexamples(chk, q):
        add(mx, steps, "cex")
        add(mx, steps + [{"op": "StartEnd", "c": 2}, {"op": "StartPop"}], "cex+")
    # the D9 lasso transposed to Max=3 and the two-closer variants of D8
    d9 = []
    for i in range(3):
        d9 += [{"op": "StartCollect"}, {"op": "Catch", "ok": True}]
    d9 += [{"op": "PeerClose", "k": 1}, {"op": "StartCollect"}, {"op": "Catch", "ok": True}, {"op": "StartEnd", "c": 1}]
    add(3, d9, "cex-max3")
    d9m2 = []
    for i in range(2):
        d9m2 += [{"op": "StartCollect"}, {"op": "Catch", "ok": True}]
    d9m2 += [{"op": "PeerClose", "k": 1}, {"op": "StartCollect"}, {"op": "Catch", "ok": True}, {"op": "StartEnd", "c": 1}]
    add(2, d9m2, "cex-max2")     # = TLC's counterexample of Gen_max2_asisD9 (regenerated in the thorough tier)
    # (a) state graph of the small configurations
    for cfg, mx, limit, nwalk in ((("Gen_max1.cfg", 1, 700, 150), ("Gen_max2.cfg", 2, 1000, 200)) if q else
                                  (("Gen_max1.cfg", 1, 10 ** 6, 1500), ("Gen_max2.cfg", 2, 10 ** 6, 3000), ("Gen_max2_big.cfg", 2, 10 ** 6, 6000))):
        g, r = dump_graph(chk, cfg)
        paths, total, covered = g.covering(rng, limit)
        for p in paths:
            add(mx, g.steps(p), "cover:" + cfg)
        for p in g.walks(rng, nwalk, 30):
            add(mx, g.steps(p), "walk:" + cfg)
        stats[cfg] = {"states": r.distinct, "edges": len(g.edges), "command_edges": total, "command_edges_covered": covered, "paths": len(paths)}
        chk.note("GenSpec %s: %d states, %d edges, %d/%d command edges covered by %d paths" % (cfg, r.distinct, len(g.edges), covered, total, len(paths)))
    # (b) simulation of a larger configuration
    for steps in simulate(chk, "Gen_max3_sim.cfg", 120 if q else 3000, 60):
        add(3, steps, "simulate")
    chk.cov["generation"] = stats
    if len(scheds) < 300:
        raise vlib.Inconclusive("vacuous: only %d schedules generated" % len(scheds))
    traces = run_schedules([{k: s[k] for k in ("id", "max", "steps")} for s in scheds], "main")
    byid = {s["id"]: s for s in scheds}
    skipped = sum(t["skipped"] for t in traces)
    ncmd = sum(len(s["steps"]) for s in scheds)
    chk.note("replayed %d schedules (%d commands, %d not applicable in the state the real code was in)" % (len(scheds), ncmd, skipped))
    if skipped * 5 > ncmd:
        raise vlib.Inconclusive("more than 20%% of the commands (%d of %d) were not applicable: the model does not describe the code" % (skipped, ncmd))
    acc = validate(chk, traces, byid, "main")
    chk.cov["evaluations"] += len(scheds)
    chk.cov["distinct_nontrivial"] += sum(1 for s in scheds if nontrivial(s["steps"]))
    chk.cov["traces_validated_against_impl"] += acc
    chk.cov["commands_skipped"] = skipped
    for s in scheds[:1] + scheds[len(scheds) // 2: len(scheds) // 2 + 1]:
        t = next(t for t in traces if t["id"] == s["id"])
        chk.sample({"schedule": s, "last_observation": obs_brief(t["events"][-1]) if t["events"] else None})


def replay(chk, path):
    with open(path) as fh:
        rp = json.load(fh)["replay"]
    if rp["kind"] == "peers":
        s = dict(rp["schedule"])
        s["id"] = 1
        traces = run_schedules([{k: s[k] for k in ("id", "max", "steps")}], "replay")
        acc = validate(chk, traces, {1: s}, "replay")
        chk.cov["evaluations"] += 1
        chk.cov["traces_validated_against_impl"] += acc
    elif rp["kind"] == "peerconnect":
        res = {"only_case": rp["case"]}
        peerconnect(chk, res)
        judge_peerconnect(chk, res)
    elif rp["kind"] == "loop":
        res = {}
        connectloop(chk, res)
        judge_connectloop(chk, res)
    elif rp["kind"] == "close":
        res = {}
        terminal = closerace_contract(chk)
        closerace(chk, res)
        judge_closerace(chk, res, terminal)
    else:
        raise vlib.Inconclusive("unknown replay kind %r" % rp.get("kind"))


MANIFEST = {
    "technique": "TLA+ spec Peers (Collect/Pop/End/connectLoop at critical-section grain) model-checked by TLC incl. liveness; "
                 "TLC behaviours replayed into the real client/lib Peers and every recorded trace validated by TLC against Peers_Trace; "
                 "PeerConnect paths emitted by TLC and run through the real WebRTC dialer; real-time connectLoop/Close run",
    "text": "TLC checks on spec/Peers (Max 1..2, <=4 peers, two End callers) that live peers never exceed Max, Pop never returns a closed "
            "peer, nothing panics, every End call returns under fairness of code steps and of the one rendezvous in flight only, all peers "
            "are closed and no rendezvous starts after End. Behaviours of the quiescent-grain GenSpec (edge cover of TLC's state graph, "
            "seeded walks, -simulate, as-is counterexamples) are executed against the real Peers with a scripted Tongue and goroutine-dump "
            "quiescence; TLC accepts or rejects each recorded trace (observations: parked position/result of every operation, queue length, "
            "active list, closed set, melt flag, Catch count; a final observation with an End still pending is rejected). Every path of the "
            "PeerConnect machine (5 ICE x 9 broker x 5 fingerprint x 2 data-channel classes, 97 cases / 190 attempts) runs through the real dialer with "
            "the real HTTP rendezvous, a scripted broker and an in-process pion answerer; Transport.Dial/connectLoop/SnowflakeConn.Close run "
            "in real time (no rendezvous for ReconnectTimeout+2s after Close, Close twice; also after the session died by itself, after a "
            "data-channel timeout and after a retry with an invalid bridge fingerprint). PeerConnect cases carry a bridge-fingerprint class and "
            "run 2 attempts on ONE BrokerChannel followed by Peers.End and SetNATType (channel lock released on every exit of Negotiate, "
            "invariant LockReleased); events are consumed like the client binary's logger. spec/Peers/PeerClose.tla: Close with concurrent "
            "closers (CloseOnce); a barrier stress of simultaneous closers on the real WebRTCPeer is compared with TLC's terminal observation.",
    "note": "Replay is at quiescent grain (commands only when all goroutines are parked); finer interleavings are model-checked only. "
            "Peers replay uses the repository's fake peers; Mutex fairness assumed for EndReturns; bounds Max<=3 in replay, Max<=2 in MC.",
}


# --- extension part built separately: the event dispatcher (spec/EventBus), see notes/EventBus.md ----------------
_run_core = run


def run(chk, args):
    import json as _json
    only = set(args.only.split(",")) if args.only else None
    if args.replay:
        with open(args.replay) as fh:
            rp = _json.load(fh)["replay"]
        if isinstance(rp, dict) and str(rp.get("kind", "")).startswith("eventbus"):
            from checks import c15_eventbus
            return c15_eventbus.replay_part(chk, rp)
        if isinstance(rp, dict) and str(rp.get("kind", "")).startswith("natdisc"):
            from checks import c15_natdisc
            return c15_natdisc.replay(chk, rp)
        if isinstance(rp, dict) and rp.get("kind") == "clientmain":
            from checks import c15_clientmain
            return c15_clientmain.replay_part(chk, rp)
        return _run_core(chk, args)
    if only is None or only - {"eventbus", "natdisc", "clientmain"}:
        _run_core(chk, args)
    if only is None or "eventbus" in only:
        from checks import c15_eventbus
        c15_eventbus.run_eventbus_part(chk, args)
    # client-side NAT discovery (spec/NatDiscovery), see notes/NatDiscovery.md
    if only is None or "natdisc" in only:
        from checks import c15_natdisc
        c15_natdisc.run_natdisc_part(chk, args)
    # the client binary around the library: SOCKS accept loop, per-connection configuration from SOCKS
    # arguments over flags, copy loop, shutdown (spec/ClientMain), see notes/ClientMain.md
    if only is None or "clientmain" in only:
        from checks import c15_clientmain
        c15_clientmain.run_clientmain_part(chk, args)


MANIFEST["note"] += ' Extension parts run with the check: EventBus (--only eventbus), NatDiscovery (--only natdisc) and ClientMain (spec/ClientMain: SOCKS accept loop, per-connection configuration from SOCKS arguments over flags, copy loop and shutdown of the client binary, --only clientmain).'
