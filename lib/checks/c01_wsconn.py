"""C01 (part) - the carrier adapter common/websocketconn: a net.Conn over a
gorilla WebSocket (two io.Pipes, readLoop, writeLoop, Close from either side).

spec/WsConn/WsConn.tla models the two pipes, the two loop goroutines at the
grain of their blocking operations, application Read/Write/Close by two
goroutines each, and the peer/TCP (messages, ping, close frame with a normal or
abnormal code, cut) as environment.  TLC checks the byte-stream properties
(prefix at all times, io.EOF only after all data of a normally closed peer,
errors only with a cause, whole-message Writes, calls after Close fail, Close
idempotent, no goroutine left at rest after Close) and, under per-step weak
fairness, that Close returns, both loops terminate, pending calls return and a
normal peer close reaches io.EOF.  A variant without io.Pipe's write mutex must
violate NoTear and a variant whose Close leaves the write pipe open must
violate NoLeak (vacuity guards).

TLC-generated behaviours (seeded -simulate of four generation configurations,
plus every maximal path of the smallest one from its dot dump) are projected on
their application/peer/network steps, concretised (0 B, 1 B, 2048 B, > 64 KiB;
read buffers 1, 7, 4096, 100000) and executed by harness/cmd/wsconndrv on the
real package over real gorilla websockets on loopback, step by step at
quiescent points ("rest") or back to back ("race"), plus herds of concurrent
connections.  Every recorded trace (calls, returns with byte positions found by
comparing with a keyed filler, what the peer received, quiescent points, the
goroutine profile after Close) is validated by TLC against WsConn_Trace.

run_wsconn_part(chk, args) adds to chk.cov and reports through chk.violation /
chk.fail; it never sets the final verdict.  `bin/check c01_wsconn` runs it
alone (debugging; evidence goes to evidence/C01_WSCONN.json)."""
import concurrent.futures as cf
import json
import os
import random
import re
import threading
import time

import vlib

LEVEL = "model_checking"
SPECDIR = os.path.join(vlib.SPEC, "WsConn")
LOCK = threading.RLock()

SCRIPT_ACTS = {"WCall", "RCall", "CCall", "PeerSend", "PeerClose", "PeerCut"}
FAULT_ACTS = {"CCall", "PeerClose", "PeerCut"}

# concretisation of the abstract sizes of the generation configurations (Chunk = 2 there)
W_SIZES = {0: [0], 1: [1, 7, 100, 2047], 2: [2048], 3: [2049, 3000, 4096], 5: [4097, 10000, 70000]}
M_SIZES = {0: [0], 1: [1, 7, 125, 126], 3: [4096, 4097, 32768, 32769, 65536, 70000, 100000]}
R_BUFS = {1: [1, 7], 2: [4096, 100000]}


# ---------------------------------------------------------------------------
# TLC helpers

def cfg_text(name, **subst):
    with open(os.path.join(SPECDIR, name)) as fh:
        t = fh.read()
    for k, v in subst.items():
        t, n = re.subn(r"(?m)^(\s*%s\s*=\s*).*$" % re.escape(k), lambda m: m.group(1) + str(v), t)
        if n != 1:
            raise vlib.Inconclusive("cfg %s has no constant %s" % (name, k))
    return t


_seq = [0]


QUICK_JVM = [True]


def tlc_raw(module, cfgname, cfgtext, workers=4, timeout=600, files=None, extra=None, generation=False):
    """TLC on a scratch copy of spec/WsConn; understands this TLC's wording of a
    liveness violation.  Returns a vlib.TLCResult."""
    with LOCK:
        _seq[0] += 1
        d = vlib.scratch("wsconn-tlc-%d" % _seq[0])
    for f in os.listdir(SPECDIR):
        if f.endswith(".tla"):
            with open(os.path.join(SPECDIR, f)) as src, open(os.path.join(d, f), "w") as dst:
                dst.write(src.read())
    with open(os.path.join(d, cfgname), "w") as fh:
        fh.write(cfgtext)
    for name, data in (files or {}).items():
        with open(os.path.join(d, name), "wb") as fh:
            fh.write(data)
    cmd = ["tlc", "-metadir", os.path.join(d, "meta"), "-workers", str(workers), "-config", cfgname] + list(extra or []) + [module + ".tla"]
    env = dict(os.environ)
    # many small JVMs run side by side: one GC thread each, no JIT compiler threads fighting for the cores
    # (quick tier: runs of a few seconds, the optimising JIT compiler costs more than it gains)
    env["JAVA_TOOL_OPTIONS"] = (env.get("JAVA_TOOL_OPTIONS", "") + " -Xss64m -XX:ParallelGCThreads=2" + (" -XX:TieredStopAtLevel=1" if QUICK_JVM[0] else "")).strip()
    r = vlib.run(cmd, cwd=d, env=env, timeout=timeout)
    res = vlib.TLCResult()
    res.out, res.wall, res.cmd, res.dir = r.out, r.wall, " ".join(cmd[:1] + cmd[3:]), d
    m = None
    for m in re.finditer(r"(\d+) states generated, (\d+) distinct states found", r.out):
        pass
    if m:
        res.generated, res.distinct = int(m.group(1)), int(m.group(2))
    o = r.out
    if r.timed_out:
        raise vlib.Inconclusive("TLC timeout after %ss: %s" % (timeout, res.cmd))
    if re.search(r"Temporal propert(?:y (\S+) was|ies were) violated", o):
        res.error = "temporal"
    elif re.search(r"Invariant (\S+) is violated", o):
        res.error = "invariant:" + re.search(r"Invariant (\S+) is violated", o).group(1)
    elif re.search(r"Action property \S+ .*is violated", o):
        res.error = "actionprop:" + re.search(r"Action property (\S+)", o).group(1)
    elif "UNEXPLAINED" in o:
        res.error = "postcondition"
    elif "Model checking completed. No error has been found." in o:
        res.error = None
    elif generation and "Finished in" in o and "Error:" not in o:
        res.error = None
    else:
        raise vlib.Inconclusive("TLC failed (rc=%s): %s\n%s" % (r.rc, res.cmd, o[-3000:]))
    return res


def simulate(cfg, num, depth, seed, timeout=600):
    """tlc -simulate -> (TLCResult, behaviours as parsed action lists); own scratch directory per call"""
    with LOCK:
        _seq[0] += 1
        d = vlib.scratch("wsconn-sim-%d" % _seq[0])
    r = tlc_raw("WsConn", cfg, cfg_text(cfg), workers=1, timeout=timeout, generation=True,
                extra=["-simulate", "file=%s,num=%d" % (os.path.join(d, "b"), num), "-depth", str(depth), "-seed", str(seed)])
    if r.error:
        raise vlib.Inconclusive("tlc -simulate %s: %s" % (cfg, r.error))
    behs = [vlib.parse_sim_file(os.path.join(d, f)) for f in sorted(os.listdir(d)) if f.startswith("b_")]
    return r, behs


# ---------------------------------------------------------------------------
# 1. model checking

def model_check(chk, q):
    if q:
        jobs = [("MC_out_q.cfg", 2), ("MC_in_q.cfg", 2), ("MC_both_q.cfg", 2), ("MC_live_out_q.cfg", 1), ("MC_live_in_q.cfg", 1), ("MC_nolock.cfg", 1), ("MC_leaky.cfg", 1)]
    else:
        jobs = [("MC_out.cfg", 3), ("MC_in.cfg", 4), ("MC_both.cfg", 3), ("MC_out1.cfg", 4), ("MC_live.cfg", 3),
                ("MC_live_out_q.cfg", 1), ("MC_live_in_q.cfg", 1), ("MC_nolock.cfg", 1), ("MC_leaky.cfg", 1)]
    jobs = [(n, "WsConn", w) for n, w in jobs]
    out = {}
    with cf.ThreadPoolExecutor(max_workers=len(jobs)) as ex:
        futs = {}
        for name, mod, w in jobs:
            futs[name] = ex.submit(tlc_raw, mod, name, cfg_text(name), workers=w, timeout=900)
            time.sleep(0.1)
        for name, f in futs.items():
            out[name] = f.result()
    cex = []
    for name, r in out.items():
        chk.add_tlc(r)
        chk.note("TLC WsConn %s: %d distinct states, error=%s (%.0fs)" % (name, r.distinct, r.error, r.wall))
        if name == "MC_nolock.cfg":
            if r.error != "invariant:NoTear":
                chk.fail("vacuity: WsConn without the pipe's write mutex does not violate NoTear (got %s)" % r.error)
        elif name == "MC_leaky.cfg":
            if r.error != "temporal":
                chk.fail("vacuity: WsConn with a Close that leaves the write pipe open does not violate NoLeak (got %s)" % r.error)
        elif r.error:
            cex.append((name, r.error))
    return cex


# ---------------------------------------------------------------------------
# 2. behaviours -> scripts

def project(beh):
    """parsed action list -> the script steps (application, peer, network)"""
    return [tuple(a) for a in beh if a[0] in SCRIPT_ACTS]


def concretise(steps, rng, sid, mode, drain):
    """abstract script steps -> driver script"""
    out = []
    sent = 0
    i = 0
    while i < len(steps):
        a = steps[i]
        if a[0] == "WCall":
            out.append({"a": "W", "g": a[1], "n": rng.choice(W_SIZES[a[2]])})
        elif a[0] == "RCall":
            buf = rng.choice(R_BUFS[a[2]])
            rep = rng.choice([1, 2, 5]) if buf < 4096 else rng.choice([1, 3, 40])
            out.append({"a": "R", "g": a[1], "n": buf, "rep": rep})
        elif a[0] == "CCall":
            out.append({"a": "C", "g": a[1]})
        elif a[0] == "PeerSend":
            n = 0 if a[1] == "ping" else rng.choice(M_SIZES[a[2]])
            if (a[1] == "bin" and 0 < n <= 70000 and i + 1 < len(steps) and steps[i + 1][0] == "PeerCut" and rng.random() < 0.4):
                out.append({"a": "PT", "n": n})      # the message is cut short by the connection loss
                i += 1
            else:
                out.append({"a": "PS", "k": a[1], "n": n})
            sent += n
        elif a[0] == "PeerClose":
            out.append({"a": "PC", "code": a[1]})
        elif a[0] == "PeerCut":
            out.append({"a": "PX"})
        i += 1
    if drain and sent > 0:
        out.append({"a": "R", "g": rng.choice([1, 2]), "n": 100000, "rep": 80})   # read until an error
    return {"id": sid, "role": rng.choice(["server", "client"]), "mode": mode, "steps": out}


def dot_scripts(dot, limit, rng):
    """Distinct projections of maximal paths of the dumped state graph onto the script actions."""
    nodes, edges, inits = vlib.parse_dot(dot)
    succ = {}
    for s, d, lab in edges:
        if s != d:
            succ.setdefault(s, []).append((d, lab))
    memo = {}
    total = [0]

    def proj(lab):
        a = vlib.parse_action(lab)
        return tuple(a) if a[0] in SCRIPT_ACTS else None

    # the graph is acyclic (every cycle would need an unbounded counter); iterative post-order
    for root in inits:
        stack = [(root, iter(succ.get(root, [])))]
        on = {root}
        while stack:
            n, it = stack[-1]
            adv = False
            for d, _ in it:
                if d in memo:
                    continue
                if d in on:
                    raise vlib.Inconclusive("behaviour graph of Gen_small has a cycle")
                stack.append((d, iter(succ.get(d, []))))
                on.add(d)
                adv = True
                break
            if adv:
                continue
            stack.pop()
            on.discard(n)
            res = set()
            ss = succ.get(n, [])
            if not ss:
                res.add(())
            for d, lab in ss:
                p = proj(lab)
                if p is None:
                    res |= memo[d]
                else:
                    res |= {(p,) + x for x in memo[d]}
                if len(res) > 400000:
                    raise vlib.Inconclusive("too many projected paths in Gen_small")
            memo[n] = frozenset(res)
    allp = set()
    for i in inits:
        allp |= memo[i]
    allp = sorted(allp)
    total[0] = len(allp)
    if limit and len(allp) > limit:
        allp = rng.sample(allp, limit)
    return allp, total[0]


def generate(chk, q):
    """-> list of (abstract steps, mode, origin)"""
    num = 30 if q else 300
    plan = [("Gen_race.cfg", "race", num, 60), ("Gen_rest.cfg", "rest", num, 70),
            ("Gen_race_nc.cfg", "race", num, 60), ("Gen_rest_nc.cfg", "rest", num, 70)]
    res = []
    with cf.ThreadPoolExecutor(max_workers=6) as ex:
        futs = [ex.submit(simulate, cfg, n, depth, chk.seed * 1000 + i) for i, (cfg, mode, n, depth) in enumerate(plan)]
        fdot = ex.submit(tlc_raw, "WsConn", "Gen_small.cfg", cfg_text("Gen_small.cfg"), workers=1, timeout=600, generation=True,
                         extra=["-dump", "dot,actionlabels", "small.dot"])
        for (cfg, mode, n, depth), f in zip(plan, futs):
            r, behs = f.result()
            chk.add_tlc(r)
            if len(behs) < n // 2:
                raise vlib.Inconclusive("tlc -simulate %s produced %d behaviours" % (cfg, len(behs)))
            for b in behs:
                res.append((project(b), mode, cfg[:-4]))
        rs = fdot.result()
        chk.add_tlc(rs)
    dot = os.path.join(rs.dir, "small.dot")
    if not os.path.exists(dot):
        dot += ".dot"
    rng = random.Random(chk.seed * 31 + 7)
    paths, total = dot_scripts(dot, 60 if q else 1500, rng)
    chk.note("Gen_small: %d states -> %d distinct maximal script projections (%s)" % (rs.distinct, total, "all replayed" if len(paths) == total else "%d sampled" % len(paths)))
    for k, p in enumerate(paths):
        res.append((list(p), "rest" if k % 3 else "race", "Gen_small"))
    return res, total, len(paths) == total


# ---------------------------------------------------------------------------
# 3. real code -> traces

def run_driver(drv, args, timeout=900):
    r = vlib.run([drv] + [str(a) for a in args], timeout=timeout)
    if r.rc != 0 or r.timed_out:
        raise vlib.Inconclusive("wsconndrv %s failed (rc=%s timeout=%s):\n%s" % (args[0], r.rc, r.timed_out, r.out[-3000:]))
    m = re.search(r'\{"summary":.*\}', r.out)
    if not m:
        raise vlib.Inconclusive("wsconndrv wrote no summary:\n" + r.out[-2000:])
    return json.loads(m.group(0))["summary"]


def split_traces(path):
    """driver output -> list of (id, events); copies the result of every Read to its call (prophecy fields)"""
    traces, cur = [], None
    for e in vlib.read_ndjson(path):
        if e.get("ev") == "reset":
            cur = (e.get("id"), [])
            traces.append(cur)
            pend = {}
            continue
        if cur is None:
            continue
        if e["ev"] == "rcall":
            e.update(pn=0, poff=0, perr="none")
            pend[e["r"]] = e
        elif e["ev"] == "rret" and e["r"] in pend:
            pend.pop(e["r"]).update(pn=e["n"], poff=e["off"], perr=e["err"])
        elif e["ev"] == "ccall":
            e.update(perr="none")
            pend[("c", e["c"])] = e
        elif e["ev"] == "cret" and ("c", e["c"]) in pend:
            pend.pop(("c", e["c"])).update(perr=e["err"])
        elif e["ev"] == "wcall":
            e.update(pn=0, perr="none")
            pend[("w", e["w"])] = e
        elif e["ev"] == "wret" and ("w", e["w"]) in pend:
            pend.pop(("w", e["w"])).update(pn=e["n"], perr=e["err"])
        cur[1].append(e)
    return traces


def signature(ev):
    k = ev.get("ev")
    if k == "precv":
        if ev.get("off", 0) < 0 or ev.get("w", 0) == 0 and ev.get("len", 0) > 0:
            return "peer-recv:bytes-of-no-write"
        if ev.get("t") != "bin":
            return "peer-recv:message-type"
        return "peer-recv:unexpected-message"
    if k == "rret":
        if ev.get("err") == "nil":
            return "read:wrong-bytes" if ev.get("off", 0) >= 0 and ev.get("n", 0) > 0 else "read:bytes-of-no-message"
        return "read:unexpected-" + str(ev.get("err"))
    if k == "wret":
        return "write:unexpected-" + ("success" if ev.get("err") == "nil" else "error-or-count")
    if k == "cret":
        return "close:first-close-error"
    if k == "leak":
        return "leak:goroutine-after-close"
    if k == "panic":
        return "panic:" + str(ev.get("who"))
    if k == "hang":
        return "hang:call-after-close"
    if k == "pend":
        return "peer-end:" + str(ev.get("class"))
    if k == "rest":
        return "rest:goroutine-step-pending"
    if k == "gone":
        return "gone:model-not-terminated"
    return "diverge:" + str(k)


STRIP = ("detail", "where")


def tlc_trace(chk, todo, chunk, reduce, timeout):
    """One TLC run over a batch of traces.  -> (None, None, None) when all are explained, else
    (index of the first unexplained trace, position of the event in it, violated invariant or None)"""
    evs, starts = [], []
    for tid, tr in todo:
        starts.append(len(evs) + 1)
        evs.append({"ev": "reset", "id": tid, "pr": [[e.get("w", 0), e.get("off", 0), e.get("len", 0)] for e in tr if e.get("ev") == "precv"]})
        evs.extend({k: v for k, v in e.items() if k not in STRIP} for e in tr)
    text = "".join(json.dumps(e, separators=(",", ":")) + "\n" for e in evs)
    r = tlc_raw("WsConn_Trace", "Trace.cfg", cfg_text("Trace.cfg", Chunk=chunk, Reduce="TRUE" if reduce else "FALSE"), workers=1, timeout=timeout,
                files={"trace.ndjson": text.encode()})
    with LOCK:
        chk.add_tlc(r)
    if os.environ.get("VERIF_WSCONN_DEBUG"):
        print("TLC-TRACE reduce=%s traces=%d events=%d states=%d wall=%.1fs ids=%s..%s" % (reduce, len(todo), len(evs), r.distinct, r.wall, todo[0][0], todo[-1][0]), flush=True)
    if r.error is None:
        return None, None, None
    pos, inv = None, None
    if r.error.startswith("invariant:"):
        inv = r.error.split(":", 1)[1]
        ls = re.findall(r"(?m)^/\\ l = (\d+)", r.out)
        pos = int(ls[-1]) - 1 if ls else None
    elif r.error == "postcondition":
        m = re.search(r'<<"UNEXPLAINED", (\d+)>>', r.out)
        pos = int(m.group(1)) if m else None
    if not pos or pos > len(evs):
        raise vlib.Inconclusive("trace validation failed without a position: %s\n%s" % (r.error, r.out[-2000:]))
    k = max(i for i, s in enumerate(starts) if s <= pos)
    return k, pos - starts[k], inv


FASTPATH_MISSES = [0]


SKIPPED = []          # traces whose validation did not finish within the time limit (no verdict on them)
FAST_LIMIT = int(os.environ.get("VERIF_WSCONN_TLC_TIMEOUT", "240"))


def validate(chk, traces, label, scripts, chunk, timeout=None):
    """Batch-validate traces against WsConn_Trace.  The batch runs on the fast
    path (Reduce = TRUE: fewer interleavings of silent steps are tried); a trace
    the fast path does not explain is validated alone with Reduce = FALSE, and
    only that verdict counts.  A batch that does not finish in time is halved; a
    single trace that does not finish is recorded in SKIPPED (no verdict on it).
    -> (accepted, [rejected (sid, events, position, event, invariant)])"""
    accepted, rejected = 0, []
    work = [list(traces)]
    unexplained = 0
    while work:
        todo = work.pop(0)
        if not todo:
            continue
        if unexplained >= 6:
            chk.note("trace validation %s: stopped after 6 unexplained traces (%d traces not validated)" % (label, len(todo) + sum(len(w) for w in work)))
            break
        try:
            k, at, inv = tlc_trace(chk, todo, chunk, True, timeout or FAST_LIMIT)
        except vlib.Inconclusive as e:
            if "TLC timeout" not in str(e):
                raise
            if len(todo) == 1:
                with LOCK:
                    SKIPPED.append((label, todo[0][0], len(todo[0][1])))
            else:
                work[:0] = [todo[:len(todo) // 2], todo[len(todo) // 2:]]
            continue
        if k is None:
            accepted += len(todo)
            continue
        tid, tr = todo[k]
        try:
            k2, at2, inv2 = tlc_trace(chk, [todo[k]], chunk, False, 1500)
        except vlib.Inconclusive as e:
            if "TLC timeout" not in str(e):
                raise
            k2 = "skip"
            with LOCK:
                SKIPPED.append((label, tid, len(tr)))
        if k2 is None:
            with LOCK:
                FASTPATH_MISSES[0] += 1
            if os.environ.get("VERIF_WSCONN_DEBUG"):
                print("FASTPATH-MISS trace %s at %s: %s | %s" % (tid, at, json.dumps(tr[at - 1]), json.dumps(scripts.get(tid, {}).get("steps"))), flush=True)
            accepted += k + 1
        elif k2 == "skip":
            accepted += k
        else:
            unexplained += 1
            rejected.append((tid, tr, at2, tr[at2 - 1] if 0 < at2 <= len(tr) else {"ev": "?"}, inv2))
            accepted += k
        work.insert(0, todo[k + 1:])
    return accepted, rejected


def after_close(tr, at, ev):
    """was the call whose return is event `at` started after some Close had returned?"""
    who = ("r", ev.get("r")) if ev.get("ev") == "rret" else ("w", ev.get("w"))
    call = {"rret": "rcall", "wret": "wcall"}.get(ev.get("ev"))
    closed = False
    started_after = False
    for e in tr[:at - 1]:
        if e.get("ev") == "cret":
            closed = True
        elif e.get("ev") == call and e.get(who[0]) == who[1]:
            started_after = closed
    return started_after


def report(chk, rej, label, scripts):
    tid, tr, at, ev, inv = rej
    full = ev
    sg = signature(ev)
    if not inv and ev.get("ev") in ("rret", "wret") and ev.get("err") == "nil" and after_close(tr, at, ev):
        sg = "read:data-after-close" if ev["ev"] == "rret" else "write:success-after-close"
    if not inv and ev.get("ev") in ("wret", "precv", "pend", "rest"):
        # the expected-message prophecy stops an explanation before the message that cannot be explained is
        # reached: name the finding after the message whose bytes belong to no Write, if there is one
        bad = [e for e in tr if e.get("ev") == "precv" and e.get("len", 0) > 0 and (e.get("off", 0) < 0 or e.get("w", 0) == 0)]
        if bad:
            sg, full = "peer-recv:bytes-of-no-write", bad[0]
    sig = "C01/wsconn/" + (("invariant:" + inv) if inv else sg)
    if inv:
        what = "invariant %s of spec/WsConn fails on an execution recorded from the real websocketconn.Conn (trace %s/%s, event %d: %s)" % (inv, label, tid, at, json.dumps(full))
    else:
        what = ("spec/WsConn has no behaviour that explains this observation of the real websocketconn.Conn: %s (trace %s/%s, event %d)" % (json.dumps(full), label, tid, at))
    chk.violation(sig, what, {"mode": "wsconn", "label": label, "script": scripts.get(tid), "trace": tr, "unexplained_at": at})


def replay_scripts(chk, drv, scripts, label, chunk, shards, mode="replay"):
    d = vlib.scratch("wsconn-" + label)
    shards = max(1, min(shards, len(scripts)))
    parts = [scripts[i::shards] for i in range(shards)]

    def one(i):
        inp, outp = os.path.join(d, "s%d.ndjson" % i), os.path.join(d, "t%d.ndjson" % i)
        vlib.write_ndjson(inp, parts[i])
        s = run_driver(drv, [mode, inp, outp, chk.seed])
        return s, split_traces(outp)

    with cf.ThreadPoolExecutor(max_workers=shards) as ex:
        results = list(ex.map(one, range(shards)))
    tot = {"scripts": 0, "events": 0, "hung": 0, "leaks": 0}
    traces = []
    for s, tr in results:
        for k in tot:
            tot[k] += s.get(k, 0)
        traces += tr
    traces.sort(key=lambda t: t[0])
    return tot, traces


def validate_all(chk, traces, label, scripts, chunk, nb, per=12):
    nb = max(1, min(nb, len(traces) // per or 1))
    batches = [traces[i::nb] for i in range(nb)]
    with cf.ThreadPoolExecutor(max_workers=nb) as ex:
        futs = []
        for i, b in enumerate(batches):
            futs.append(ex.submit(validate, chk, b, "%s.%d" % (label, i), scripts, chunk))
            time.sleep(0.1)
        acc, rej = 0, []
        for f in futs:
            a, r = f.result()
            acc += a
            rej += r
    return acc, rej


TIMING_SIGS = ("leak:", "hang:", "peer-end:never", "rest:")


def judge(chk, drv, rejected, label, smap, chunk):
    """Data observations are reported at once; observations established by a
    time bound (leak, hang, a quiescent point) are confirmed by running the
    same script alone (up to three more times; at most four such confirmations per run)."""
    confirmations = 0
    for rej in rejected:
        tid, tr, at, ev, inv = rej
        sig = signature(ev)
        if not inv and sig.startswith(TIMING_SIGS) and smap.get(tid) is not None:
            if any(s.endswith(sig) for s, _, _ in chk.violations):
                continue                      # this signature is already reported
            if confirmations >= 4:
                continue
            confirmations += 1
            again = None
            for k in range(3):
                _, traces = replay_scripts(chk, drv, [smap[tid]], "confirm-%s-%d" % (tid, k), chunk, 1)
                a2, r2 = validate(chk, traces, "confirm", smap, chunk)
                if r2 and signature(r2[0][3]).split(":")[0] == sig.split(":")[0]:
                    again = r2[0]
                    break
            if again is None:
                chk.fail("an observation bounded by time (%s, script %s/%s) was not reproduced when the script ran alone three times: no verdict on it" % (sig, label, tid))
                continue
            rej = again
        report(chk, rej, label, smap)


# ---------------------------------------------------------------------------

def herd_scripts(rng, n, first_id):
    """concurrent connections streaming in both directions with two writers and two readers each"""
    out = []
    for i in range(n):
        steps = []
        for k in range(rng.choice([3, 5])):
            steps.append({"a": "W", "g": 1, "n": rng.choice([70000 if k == 0 else 4097, 10000, 2049, 1])})
            steps.append({"a": "W", "g": 2, "n": rng.choice([10000, 4096, 0, 7])})
            steps.append({"a": "PS", "k": rng.choice(["bin", "text"]), "n": rng.choice([100000, 32769, 126, 0])})
            steps.append({"a": "R", "g": 1 + k % 2, "n": rng.choice([4096, 100000, 7]), "rep": rng.choice([2, 10])})
        end = rng.choice(["PC", "C", "PX", "none"])
        if end == "PC":
            steps.append({"a": "PC", "code": rng.choice([1000, 1005])})
            steps.append({"a": "R", "g": 1, "n": 100000, "rep": 200})
        elif end == "C":
            steps.append({"a": "C", "g": 1})
        elif end == "PX":
            steps.append({"a": "PX"})
            steps.append({"a": "R", "g": 2, "n": 100000, "rep": 200})
        out.append({"id": first_id + i, "role": rng.choice(["server", "client"]), "mode": "race", "steps": steps})
    return out


def run_wsconn_part(chk, args):
    q = chk.tier == "quick"
    only = set((getattr(args, "only", None) or "").split(",")) & {"mc", "gen", "herd"} or {"mc", "gen", "herd"}
    QUICK_JVM[0] = q
    t0 = time.time()
    ex = cf.ThreadPoolExecutor(max_workers=3)
    fbuild = ex.submit(vlib.go_build, "./cmd/wsconndrv", "wsconndrv", linkflag=False)
    fgen = ex.submit(generate, chk, q) if "gen" in only else ex.submit(lambda: ([], 0, True))
    fmc = None
    if not q:       # thorough: the model checking is the longest job, start it at once
        fmc = ex.submit(model_check, chk, q) if "mc" in only else ex.submit(lambda: [])
    drv = fbuild.result()
    pr = vlib.run([drv, "probe"], timeout=60)
    m = re.search(r'\{"chunk":(\d+)\}', pr.out)
    if pr.rc != 0 or not m or int(m.group(1)) <= 0:
        raise vlib.Inconclusive("wsconndrv probe failed:\n" + pr.out[-1500:])
    chunk = int(m.group(1))
    abstract, total_small, small_all = fgen.result()
    if fmc is None:   # quick: the model checking runs while the scripts are executed and their traces validated
        fmc = ex.submit(model_check, chk, q) if "mc" in only else ex.submit(lambda: [])

    rng = random.Random(chk.seed * 7919 + 3)
    scripts, seen, nontriv = [], set(), set()
    for steps, mode, origin in abstract:
        key = (tuple(steps), mode)
        if not steps or key in seen:
            continue
        seen.add(key)
        sc = concretise(steps, rng, len(scripts), mode, drain=rng.random() < 0.5)
        sc["origin"] = origin
        sc["abstract"] = [list(s) for s in steps]
        scripts.append(sc)
        if any(s[0] in FAULT_ACTS for s in steps):
            nontriv.add(tuple(steps))
    smap = {s["id"]: s for s in scripts}
    tot, traces = replay_scripts(chk, drv, scripts, "gen", chunk, shards=12)
    chk.note("wsconn: scripts executed (%.0fs)" % (time.time() - t0))
    acc, rej = validate_all(chk, traces, "gen", smap, chunk, nb=10 if q else 12)
    chk.note("wsconn: %d scripts (%d with a Close, a peer close or a cut) executed on the real package: %d events, writeLoop piece size measured %d; TLC accepted %d/%d traces, %d of them only on the full path (%.0fs)" % (
        len(scripts), len(nontriv), tot["events"], chunk, acc, len(traces), FASTPATH_MISSES[0], time.time() - t0))
    judge(chk, drv, rej, "gen", smap, chunk)
    if traces:
        t = traces[len(traces) // 3]
        chk.sample({"wsconn_script": {k: smap[t[0]][k] for k in ("role", "mode", "steps")}, "events": [{k: v for k, v in e.items() if k not in STRIP} for e in t[1][:16]]})

    # herds: many connections at once in one process (cross-connection interference)
    rounds = (1 if q else 4) if "herd" in only else 0
    hmap, htr = {}, []
    for k in range(rounds):
        hs = herd_scripts(rng, 10 if q else 16, 100000 + 1000 * k)
        hmap.update({s["id"]: s for s in hs})
        htr += replay_scripts(chk, drv, hs, "herd%d" % k, chunk, shards=1, mode="herd")[1]
    hacc, r = validate_all(chk, htr, "herd", hmap, chunk, nb=10 if q else 14, per=2) if htr else (0, [])
    hn = len(htr)
    for x in r:
        report(chk, x, "herd", hmap)
    chk.note("wsconn herds: %d rounds of concurrent connections, TLC accepted %d/%d traces (%.0fs)" % (rounds, hacc, hn, time.time() - t0))

    if SKIPPED:
        chk.note("wsconn: %d traces were not validated within the time limit (too many interleavings of unobserved steps): %s" % (len(SKIPPED), SKIPPED[:8]))
        if len(SKIPPED) > max(2, (len(traces) + hn) // 100):
            chk.fail("wsconn: %d of %d traces could not be validated within the time limit" % (len(SKIPPED), len(traces) + hn))
    cex = fmc.result()
    ex.shutdown(wait=False)
    if cex:
        chk.fail("TLC found a counterexample in the WsConn model (%s): the model is wrong or the design is; no trace of the real code shows it" % cex)

    chk.cov["evaluations"] += len(traces) + hn
    chk.cov["distinct_nontrivial"] += len(nontriv)
    chk.cov["traces_validated_against_impl"] += acc + hacc
    chk.cov["wsconn"] = {"scripts": len(scripts), "scripts_with_close_or_cut": len(nontriv), "events": tot["events"], "herd_traces": hn,
                         "small_config_projections": total_small, "small_config_all_replayed": small_all, "piece_size_measured": chunk, "fast_path_misses": FASTPATH_MISSES[0], "traces_not_validated_in_time": len(SKIPPED),
                         "rule": "a script is the sequence of application/peer/network steps of a TLC behaviour of WsConn; non-trivial = contains a Close, a peer close frame or a cut; distinct by abstract step sequence"}
    chk.assumptions += [
        "wsconn: the peer keeps reading and the kernel buffers what is in flight (a socket write of writeLoop always completes); loopback TCP",
        "wsconn: a quiescent point = every goroutine of the driver process except the observer parked in two consecutive stack dumps; steps waiting for the network poller are exempt from the at-rest observation",
        "wsconn: the size of writeLoop's pieces is measured on the real package (probe) and given to the trace specification as Chunk",
        "wsconn: bytes are compared with a keyed filler whose value determines the position (distinct values within every 256 positions); an empty message carries no writer identity",
    ]


def replay(chk, rp):
    drv = vlib.go_build("./cmd/wsconndrv", "wsconndrv", linkflag=False)
    pr = vlib.run([drv, "probe"], timeout=60)
    chunk = int(re.search(r'\{"chunk":(\d+)\}', pr.out).group(1))
    sc = rp.get("script")
    if not sc:
        raise vlib.Inconclusive("replay file has no script")
    for k in range(5):
        _, traces = replay_scripts(chk, drv, [sc], "replay%d" % k, chunk, 1)
        acc, rej = validate(chk, traces, "replay", {sc["id"]: sc}, chunk)
        chk.cov["evaluations"] += 1
        chk.cov["traces_validated_against_impl"] += acc
        for x in rej:
            report(chk, x, "replay", {sc["id"]: sc})
        if rej:
            break


def run(chk, args):
    if getattr(args, "replay", None):
        with open(args.replay) as fh:
            return replay(chk, json.load(fh)["replay"])
    try:
        run_wsconn_part(chk, args)
    except vlib.Inconclusive as e:
        chk.fail(str(e))
    chk.cov["rule"] = chk.cov["wsconn"]["rule"] if "wsconn" in chk.cov else ""
    chk.cov["exhaustive"] = False


MANIFEST = {
    "technique": "TLA+ spec WsConn (+WsConn_Trace): TLC model-checks the byte-stream, whole-message, EOF/error, Close and no-leak properties (safety and, under per-step weak fairness, liveness); TLC-generated behaviours are executed on the real websocketconn.Conn over real gorilla websockets on loopback and every recorded trace is validated by TLC",
    "text": "Part of C01 (carrier adapter).  Two pipes, readLoop, writeLoop, two writers, two readers, Close from several goroutines, peer messages/ping/close codes/cut; traces carry byte positions found by comparing with a keyed filler, quiescent points and the goroutine profile after Close.",
    "note": "Bounded: model checking with pieces of 2 units, <=2 calls per goroutine, <=2 peer frames; scripts of <=~25 steps; loopback TCP; peer always reads.",
}
