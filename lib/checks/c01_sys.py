"""C01, system rig (thorough tier): Tunnel_Gen behaviours executed against the
real client library (NewSnowflakeClient + Transport.Dial: Peers, WebRTCPeer,
newSession) over real local WebRTC, with a scripted broker speaking the real
`messages` protocol, harness mini-proxies and the real server/lib
(harness/cmd/sysrig, in-process variant).  The recorded events are validated
by TLC against Tunnel_Trace, like those of the core rig."""
import json
import os
import random

import corerig
import vlib

SPECDIR = os.path.join(vlib.SPEC, "Tunnel")
SYS_BOUND_MS = 150000
SYS_SIZES = [0, 1000, 100000, 100000, 500000, 2 << 20]
INF = 1 << 40


def project_tunnel_sys(beh, rng, name=""):
    """One single-session Tunnel behaviour -> the broker's script (one plan per
    offer = per carrier index) for sysrig."""
    up = rng.choice(SYS_SIZES)
    down = rng.choice(SYS_SIZES)
    if rng.random() < 0.08:
        up = 8 << 20
    peers = {}
    car, att = {}, {}
    upin, downin, upc, downc = {}, {}, {}, {}
    cur = 0
    kinds = set()
    faults = 0
    pending_gate = {}
    stalls = []

    def after(c, total):
        if total == 0:
            return INF
        if c <= 0:
            return rng.randint(0, 100)
        if c == 1:
            return min(total // 2 + 1, rng.randint(1000, 20000))
        return min(total // 2 + 1, rng.randint(20000, 400000))

    for act, args in beh:
        act = "Cut" if act == "G_Cut" else act
        if act == "Collect":
            k = args[0]
            car[k] = "pool"
            peers[k] = {"answer": "ok", "ip": rng.choice(["192.0.2.7", "2001:db8::5", None, "0.0.0.0", "203.0.113.77"])}
            if rng.random() < 0.25:
                peers[k]["answer"] = "delay"
                peers[k]["delay_ms"] = rng.choice([200, 1000, 3000])
                kinds.add("answer-delayed")
        elif act == "AnswerLost":
            k = args[0]
            car[k] = "dead"
            peers[k] = {"answer": rng.choice(["error", "http500", "dud", "error"]), "ip": None}
            kinds.add("answer-" + peers[k]["answer"])
            faults += 1
        elif act == "Pop":
            car[args[1]] = "popped"
        elif act == "WriteId":
            k = args[1]
            for j, pj in peers.items():
                f = pj.get("fault")
                if j != k and att.get(j) and f and f["kind"] == "kill" and "keep_ws_ms" not in f:
                    f["keep_ws_ms"] = rng.choice([500, 2000, 8000])
                    kinds.add("halfopen")
            car[k], cur, att[k] = "live", k, True
        elif act in ("WriteIdFails", "WriteIdFailsMarked", "WriteIdFailsUnmarked"):
            k = args[1]
            car[k] = "dead"
            if act == "WriteIdFailsUnmarked" and k in pending_gate:
                # the write fails while the peer is not yet marked closed
                pending_gate[k]["park"] = True
                kinds.add("write-fails-unmarked")
        elif act == "PopSkip":
            car[args[1]] = "dead"
        elif act == "StaleClose":
            if cur:
                car[cur] = "dead"
            cur = 0
        elif act == "CarrierUp":
            if cur and car.get(cur) == "live":
                upin[cur] = True
        elif act == "ServerRecv":
            upin[args[0]] = False
            upc[args[0]] = upc.get(args[0], 0) + 1
        elif act == "DownFrame":
            if car.get(args[0]) == "live":
                downin[args[0]] = True
        elif act == "ClientRecv":
            if cur:
                downin[cur] = False
                downc[cur] = downc.get(cur, 0) + 1
        elif act == "SrvDetach":
            att[args[0]] = False
        elif act == "ReaderStalls":
            stalls.append(args[1])
            kinds.add("reader-stall-" + args[1])
        elif act in ("Cut", "Freeze"):
            k = args[0]
            p = peers.get(k)
            if p is None or car.get(k) not in ("pool", "popped", "live", "frozen"):
                continue
            faults += 1
            if act == "Cut" and car[k] == "popped":
                p["gate"] = True
                kinds.add("cut-between-pop-and-token")
                pending_gate[k] = p
            elif act == "Cut" and car[k] == "pool":
                # a reserve dies while it waits in the client's pool
                p["pool_kill"] = True
                p["pool_kill_ms"] = rng.choice([50, 150, 400])
                kinds.add("reserve-dies-in-pool")
                car[k] = "pool-broken"
            elif act == "Cut":
                if rng.random() < 0.5:
                    # the proxy dies
                    p["fault"] = {"kind": "kill", "after_up": after(upc.get(k, 0), up), "after_down": after(downc.get(k, 0), down)}
                    if up == 0 and down == 0:
                        p["fault"]["after_up"] = 0
                    kinds.add("proxy-kill")
                else:
                    # the TCP connection between proxy and server is cut at a byte position
                    if upin.get(k):
                        f = {"kind": "cut", "dir": "up", "cls": rng.choice(["pfx", "body"]), "nth": min(40, upc.get(k, 0) * rng.randint(1, 8))}
                    elif downin.get(k):
                        f = {"kind": "cut", "dir": "down", "cls": rng.choice(["pfx", "body"]), "nth": min(40, downc.get(k, 0) * rng.randint(1, 8))}
                    else:
                        d = rng.choice(["up", "down"])
                        f = {"kind": rng.choice(["cut", "cutsrv"]), "dir": d, "cls": "bnd", "nth": min(40, (upc if d == "up" else downc).get(k, 0) * rng.randint(1, 8))}
                    if min(up, down) < 100000:
                        f["nth"] = min(f["nth"], 2)
                    p["link"] = f
                    kinds.add("link-" + f["cls"])
                car[k] = "dead"
                if cur == k:
                    cur = 0
            else:
                p["fault"] = {"kind": "freeze", "after_up": after(upc.get(k, 0), up), "after_down": after(downc.get(k, 0), down)}
                if up == 0 and down == 0:
                    p["fault"]["after_up"] = 0
                kinds.add("proxy-freeze")
                car[k] = "frozen"
            upin[k] = downin[k] = False
    read_stalls = []
    for d in stalls:
        # a stalled reader only bites in a bulk transfer: several MiB, so that far more than a few hundred
        # data channel messages are on their way when the reader stops, and again when it resumes
        if d == "down":
            down = max(down, rng.choice([6 << 20, 8 << 20]))
            total = down
        else:
            up = max(up, rng.choice([4 << 20, 6 << 20]))
            total = up
        read_stalls.append({"dir": d, "at": rng.randint(total // 16, total // 2), "ms": rng.choice([1500, 2500])})
        read_stalls.append({"dir": d, "at": rng.randint(total // 2, total - 1), "ms": rng.choice([800, 1500])})
    read_stalls.sort(key=lambda x: x["at"])
    plans = [peers[k] for k in sorted(peers)]
    sc = {"name": name, "seed": rng.getrandbits(40), "up": up, "down": down, "max": rng.choice([1, 1, 2, 3]), "peers": plans,
          "bound_ms": SYS_BOUND_MS, "read_stalls": read_stalls}
    return sc, {"faults": faults, "kinds": kinds}


def run_sysrig(binary, scenarios, par=12, timeout=1500, tag="sys"):
    d = vlib.scratch("rig")
    vlib._tlc_seq[0] += 1
    inp = os.path.join(d, "%s-%d.in.ndjson" % (tag, vlib._tlc_seq[0]))
    outp = os.path.join(d, "%s-%d.out.ndjson" % (tag, vlib._tlc_seq[0]))
    vlib.write_ndjson(inp, scenarios)
    f = corerig.time_scale()
    if f > 1:
        scenarios = [dict(s, bound_ms=int(s.get("bound_ms", SYS_BOUND_MS) * f)) for s in scenarios]
        vlib.write_ndjson(inp, scenarios)
        timeout, par = timeout * f, max(4, int(par / f))
    r = vlib.run([binary, "-par", str(par), inp, outp], timeout=timeout)
    if r.timed_out or r.rc != 0 or not os.path.exists(outp):
        raise vlib.Inconclusive("system rig failed (rc=%s timeout=%s):\n%s" % (r.rc, r.timed_out, r.out[-4000:]))
    results, summary = {}, None
    for res in vlib.read_ndjson(outp):
        if "summary" in res:
            summary = res["summary"]
        elif "panic" in res or "error" in res:
            raise vlib.Inconclusive("system rig: scenario failed inside the driver: %s" % str(res)[:2000])
        else:
            results[res["name"]] = res
    return results, summary, r.out, r.out.count("WARNING: DATA RACE")


def preflight():
    """WebRTC needs a non-loopback interface."""
    import socket
    try:
        s = socket.socket(socket.AF_INET, socket.SOCK_DGRAM)
        s.connect(("192.0.2.1", 9))
        ip = s.getsockname()[0]
        s.close()
        return not ip.startswith("127.")
    except OSError:
        return False


def judge_sys(chk, binary, scs, results, bound_ms=None):
    by_name = {s["name"]: s for s in scs}
    bad = corerig.validate(chk, SPECDIR, "Tunnel_Trace", "Trace.cfg", [results[n] for n in sorted(results)])
    for res, kind, detail, local, ev in bad:
        sig = corerig.signature("C01", res, kind, detail, local, ev).replace("C01/", "C01/sys/", 1)
        chk.violation(sig, "system rig, scenario %s: %s %s at event %s %s" % (res["name"], kind, detail, local, ev),
                      {"system": True, "scenario": by_name.get(res["name"]), "event_index": local, "event": ev,
                       "events": res["events"][:max(60, (local or 0) + 5)]})
    stalled = [n for n in sorted(results) if results[n].get("stalled")]
    if stalled and not bad:
        chk.note("system rig: %d scenario(s) stalled; confirming alone with doubled limits: %s" % (len(stalled), stalled[:3]))
        bound_ms = bound_ms or SYS_BOUND_MS
        confirm = [dict(by_name[n], name=n + "-confirm", bound_ms=2 * bound_ms) for n in stalled[:3]]
        r2, _, _, _ = run_sysrig(binary, confirm, par=3, timeout=2 * bound_ms / 1000 + 600, tag="sysconfirm")
        for sc in confirm:
            res2 = r2[sc["name"]]
            n = sc["name"][:-len("-confirm")]
            if res2.get("stalled"):
                chk.violation("C01/sys/stall/after:%s" % corerig.fault_position(res2, None),
                              "system rig: no progress for %d ms after the last fault although the broker kept handing out healthy proxies: %s" % (2 * bound_ms, res2.get("state")),
                              {"system": True, "scenario": by_name[n], "state": res2.get("state"), "events": res2["events"][:80]})
            else:
                chk.fail("system rig: stall of %s not reproduced alone with doubled limits (no verdict)" % n)
    return bad, stalled


QUICK_BOUND_MS = 70000


def run_system_quick(chk, out):
    """Quick tier: the freeze scenario (needs WebRTCPeer.checkForStaleness:
    20 s of silence, then the spare peer) and the D15 regression, ~25 s."""
    if not preflight():
        chk.cov.setdefault("skipped_clauses", []).append("system rig (quick): no non-loopback interface for WebRTC")
        return
    binary = vlib.go_build("./cmd/sysrig", "sysrig", linkflag=True)
    scs = [
        {"name": "c01-sysq-freeze", "seed": chk.seed, "up": 300000, "down": 300000, "max": 2, "bound_ms": QUICK_BOUND_MS,
         "peers": [{"answer": "ok", "ip": "192.0.2.7", "fault": {"kind": "freeze", "after_up": 40000, "after_down": 40000}},
                   {"answer": "ok", "ip": "2001:db8::5"}],
         "origin": {"module": "Tunnel", "steps": [["WriteId", ["A", 1]], ["Freeze", [1]], ["StaleClose", ["A"]], ["Pop", ["A", 2]], ["WriteId", ["A", 2]]]}},
        {"name": "c01-sysq-gate", "seed": chk.seed, "up": 100000, "down": 100000, "max": 2, "bound_ms": QUICK_BOUND_MS,
         "peers": [{"answer": "ok", "ip": "192.0.2.7", "gate": True}, {"answer": "ok", "ip": "192.0.2.7"}],
         "origin": {"module": "Tunnel", "steps": [["Pop", ["A", 1]], ["Cut", [1]], ["MarkClosed", [1]], ["WriteIdFailsMarked", ["A", 1]], ["Pop", ["A", 2]]]}},
        # the same, but the write fails while the peer is NOT yet marked closed (its close callback is held
        # at the peer.onclose gate until after the write)
        {"name": "c01-sysq-gate-unmarked", "seed": chk.seed, "up": 100000, "down": 100000, "max": 2, "bound_ms": QUICK_BOUND_MS,
         "peers": [{"answer": "ok", "ip": "192.0.2.7", "gate": True, "park": True}, {"answer": "ok", "ip": "192.0.2.7"}],
         "origin": {"module": "Tunnel", "steps": [["Pop", ["A", 1]], ["Cut", [1]], ["WriteIdFailsUnmarked", ["A", 1]], ["MarkClosed", [1]], ["Pop", ["A", 2]]]}},
    ]
    # a stalled reader during a bulk transfer: the application behind the client stops reading for seconds in the
    # middle of an 8 MiB download (twice), the application behind the server in the middle of a 3 MiB upload; both
    # resume.  The stream must continue exact and ordered, and every packet read from the carrier at either end
    # must be one the other end wrote (hooks ex.read / srv.in against srv.out / ex.write).
    scs.append({"name": "c01-sysq-readerstall", "seed": chk.seed, "up": 3 << 20, "down": 8 << 20, "max": 1, "bound_ms": QUICK_BOUND_MS,
                "peers": [{"answer": "ok", "ip": "192.0.2.7"}],
                "read_stalls": [{"dir": "down", "at": 1 << 20, "ms": 2000}, {"dir": "up", "at": 1 << 20, "ms": 1500}, {"dir": "down", "at": 4 << 20, "ms": 1500}],
                "origin": {"module": "Tunnel", "steps": [["ReaderStalls", ["A", "down"]], ["OnMessage", [1]], ["ReaderResumes", ["A", "down"]], ["ClientRecv", ["A"]],
                                                         ["ReaderStalls", ["A", "up"]], ["ReaderResumes", ["A", "up"]]]}})
    results, summary, o, races = run_sysrig(binary, scs, par=4, timeout=400, tag="sysq")
    chk.note("system rig (quick): %d done, %d stalled, %d faults fired, %.0fs" % (summary["done"], summary["stalled"], summary["faults"], summary["wall_ms"] / 1000.0))
    judge_sys(chk, binary, scs, results, bound_ms=QUICK_BOUND_MS)
    fr = results.get("c01-sysq-freeze", {})
    stale = [e for e in fr.get("events", []) if e["ev"] == "car.end"]
    chk.cov["system_quick"] = {"scenarios": len(results), "done": summary["done"], "freeze_recovered_after_ms": fr.get("wall_ms")}
    chk.cov["evaluations"] += len(results)
    chk.cov["distinct_nontrivial"] += sum(1 for r in results.values() if r.get("faults", 0) > 0)
    out["done"] = summary["done"]


def run_system(chk):
    if not preflight():
        chk.cov.setdefault("skipped_clauses", []).append("system rig: no non-loopback interface for WebRTC")
        return
    binary = vlib.go_build("./cmd/sysrig", "sysrig", linkflag=True)
    behs = corerig.simulate(chk, SPECDIR, "Tunnel_Gen", "Gen_sys.cfg", 40, 90, chk.seed * 100 + 77)
    scs, kinds, nf = [], set(), 0
    for bi, beh in enumerate(behs):
        rng = random.Random("sys/%d/%d" % (chk.seed, bi))
        sc, info = project_tunnel_sys(beh, rng, name="c01-sys-%d" % bi)
        sc["origin"] = {"module": "Tunnel_Gen", "config": "Gen_sys.cfg",
                        "steps": [[a, b] for a, b in beh if a in ("Pop", "PopSkip", "MarkClosed", "WriteId", "WriteIdFailsMarked", "WriteIdFailsUnmarked", "Cut", "G_Cut", "Freeze", "AnswerLost", "Collect", "StaleClose", "ReaderStalls", "ReaderResumes")]}
        scs.append(sc)
        kinds |= info["kinds"]
        nf += info["faults"]
    # the D15 schedule is always present (it is the regression of the repair)
    scs.append({"name": "c01-sys-gate", "seed": chk.seed, "up": 100000, "down": 100000, "max": 2, "bound_ms": SYS_BOUND_MS,
                "peers": [{"answer": "ok", "ip": "192.0.2.7", "gate": True}, {"answer": "ok", "ip": "192.0.2.7"}],
                "origin": {"module": "Tunnel", "steps": [["Pop", ["A", 1]], ["Cut", [1]], ["MarkClosed", [1]], ["WriteIdFailsMarked", ["A", 1]]]}})
    scs.append({"name": "c01-sys-gate-unmarked", "seed": chk.seed, "up": 100000, "down": 100000, "max": 1, "bound_ms": SYS_BOUND_MS,
                "peers": [{"answer": "ok", "ip": "192.0.2.7", "gate": True, "park": True}, {"answer": "ok", "ip": "192.0.2.7"}],
                "origin": {"module": "Tunnel", "steps": [["Pop", ["A", 1]], ["Cut", [1]], ["WriteIdFailsUnmarked", ["A", 1]], ["MarkClosed", [1]]]}})
    chk.note("system rig: %d scenarios (%d planned faults; kinds %s)" % (len(scs), nf, sorted(kinds)))
    # the same machinery under the race detector, next to the main run (monitor only: a race is C20's business)
    import threading
    race_out = {}

    def race_run():
        try:
            rb = vlib.go_build("./cmd/sysrig", "sysrig-race", linkflag=True, race=True)
            sub = [dict(s, name=s["name"] + "-race") for s in scs[::4]]
            rr, rs, ro, rn = run_sysrig(rb, sub, par=6, timeout=1500, tag="sysrace")
            import re
            race_out.update(n=rn, done=rs["done"], cases=rs["cases"], fns=sorted(set(re.findall(r"^  ([\w./()*]+)\(\)\n", ro, re.M)))[:12])
        except Exception as e:      # a monitor must not decide the check
            race_out.update(error=str(e)[:300])
    rt = threading.Thread(target=race_run)
    rt.start()
    results, summary, out, races = run_sysrig(binary, scs, par=12, timeout=1500)
    rt.join()
    chk.cov["system_race_build"] = race_out
    chk.note("system rig, race build: %s" % race_out)
    chk.note("system rig: %d done, %d stalled, %d faults fired, %d offers, %.0f MiB, %.0fs" % (
        summary["done"], summary["stalled"], summary["faults"], summary["dials"], summary["bytes"] / 1048576.0, summary["wall_ms"] / 1000.0))
    if summary.get("orphans"):
        chk.note("system rig: orphan events %s" % summary["orphans"][:3])
    judge_sys(chk, binary, scs, results)
    chk.cov["system_scenarios"] = len(results)
    chk.cov["system_faults_fired"] = summary["faults"]
    chk.cov["system_fault_kinds"] = sorted(kinds)
    chk.cov["system_gate_schedule_done"] = bool(results.get("c01-sys-gate", {}).get("done"))
    chk.cov["evaluations"] += len(results)
    chk.cov["distinct_nontrivial"] += sum(1 for r in results.values() if r.get("faults", 0) > 0)
    chk.assumptions += [
        "system rig (in-process): proxies are harness mini-proxies (pion data channel <-> websocketconn, like proxy/lib copyLoop); a kill is a closed peer connection, a freeze is a proxy that stops relaying; real proxy processes under SIGKILL/SIGSTOP are not run",
        "system rig: real client timers (10 s collection period, 20 s staleness, 10 s data channel timeout); bound 150 s after the last fault",
    ]


def replay(chk, rp):
    binary = vlib.go_build("./cmd/sysrig", "sysrig", linkflag=True)
    sc = rp["scenario"]
    results, summary, out, races = run_sysrig(binary, [sc], par=1, timeout=900, tag="replay")
    judge_sys(chk, binary, [sc], results)
    chk.cov["evaluations"] = 1
