"""C02 - decided by spec/Broker (TLC) + gated replay / herds on the real handlers + TLC trace validation.
See lib/brokerlib.py."""
import brokerlib

LEVEL = "model_checking"


def run(chk, args):
    if args.replay:
        return brokerlib.replay(chk, "C02", args.replay)
    brokerlib.pipeline(chk, "C02", chk.tier, chk.seed)
