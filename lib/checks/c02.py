"""C02 - decided by spec/Broker (TLC) + gated replay / herds on the real handlers + TLC trace validation.
See lib/brokerlib.py."""
import brokerlib

LEVEL = "model_checking"


def run(chk, args):
    if args.replay:
        return brokerlib.replay(chk, "C02", args.replay)
    brokerlib.pipeline(chk, "C02", chk.tier, chk.seed)


MANIFEST = {
    "technique": 'TLA+ spec Broker (+Broker_Trace): exhaustive TLC model checking of NoCrossWire/OneOfferPerPoll/OnePollPerOffer/RelayURLRight/UnlistedNeverMatched; TLC -simulate behaviours replayed with gates into the real handlers under a fake clock, same-instant herds, every recorded execution validated by TLC against the trace spec',
    "text": 'All interleavings of polls, offers, answers and timeouts are explored on the model for small request sets; the binding is two-way: TLC behaviours are forced onto the real /proxy, /client (POST, legacy, AMP) and /answer handlers with gates at the racing points, and every recorded execution (gated or herd) must be a behaviour of the spec with the C02 invariants evaluated in each state (which answer reached which client, which offer reached which poll, relay URL of the named bridge).',
    "note": 'Bounded: MC up to 3 proxies/2 clients/2 answers (thorough), herds up to 12 per wave; fake clock of testing/synctest (go1.26.8); handlers driven through ServeHTTP; pairwise distinct session ids.',
}
