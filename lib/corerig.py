"""Shared by the checks that use the core rig (C05, C18 rig part, C01):
parsing TLC behaviours (simulation files, dot dumps), projecting them onto
what the rig can control (carrier order, what each carrier presents, where it
is cut), running harness/cmd/corerig, and validating the recorded traces with
TLC in parallel shards.

The projection only decides WHAT IS DONE to the system; what the system must
do in response is decided by TLC on the recorded trace."""
import concurrent.futures
import glob
import json
import os
import random
import re

import vlib

# --------------------------------------------------------------------------
# TLA+ values in action labels


class _P:
    def __init__(self, s):
        self.s, self.i = s, 0

    def ws(self):
        while self.i < len(self.s) and self.s[self.i] in " \n\t":
            self.i += 1

    def val(self):
        self.ws()
        s = self.s
        c = s[self.i]
        if c == '"':
            j = self.i + 1
            out = []
            while s[j] != '"':
                if s[j] == "\\":
                    j += 1
                out.append(s[j])
                j += 1
            self.i = j + 1
            return "".join(out)
        if c == "[":
            self.i += 1
            rec = {}
            while True:
                self.ws()
                if s[self.i] == "]":
                    self.i += 1
                    return rec
                m = re.compile(r"(\w+)\s*\|->").match(s, self.i)
                self.i = m.end()
                rec[m.group(1)] = self.val()
                self.ws()
                if s[self.i] == ",":
                    self.i += 1
        if c == "{" or s.startswith("<<", self.i):
            close = "}" if c == "{" else ">>"
            self.i += 1 if c == "{" else 2
            items = []
            while True:
                self.ws()
                if s.startswith(close, self.i):
                    self.i += len(close)
                    return items
                items.append(self.val())
                self.ws()
                if s[self.i] == ",":
                    self.i += 1
        m = re.compile(r"-?\d+|TRUE|FALSE|\w+").match(s, self.i)
        self.i = m.end()
        t = m.group(0)
        if t == "TRUE":
            return True
        if t == "FALSE":
            return False
        try:
            return int(t)
        except ValueError:
            return t


def parse_label(label):
    """'S_Cut(2,"id")' -> ('S_Cut', [2, 'id'])"""
    label = label.strip()
    m = re.match(r"(\w+)\((.*)\)$", label, re.S)
    if not m:
        return label, []
    p = _P(m.group(2))
    args = []
    while True:
        p.ws()
        if p.i >= len(p.s):
            break
        args.append(p.val())
        p.ws()
        if p.i < len(p.s) and p.s[p.i] == ",":
            p.i += 1
    return m.group(1), args


_LABEL_RE = re.compile(r"^\\\* <(.*?) line \d+, col \d+ to line \d+, col \d+ of module \w+>$", re.M)


def read_sim_behaviours(tlc_dir, prefix="sim"):
    """Behaviours written by `tlc -simulate file=<prefix>`: list of lists of
    (action, args)."""
    out = []
    for f in sorted(glob.glob(os.path.join(tlc_dir, prefix + "_*"))):
        with open(f) as fh:
            txt = fh.read()
        steps = []
        for m in _LABEL_RE.finditer(txt):
            lab = m.group(1)
            if lab.startswith("Init"):
                continue
            steps.append(parse_label(lab))
        if steps:
            out.append(steps)
    return out


def simulate(chk, specdir, module, cfg, num, depth, seed, workers=4, timeout=300):
    """Run tlc -simulate and return the behaviours."""
    # TLC writes one file per trace and worker: num is per worker
    per = max(1, (num + workers - 1) // workers)
    r = vlib.tlc(specdir, module, cfg, workers=workers, simulate="num=%d,file=sim" % per, depth=depth, seed=seed,
                 timeout=timeout, keep_prints=False, heap="2g")
    chk.add_tlc(r)
    if r.error:
        raise vlib.Inconclusive("simulation of %s/%s found a violation IN THE MODEL (%s); the specification is wrong or "
                                "states a design error:\n%s" % (module, cfg, r.error, r.out[-3000:]))
    behs = read_sim_behaviours(r.dir)
    return behs[:num]


# --------------------------------------------------------------------------
# Projection of ServerMux behaviours onto rig scenarios

UP_CLASS = {"pre": "tok", "id": "id", "bnd": "bnd"}


def _nth(rng, frames, cap):
    if frames <= 0:
        return 0
    if frames == 1:
        return min(cap, rng.randint(1, 3))
    return min(cap, rng.randint(4, 30))


def project_servermux(beh, rng, ids=("A", "B"), sizes=None, name="", kinds=("cut", "cut", "cutcli")):
    """One ServerMux(_Gen) behaviour -> one scenario for corerig."""
    sizes = sizes or [60000, 150000, 400000]
    sess = {}          # id -> dict(plan)
    order = []
    extras = []
    main_live = {}     # id -> k
    role = {}          # k -> ('main', id, carrierdict) | ('extra', dict)
    attached = {}
    upf, downf = {}, {}
    cuts = 0
    pending_gap, gapclasses = {}, set()
    gaps = [0]
    classes = set()

    def session(i):
        if i not in sess:
            up, down = rng.choice(sizes), rng.choice(sizes)
            sess[i] = {"up": up, "down": down, "carriers": []}
        return sess[i]

    def ipval(x):
        return None if x == "<absent>" else x

    shape, conveq = "random", False
    for act, args in beh:
        if act in ("G_Open", "S_Open"):
            k, pl = args[0], args[1]
            if "shape" in pl:
                shape, conveq = pl["shape"], bool(pl.get("conveq"))
            label = "c%d" % k
            order.append(label)
            p, h = pl["pres"], pl["hello"]
            pres = {"full": "id", "tok": "tokonly", "none": "pre", "bad": "noToken", "part": "short"}[h]
            c = {"label": label, "ip": ipval(pl["ip"]), "pres": pres}
            if p in ids:
                s = session(p)
                # a half-open predecessor: its server side is still attached
                for j, (r, rid, cj) in list(role.items()):
                    if r == "main" and rid == p and cj.get("fault") and attached.get(j) and cj["fault"]["kind"] == "cut" and cj["fault"]["cls"] not in ("tok", "id"):
                        cj["fault"]["kind"] = "cutcli"
                        cj["fault"]["hold_ms"] = rng.choice([200, 600, 1500])
                if main_live.get(p) is None:
                    if p in pending_gap:
                        # an explicit gap of the model (S_Gap): the real lengths beyond 30 s / 60 s are run by the
                        # dedicated scenarios of lib/checks/c05.py; here every class becomes a short real gap
                        c["delay_ms"] = rng.choice([40, 250, 1200])
                        c["gap_class"] = pending_gap.pop(p)
                        gaps[0] += 1
                    elif s["carriers"] and not any(attached.get(j) for j, (r, rid, cj) in role.items() if rid == p):
                        # every earlier carrier of the session is detached at the server: a gap
                        # (shorter than the one-minute retention) before the next one arrives
                        c["delay_ms"] = rng.choice([40, 250, 1200])
                        gaps[0] += 1
                    s["carriers"].append(c)
                    role[k] = ("main", p, c)
                    main_live[p] = k
                    if pres != "id":
                        c["hold_ms"] = rng.choice([10, 40, 120])
                else:
                    c["other"] = None   # filled below with the session index
                    c["_id"] = p
                    c["hold_ms"] = rng.choice([300, 800])
                    extras.append(c)
                    role[k] = ("extra", p, c)
            else:
                c["other"] = 0
                c["hold_ms"] = rng.choice([20, 100])
                extras.append(c)
                role[k] = ("extra", None, c)
        elif act == "S_Cut":
            k, cls = args[0], args[1]
            classes.add(cls)
            r = role.get(k)
            if not r:
                continue
            if r[0] == "main":
                c = r[2]
                if main_live.get(r[1]) == k:
                    main_live[r[1]] = None
                if c["pres"] != "id":
                    continue      # the client end simply goes away after hold_ms
                s = sess[r[1]]
                cap = max(1, min(s["up"], s["down"]) // 1400 // 3)
                if cls in UP_CLASS:
                    f = {"kind": rng.choice(kinds), "dir": "up", "cls": UP_CLASS[cls]}
                    f["nth"] = rng.randint(0, 7) if cls in ("pre", "id") else _nth(rng, upf.get(k, 0), cap)
                    if cls in ("pre", "id"):
                        f["kind"] = "cut"
                elif cls == "upmid":
                    f = {"kind": rng.choice(kinds), "dir": "up", "cls": rng.choice(["pfx", "body"]), "nth": _nth(rng, upf.get(k, 0), cap)}
                else:
                    f = {"kind": rng.choice(kinds), "dir": "down", "cls": rng.choice(["pfx", "body", "bnd"]), "nth": _nth(rng, downf.get(k, 0), cap)}
                if f["kind"] == "cut" and rng.random() < 0.3:
                    f["rst"] = True
                c["fault"] = f
                cuts += 1
            else:
                r[2]["hold_ms"] = rng.choice([5, 30, 80])
        elif act == "S_Gap":
            pending_gap[args[0]] = args[1]
            gapclasses.add(args[1])
        elif act == "S_SetAddr":
            attached[args[0]] = True
        elif act in ("S_Detach",):
            attached[args[0]] = False
        elif act == "S_QueueIncoming":
            upf[args[0]] = upf.get(args[0], 0) + 1
        elif act == "S_DownFrame":
            downf[args[0]] = downf.get(args[0], 0) + 1
    if not sess:
        session(ids[0])
    idlist = [i for i in ids if i in sess]
    sessions = [sess[i] for i in idlist]
    for c in extras:
        i = c.pop("_id", None)
        if i is not None:
            c["other"] = idlist.index(i)
        elif c.get("other") is None:
            c["other"] = 0
    for s in sessions:
        if not s["carriers"]:
            s["carriers"].append({"label": "", "ip": None, "pres": "id"})
    sc = {"name": name, "seed": rng.getrandbits(48), "sessions": sessions, "extras": extras, "order": order}
    if len(sessions) >= 2:
        sc["id_shape"], sc["conv_equal"] = shape, conveq
    info = {"shape": sc.get("id_shape"), "conveq": sc.get("conv_equal"), "cuts": cuts, "classes": classes, "carriers": len(order), "sessions": len(sessions), "extras": len(extras), "gaps": gaps[0], "gapclasses": gapclasses}
    return sc, info


# --------------------------------------------------------------------------
# Projection of Tunnel behaviours onto rig scenarios

C01_SIZES = [0, 1, 300, 1400, 20000, 100000, 100000, 400000, 400000, 1000000]


def project_tunnel(beh, rng, sessions=("A", "B"), sizes=None, name="", big=0.03):
    """One Tunnel(_Gen) behaviour -> one fault schedule for corerig: per
    session the carriers it popped in order, each with its fault."""
    sizes = sizes or C01_SIZES
    car, owner, att = {}, {}, {}
    upin, downin = {}, {}        # segment in flight on the carrier
    upc, downc = {}, {}          # segments passed on the carrier
    cur = {}
    plan = {}                    # k -> carrier dict
    sess = {}
    pending_refuse = 0
    pool_broken = set()
    waited = {}                  # session -> the pool was empty while it had no carrier
    faults = 0
    kinds = set()

    def session(s):
        if s not in sess:
            def size():
                return rng.choice([1 << 20, 4 << 20]) if rng.random() < big else rng.choice(sizes)
            sess[s] = {"up": size(), "down": size(), "carriers": []}
        return sess[s]

    def cap(s):
        return max(1, min(sess[s]["up"], sess[s]["down"]) // 1400 // 3)

    def scale(c, s):
        if c <= 0:
            return 0
        if c == 1:
            return min(cap(s), rng.randint(1, 3))
        return min(cap(s), rng.randint(3, 40))

    for act, args in beh:
        act = "Cut" if act == "G_Cut" else act
        if act == "Collect":
            car[args[0]] = "pool"
        elif act == "AnswerLost":
            car[args[0]] = "dead"
            pending_refuse += 1
            faults += 1
            kinds.add("answerlost")
        elif act == "Pop":
            s, k = args
            c = {"label": "", "ip": rng.choice(["192.0.2.7", "2001:db8::5", None, "0.0.0.0"]), "pres": "id"}
            if pending_refuse:
                c["refuse"] = pending_refuse
                pending_refuse = 0
            if waited.pop(s, False):
                c["delay_ms"] = rng.choice([30, 100, 300])
                kinds.add("noproxy")
            if k in pool_broken:
                c["fault"] = {"kind": "cut", "dir": "up", "cls": "tok", "nth": rng.randint(0, 7)}
                kinds.add("cut-before-token")
            session(s)["carriers"].append(c)
            plan[k], owner[k], car[k] = c, s, "popped"
        elif act == "WriteId":
            s, k = args
            # a predecessor whose server side is still attached is half-open
            for j, cj in plan.items():
                if owner.get(j) == s and j != k and att.get(j) and cj.get("fault") and cj["fault"]["kind"] == "cut" and cj["fault"]["cls"] not in ("tok", "id"):
                    cj["fault"]["kind"] = "cutcli"
                    cj["fault"]["hold_ms"] = rng.choice([200, 600, 1500])
                    kinds.add("halfopen")
            car[k], cur[s], att[k] = "live", k, True
        elif act in ("WriteIdFails", "WriteIdFailsMarked", "WriteIdFailsUnmarked", "PopSkip"):
            car[args[1]] = "dead"
        elif act == "StaleClose":
            s = args[0]
            if cur.get(s):
                car[cur[s]] = "dead"
            cur[s] = 0
        elif act == "CarrierUp":
            k = cur.get(args[0])
            if k and car.get(k) == "live":
                upin[k] = True
        elif act == "ServerRecv":
            upin[args[0]] = False
            upc[args[0]] = upc.get(args[0], 0) + 1
        elif act == "DownFrame":
            k = args[0]
            if car.get(k) == "live":
                downin[k] = True
        elif act == "ClientRecv":
            k = cur.get(args[0])
            if k:
                downin[k] = False
                downc[k] = downc.get(k, 0) + 1
        elif act == "SrvDetach":
            att[args[0]] = False
        elif act == "ReaderStalls":
            # the application that reads this direction stops for a while and resumes
            sp = session(args[0])
            total = sp["down"] if args[1] == "down" else sp["up"]
            if total > 0:
                sp.setdefault("read_stalls", []).append({"dir": args[1], "at": rng.randint(0, total - 1), "ms": rng.choice([150, 400, 1200])})
                kinds.add("reader-stall")
        elif act in ("Cut", "Freeze"):
            k = args[0]
            c = plan.get(k)
            if c is None:
                if act == "Cut" and car.get(k) == "pool":
                    # a reserve dies in the pool: the session that pops it later fails at the first write
                    pool_broken.add(k)
                    faults += 1
                continue
            s = owner[k]
            faults += 1
            if act == "Cut" and car.get(k) == "popped":
                f = {"kind": "cut", "dir": "up", "cls": "tok", "nth": rng.randint(0, 7)}
                kinds.add("cut-before-token")
            elif act == "Cut":
                if upin.get(k):
                    f = {"kind": "cut", "dir": "up", "cls": rng.choice(["pfx", "body"]), "nth": scale(upc.get(k, 0), s)}
                elif downin.get(k):
                    f = {"kind": "cut", "dir": "down", "cls": rng.choice(["pfx", "body"]), "nth": scale(downc.get(k, 0), s)}
                else:
                    d = rng.choice(["up", "down"])
                    f = {"kind": "cut", "dir": d, "cls": rng.choice(["bnd", "bnd", "id"]) if d == "up" and upc.get(k, 0) == 0 else "bnd",
                         "nth": scale((upc if d == "up" else downc).get(k, 0), s)}
                    if f["cls"] == "id":
                        f["nth"] = rng.randint(0, 7)
                if rng.random() < 0.3:
                    f["rst"] = True
                kinds.add("cut-" + f["cls"])
                car[k] = "dead"
                if cur.get(s) == k:
                    cur[s] = 0
            else:
                d = rng.choice(["up", "down"])
                f = {"kind": rng.choice(["stall", "stall", "cutsrv"]), "dir": d, "cls": "bnd", "nth": scale((upc if d == "up" else downc).get(k, 0), s)}
                kinds.add("freeze")
                car[k] = "frozen"
            upin[k] = downin[k] = False
            c["fault"] = f
        # the pool is empty while a session has no carrier: Pop blocks
        for s in sessions:
            if s in sess or act == "Init":
                if not cur.get(s) and not any(v == "pool" for v in car.values()) and not any(car.get(k) == "popped" and owner.get(k) == s for k in car):
                    waited[s] = True
    for s in sessions:
        session(s)
    out = [sess[s] for s in sessions]
    for sp in out:
        if not sp["carriers"]:
            sp["carriers"].append({"label": "", "ip": None, "pres": "id"})
    sc = {"name": name, "seed": rng.getrandbits(48), "sessions": out}
    return sc, {"faults": faults, "kinds": kinds, "carriers": sum(len(x["carriers"]) for x in out)}


def bulk_outage(sc, rng, variant):
    """Turn a schedule into the bulk-outage class: several MiB each way, the
    first usable carrier is lost in the middle of the transfer and NO carrier is
    there for 2-3 s (the pool is empty), so that the client's send queue and
    the server's per-client queue overflow with retransmissions (queue full ->
    drop, Tunnel's ClientSendDrop / ServerSendDrop); then a healthy carrier.
    variant 1 precedes the loss by a black-holed (stalled) carrier."""
    out = dict(sc, name=sc["name"] + "-bulk%d" % variant, stale_ms=3000 if variant == 1 else 600)
    sessions = []
    for sp in sc["sessions"]:
        sp = dict(sp, up=rng.choice([4 << 20, 6 << 20]), down=rng.choice([4 << 20, 5 << 20]))
        first = {"label": "", "ip": "192.0.2.7", "pres": "id",
                 "fault": {"kind": "stall" if variant == 1 else "cut", "dir": rng.choice(["up", "down"]), "cls": "bnd" if variant == 1 else rng.choice(["body", "pfx", "bnd"]),
                           "nth": rng.randint(300, 1500)}}
        second = {"label": "", "ip": "2001:db8::5", "pres": "id", "delay_ms": rng.randint(2000, 3000)}
        sp["carriers"] = [first, second] + [c for c in sp["carriers"][2:4] if not c.get("delay_ms")]
        sessions.append(sp)
    out["sessions"] = sessions[:1] if variant == 1 else sessions
    out["seed"] = rng.getrandbits(48)
    return out


def dot_paths(dotfile, limit=3000, maxlen=60):
    """Maximal acyclic paths of a `-dump dot,actionlabels` graph, as lists of
    (action, args)."""
    nodes, edges, inits = vlib.parse_dot(dotfile)
    succ = {}
    for a, b, lab in edges:
        if a != b:
            succ.setdefault(a, []).append((b, lab))
    paths = []
    import sys
    sys.setrecursionlimit(10000)

    def dfs(n, path, seen):
        if len(paths) >= limit:
            return
        nxt = [(b, lab) for b, lab in succ.get(n, []) if b not in seen]
        if not nxt or len(path) >= maxlen:
            paths.append(list(path))
            return
        for b, lab in nxt:
            seen.add(b)
            path.append(parse_label(lab))
            dfs(b, path, seen)
            path.pop()
            seen.discard(b)
    for i in sorted(inits):
        dfs(i, [], {i})
    return paths


# --------------------------------------------------------------------------
# Running the rig

def time_scale():
    """Real-time limits are upper bounds with large margins; they are widened
    further when the drivers are -race builds (VERIF_RACE=1, set by C20's
    monitor) or the machine is heavily loaded by other work."""
    f = 1.0
    if os.environ.get("VERIF_RACE") == "1":
        f *= 3
    try:
        load = os.getloadavg()[0] / max(1, vlib.NCPU)
    except OSError:
        load = 0
    if load > 1.5:
        f *= 3
    elif load > 0.75:
        f *= 2
    return f


def run_rig(binary, scenarios, par=48, bound_ms=60000, stale_ms=600, timeout=600, tag="rig", env=None):
    sc = time_scale()
    bound_ms, timeout = int(bound_ms * sc), timeout * sc
    if sc > 1:
        stale_ms = int(stale_ms * min(sc, 3))
        par = max(8, int(par / sc))
    d = vlib.scratch("rig")
    vlib._tlc_seq[0] += 1
    inp = os.path.join(d, "%s-%d.in.ndjson" % (tag, vlib._tlc_seq[0]))
    outp = os.path.join(d, "%s-%d.out.ndjson" % (tag, vlib._tlc_seq[0]))
    vlib.write_ndjson(inp, scenarios)
    cmd = [binary, "-par", str(par), "-bound", str(bound_ms), "-stale", str(stale_ms), inp, outp]
    r = vlib.run(cmd, timeout=timeout, env=env)
    if r.timed_out or r.rc != 0 or not os.path.exists(outp):
        raise vlib.Inconclusive("core rig failed (rc=%s timeout=%s):\n%s" % (r.rc, r.timed_out, r.out[-4000:]))
    results, summary = {}, None
    for res in vlib.read_ndjson(outp):
        if "summary" in res:
            summary = res["summary"]
        elif "panic" in res or "error" in res:
            raise vlib.Inconclusive("core rig: scenario %s failed inside the driver: %s" % (res.get("idx"), str(res)[:2000]))
        else:
            results[res["name"]] = res
    if summary is None:
        raise vlib.Inconclusive("core rig wrote no summary")
    races = r.out.count("WARNING: DATA RACE")
    return results, summary, r.out, races


# --------------------------------------------------------------------------
# Trace validation in shards

MAX_TRACE_CARRIERS = 60      # the trace specifications provide 64 carrier slots


def _trace_lines(res):
    """The events of one scenario; a pathological run that dialled more
    carriers than the trace specification has slots for is validated up to
    that point only (a prefix of a behaviour is a behaviour)."""
    out, opens = [], 0
    for e in res["events"]:
        if e["ev"] == "car.open":
            opens += 1
            if opens > MAX_TRACE_CARRIERS:
                break
        out.append(json.dumps(e, separators=(",", ":")))
    return out


def _validate_shard(specdir, module, cfg, shard, timeout, max_bad=3):
    """shard: list of results.  Returns list of (result, kind, detail) for the
    traces TLC did not accept, and the number of accepted ones."""
    bad = []
    todo = list(shard)
    accepted = 0
    tlc_results = []
    while todo:
        lines, starts = [], []
        for i, res in enumerate(todo):
            if i:
                lines.append('{"ev":"reset"}')
            starts.append(len(lines) + 1)
            lines += _trace_lines(res)
        # small heap: up to eight of these JVMs run at once next to model checking (the default is a quarter of the RAM each)
        r = vlib.tlc(specdir, module, cfg, workers=1, timeout=timeout, files={"trace.ndjson": ("\n".join(lines) + "\n").encode()},
                     keep_prints=False, heap="3g")
        tlc_results.append(r)
        if r.error is None:
            accepted += len(todo)
            break
        # locate the trace that failed
        pos = None
        kind, detail = r.error, ""
        if r.error.startswith("invariant:"):
            ms = re.findall(r"^/\\ l = (\d+)", r.out, re.M)
            if ms:
                pos = int(ms[-1]) - 1       # the event that led to the bad state
            fl = re.findall(r"^/\\ flags = (\{.*?\})$", r.out, re.M | re.S)
            if r.error == "invariant:NoFlags" and fl:
                detail = fl[-1]
        elif r.error == "postcondition":
            m = re.search(r'"UNEXPLAINED",\s*(\d+),\s*(.*?)>>\s*FALSE', r.out, re.S)
            if m:
                pos = int(m.group(1))
                detail = re.sub(r"\s+", " ", m.group(2))[:400]
                kind = "unexplained"
        if pos is None:
            raise vlib.Inconclusive("trace validation failed in an unexpected way (%s):\n%s" % (r.error, r.out[-3000:]))
        idx = 0
        for i, st in enumerate(starts):
            if st <= pos:
                idx = i
        res = todo[idx]
        local = pos - starts[idx]
        ev = res["events"][local] if 0 <= local < len(res["events"]) else None
        bad.append((res, kind, detail, local, ev))
        accepted += idx          # the traces before it were accepted
        todo = todo[idx + 1:]
        if len(bad) >= max_bad:
            break                # enough evidence from this shard; the rest stays unjudged
    return bad, accepted, tlc_results


def validate(chk, specdir, module, cfg, results, shards=8, timeout=600):
    """Validate the recorded traces of `results` (list) with TLC.  Returns the
    list of (result, kind, detail, local_index, event) of rejected traces."""
    results = list(results)
    if not results:
        return []
    n = max(1, min(shards, len(results)))
    parts = [results[i::n] for i in range(n)]
    bad, accepted = [], 0
    with concurrent.futures.ThreadPoolExecutor(max_workers=n) as ex:
        futs = [ex.submit(_validate_shard, specdir, module, cfg, p, timeout) for p in parts]
        for f in futs:
            b, a, trs = f.result()
            bad += b
            accepted += a
            for r in trs:
                chk.add_tlc(r)
    chk.cov["traces_validated_against_impl"] += accepted
    return bad


def fault_position(res, local):
    """The abstract fault position a violation is attributed to: the last
    fault that fired before the failing event."""
    pos = "nofault"
    for e in res["events"][: (local + 1 if local is not None else None)]:
        if e["ev"] == "car.fault":
            pos = "%s/%s/%s" % (e["kind"], e["dir"], e["cls"])
    return pos


def signature(pid, res, kind, detail, local, ev):
    if kind.startswith("invariant:"):
        what = kind.split(":", 1)[1]
        if what == "NoFlags" and detail:
            fl = re.findall(r'"([^"]+)"', detail)
            what = "flag:" + (fl[0] if fl else "?")
    elif kind == "unexplained":
        what = "unexplained:" + (ev["ev"] if ev else "?")
    else:
        what = kind
    return "%s/%s/after:%s" % (pid, re.sub(r"\s+", "-", what), fault_position(res, local))


def judge(chk, pid, rigbin, scenarios, results, specdir, module, trace_cfg="Trace.cfg", confirm_stalls=True, bound_ms=60000, stale_ms=600, known_stall=None):
    """Trace validation + stall confirmation -> violations."""
    by_name = {s["name"]: s for s in scenarios}
    bad = validate(chk, specdir, module, trace_cfg, [results[n] for n in sorted(results)])
    for res, kind, detail, local, ev in bad:
        sig = signature(pid, res, kind, detail, local, ev)
        chk.violation(sig, "trace of scenario %s: %s %s at event %s %s" % (res["name"], kind, detail, local, ev),
                      {"scenario": by_name.get(res["name"]), "event_index": local, "event": ev, "kind": kind, "detail": detail,
                       "events": res["events"][:max(60, (local or 0) + 5)]})
    stalled = [n for n in sorted(results) if results[n].get("stalled")]
    if stalled and bad:
        chk.note("%d scenario(s) stalled; not confirmed separately because safety violations were already observed" % len(stalled))
    elif stalled and confirm_stalls:
        chk.note("%d scenario(s) stalled; confirming alone with doubled limits: %s" % (len(stalled), stalled[:3]))
        confirm = [dict(by_name[n], name=n + "-confirm") for n in stalled[:3]]
        r2, _, _, _ = run_rig(rigbin, confirm, par=1, bound_ms=2 * bound_ms, stale_ms=stale_ms,
                                      timeout=len(confirm) * (2 * bound_ms / 1000 + 60) + 60, tag="confirm")
        for sc in confirm:
            res2 = r2[sc["name"]]
            n = sc["name"][:-len("-confirm")]
            if res2.get("stalled"):
                sig = "%s/stall/after:%s" % (pid, fault_position(res2, None))
                chk.violation(sig, "session made no progress for %d ms after the last fault although healthy carriers were available: %s" % (2 * bound_ms, res2.get("state")),
                              {"scenario": by_name[n], "state": res2.get("state")})
            else:
                # no verdict from a wall-clock coincidence: exit 2, never exit 1
                chk.fail("stall of %s not reproduced alone with doubled limits (load artefact?): no verdict; first run: %s; last events: %s" % (
                    n, results[n].get("state"), [(e["ms"], e["ev"], e.get("k")) for e in results[n]["events"][-8:]]))
                chk.cov.setdefault("unreproduced_stalls", []).append({"scenario": by_name[n], "state": results[n].get("state")})
                bad2 = validate(chk, specdir, module, trace_cfg, [res2])
                for res, kind, detail, local, ev in bad2:
                    chk.violation(signature(pid, res, kind, detail, local, ev), "trace of scenario %s: %s %s at event %s %s" % (res["name"], kind, detail, local, ev),
                                  {"scenario": by_name[n], "event_index": local, "event": ev, "kind": kind, "detail": detail})
    return bad, stalled


