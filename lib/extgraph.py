"""Helpers shared by the extension parts (c05_listener, c15_eventbus): walking a
state graph dumped by TLC (`-dump dot,actionlabels`) into command schedules,
running TLC on a configuration generated from a template, reading the verdict
of a *_Trace specification, running things side by side."""
import collections
import os
import re
import threading

import vlib


class Graph:
    """State graph of a GenSpec (commands only in quiescent states).
    cmd_of(label) -> harness command (dict) for an environment edge, None for a
    step the goroutines take by themselves."""

    def __init__(self, dot, cmd_of, is_command=lambda lab: lab.startswith("G")):
        nodes, edges, inits = vlib.parse_dot(dot)
        if not edges or len(inits) != 1:
            raise vlib.Inconclusive("state graph dump unusable: %d edges, %d initial states" % (len(edges), len(inits)))
        self.init = next(iter(inits))
        self.edges = edges
        self.nstates = len(nodes)
        self.out = collections.defaultdict(list)
        for i, (s, d, lab) in enumerate(edges):
            self.out[s].append(i)
        self.cmd = [cmd_of(lab) if is_command(lab) else None for (_, _, lab) in edges]
        unknown = {lab for (_, _, lab), c in zip(edges, self.cmd) if c is None and is_command(lab)}
        if unknown:
            raise vlib.Inconclusive("unknown command labels in the dump: %s" % sorted(unknown)[:5])
        self.parent = {self.init: None}
        dq = collections.deque([self.init])
        while dq:
            u = dq.popleft()
            for i in self.out[u]:
                v = edges[i][1]
                if v not in self.parent:
                    self.parent[v] = i
                    dq.append(v)

    def path_to(self, node):
        p = []
        while self.parent[node] is not None:
            i = self.parent[node]
            p.append(i)
            node = self.edges[i][0]
        p.reverse()
        return p

    def steps(self, path):
        return [self.cmd[i] for i in path if self.cmd[i] is not None]

    def labels(self, path):
        return [self.edges[i][2] for i in path]

    def covering(self, rng, limit, maxcmds=24):
        """paths from the initial state that together cover every command edge (or as many as
        `limit` paths allow); each path is extended greedily over uncovered command edges"""
        uncovered = set(i for i, c in enumerate(self.cmd) if c is not None)
        total = len(uncovered)
        targets = sorted(uncovered)
        rng.shuffle(targets)
        paths = []
        for t in targets:
            if t not in uncovered:
                continue
            if len(paths) >= limit:
                break
            path = self.path_to(self.edges[t][0]) + [t]
            ncmd = sum(1 for i in path if self.cmd[i] is not None)
            cur = self.edges[t][1]
            idle = 0
            while ncmd < maxcmds:
                outs = self.out[cur]
                if not outs:
                    break
                code = [i for i in outs if self.cmd[i] is None]
                if code:
                    pick = rng.choice(code)       # goroutines run to rest before the next command
                else:
                    unc = [i for i in outs if i in uncovered]
                    if unc:
                        pick, idle = rng.choice(unc), 0
                    else:
                        idle += 1
                        if idle > 2:
                            break
                        pick = rng.choice(outs)
                    ncmd += 1
                path.append(pick)
                cur = self.edges[pick][1]
            for i in path:
                uncovered.discard(i)
            paths.append(path)
        return paths, total, total - len(uncovered)

    def walks(self, rng, n, maxcmds, mincmds=3):
        paths = []
        for _ in range(n):
            cur, path, ncmd = self.init, [], 0
            want = rng.randint(mincmds, maxcmds)
            while ncmd < want:
                outs = self.out[cur]
                if not outs:
                    break
                pick = rng.choice(outs)
                if self.cmd[pick] is not None:
                    ncmd += 1
                path.append(pick)
                cur = self.edges[pick][1]
            paths.append(path)
        return paths


def cfg_text(constants, spec, invariants=(), properties=(), constraint=None, post=None):
    """text of a TLC configuration; constants: list of (name, TLA+ value text)"""
    lines = ["CONSTANTS"] + ["  %s %s" % (k, v if v.startswith("<-") else "= " + v) for k, v in constants] + ["SPECIFICATION " + spec]
    if constraint:
        lines.append("CONSTRAINT " + constraint)
    if post:
        lines.append("POSTCONDITION " + post)
    if invariants:
        lines.append("INVARIANTS " + " ".join(invariants))
    if properties:
        lines.append("PROPERTIES " + " ".join(properties))
    lines.append("CHECK_DEADLOCK FALSE")
    return "\n".join(lines) + "\n"


def read_cfg_constants(path):
    """(name, value) pairs of the CONSTANTS section of a .cfg file in spec/ (a substitution `N <- Def` has the value "<- Def")"""
    out, on = [], False
    with open(path) as fh:
        for line in fh:
            s = line.strip()
            if s.startswith("CONSTANTS"):
                on = True
                continue
            if on:
                m = re.match(r"^(\w+)\s*(=|<-)\s*(.+)$", s)
                if m and line.startswith((" ", "\t")):
                    out.append((m.group(1), ("<- " if m.group(2) == "<-" else "") + m.group(3)))
                elif s:
                    break
    return out


def with_constants(base, **over):
    """constants list with some values replaced"""
    names = [k for k, _ in base]
    for k in over:
        if k not in names:
            raise KeyError(k)
    return [(k, over.get(k, v)) for k, v in base]


def tlc_verdict(out):
    """kind of the first error TLC reported in `out` (vlib.tlc does not return the property name of a
    liveness violation): None | 'invariant:X' | 'action:X' | 'temporal:X' | 'deadlock' | 'other'"""
    m = re.search(r"Invariant (\S+) is violated", out)
    if m:
        return "invariant:" + m.group(1)
    m = re.search(r"Action property (\S+) is violated", out)
    if m:
        return "action:" + m.group(1)
    m = re.search(r"Temporal propert(?:y (\S+) was|ies were) violated", out)
    if m:
        return "temporal:" + (m.group(1) or "")
    if "Deadlock reached" in out:
        return "deadlock"
    if "No error has been found" in out:
        return None
    return "other"


def tlc_raw(chk, specdir, module, cfgname, cfgtext=None, workers=1, timeout=600, files=None):
    """Run TLC where a violation is an expected outcome; returns (verdict, TLCResult).  Raises
    Inconclusive on tool failure."""
    import shutil
    with vlib._seq_lock:
        vlib._tlc_seq[0] += 1
        seq = vlib._tlc_seq[0]
    d = vlib.scratch("tlcx-%d-%s" % (seq, module))
    for f in os.listdir(specdir):
        if f.endswith((".tla", ".cfg")):
            shutil.copy(os.path.join(specdir, f), d)
    if cfgtext is not None:
        with open(os.path.join(d, cfgname), "w") as fh:
            fh.write(cfgtext)
    for name, src in (files or {}).items():
        shutil.copy(src, os.path.join(d, name))
    cmd = ["tlc", "-metadir", os.path.join(d, "meta"), "-workers", str(workers), "-config", cfgname, module + ".tla"]
    r = vlib.run(cmd, cwd=d, timeout=timeout)
    res = vlib.TLCResult()
    res.out, res.wall, res.cmd, res.dir = r.out, r.wall, "tlc -workers %d -config %s %s.tla" % (workers, cfgname, module), d
    m = None
    for m in re.finditer(r"(\d+) states generated, (\d+) distinct states found", r.out):
        pass
    if m:
        res.generated, res.distinct = int(m.group(1)), int(m.group(2))
    if r.timed_out:
        raise vlib.Inconclusive("TLC timeout after %ss: %s" % (timeout, res.cmd))
    v = tlc_verdict(r.out)
    if v == "other":
        raise vlib.Inconclusive("TLC failed: %s\n%s" % (res.cmd, r.out[-2500:]))
    res.error = v
    return v, res


def cex_labels(out):
    """action labels (with arguments) of the states of a TLC counterexample"""
    return [m.group(1) for m in re.finditer(r"^State \d+: <(\w+(?:\([^)]*\))?) line ", out, re.M)]


def trace_verdict(res, ntraces, what):
    """{trace id: index of the first unexplained event} printed by the POSTCONDITION of a *_Trace spec"""
    verdicts = [p for p in res.prints if isinstance(p, dict) and "rejected" in p]
    if len(verdicts) != 1 or verdicts[0].get("nt") != ntraces:
        raise vlib.Inconclusive("trace validation %s printed no verdict for %d traces\n%s" % (what, ntraces, res.out[-2000:]))
    return {int(a): int(b) for a, b in verdicts[0]["rejected"]}


class Bg:
    """run fn in a thread; .get() joins and re-raises"""

    def __init__(self, fn, *a, **kw):
        self.val, self.exc = None, None

        def w():
            try:
                self.val = fn(*a, **kw)
            except BaseException as e:   # noqa: BLE001 - re-raised in get()
                self.exc = e
        self.t = threading.Thread(target=w, daemon=True)
        self.t.start()

    def get(self):
        self.t.join()
        if self.exc is not None:
            raise self.exc
        return self.val
