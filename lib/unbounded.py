"""Unbounded arguments (thorough-tier extras) for three small specifications
that TLC checks on bounded domains only:

  matcher_proof(chk)         spec/Matcher/MatcherProof.tla        tlapm: the superset law for ALL
                                                                  rule strings / hostnames
  clientidmap_inductive(chk) spec/ClientIDMap/ClientIDMapTyped.tla  Apalache: inductive invariant of
                                                                  the ring machine (refinement of the
                                                                  abstract map), ids/addresses over Int,
                                                                  capacities 1..4, unbounded run length
  metrics_law(chk)           spec/Metrics/MetricsProof.tla        tlapm: the rounding law for ALL naturals
                             spec/Metrics/MetricsTotalTyped.tla   Apalache: the "total" counter, 2 callers,
                                                                  unbounded Incs / reads / counts

Contract: an extra can NEVER change the verdict of the check that calls it.
Whatever happens (tool missing, time limit, an obligation that is not
discharged, a counterexample to inductiveness, an exception in this file) the
outcome is a chk.note and `"not discharged"` in the evidence:

  chk.cov["unbounded_extras"][name] = {"tool":..., "obligations": n, "discharged": n, "wall_s": ...}
                                    | "not discharged"          (reason in chk.cov["unbounded_notes"][name])

The proof modules restate definitions of the TLC modules (tlapm and Apalache
cannot read modules that extend TLC / Json); `_same_defs` compares the text of
every restated definition with the original and refuses to report an extra as
discharged when they differ.  Tools run on a scratch copy (tlapm writes
.tlacache next to the module, Apalache an output directory).  See
notes/Unbounded.md."""
import concurrent.futures as cf
import os
import re
import shutil
import time
import traceback

import vlib

TLAPM_TIMEOUT = 300
APALACHE_TIMEOUT = 240


# --------------------------------------------------------------------------
# bookkeeping

_versions = {}    # tool -> version string, filled by the runners

def _ok(chk, name, tool, obligations, wall, **more):
    rec = {"tool": tool, "tool_version": _versions.get(tool, "?"), "obligations": obligations, "discharged": obligations, "wall_s": round(wall, 1)}
    rec.update(more)
    chk.cov.setdefault("unbounded_extras", {})[name] = rec
    chk.note("unbounded extra %s: %d/%d obligations discharged by %s (%.0fs)" % (name, obligations, obligations, tool, wall))
    return True


def _no(chk, name, why):
    chk.cov.setdefault("unbounded_extras", {})[name] = "not discharged"
    chk.cov.setdefault("unbounded_notes", {})[name] = why[:600]
    chk.note("unbounded extra %s: not discharged (%s); the verdict of the check does not depend on it" % (name, why[:300]))
    return False


def _guard(name):
    """No exception of an extra ever reaches the check."""
    def deco(fn):
        def w(chk, *a):
            try:
                return fn(chk, *a)
            except Exception as e:
                where = traceback.extract_tb(e.__traceback__)[-1]
                return _no(chk, name, "internal error: %s: %s (%s:%d)" % (type(e).__name__, e, os.path.basename(where.filename), where.lineno))
        w.__name__, w.__doc__ = fn.__name__, fn.__doc__
        return w
    return deco


# --------------------------------------------------------------------------
# restated definitions must be the text of the original

_DEF_START = re.compile(r"^(\w+)(\([^)]*\))?\s*==")


def _defs(text):
    """name -> whitespace-normalised body of every top-level definition that starts in column 0.
    A definition ends at a blank line, a comment line, a separator or the next definition;
    Apalache type annotations (comment lines) are skipped."""
    out, cur = {}, None
    for line in text.splitlines():
        st = line.strip()
        m = _DEF_START.match(line)
        if m:
            cur = m.group(1)
            out[cur] = [st]
        elif cur is not None:
            if st == "" or st.startswith(("(*", "\\*", "----", "====")) or not line[:1].isspace():
                cur = None
            else:
                out[cur].append(st)
    return {k: re.sub(r"\s+", " ", " ".join(v)) for k, v in out.items()}


def _same_defs(orig_path, copy_path, names):
    """'' when every name is defined with the same text in both modules, else a description."""
    with open(orig_path) as fh:
        a = _defs(fh.read())
    with open(copy_path) as fh:
        b = _defs(fh.read())
    bad = [n for n in names if n not in a or n not in b or a[n] != b[n]]
    if bad:
        return "definition(s) %s of %s differ from %s" % (", ".join(bad), os.path.basename(copy_path), os.path.basename(orig_path))
    return ""


# --------------------------------------------------------------------------
# tool runners

def _tlapm(specdir, module, tag):
    """Run tlapm on a scratch copy.  Returns (proved, total, wall, why)."""
    if shutil.which("tlapm") is None:
        return 0, 0, 0.0, "tlapm not installed"
    d = vlib.scratch("unbounded-" + tag)
    shutil.copy(os.path.join(specdir, module + ".tla"), d)
    v = vlib.run(["tlapm", "--version"], timeout=30)
    _versions["tlapm"] = (v.out.strip().splitlines() or ["?"])[-1].strip()
    r = vlib.run(["tlapm", "--threads", str(min(16, vlib.NCPU)), module + ".tla"], cwd=d, timeout=TLAPM_TIMEOUT)
    if r.timed_out:
        return 0, 0, r.wall, "tlapm exceeded %d s" % TLAPM_TIMEOUT
    m = re.search(r"All (\d+) obligations? proved", r.out)
    if m and r.rc == 0:
        n = int(m.group(1))
        return n, n, r.wall, ""
    m = re.search(r"(\d+)/(\d+) obligations? failed", r.out)
    if m:
        failed, total = int(m.group(1)), int(m.group(2))
        return total - failed, total, r.wall, "tlapm: %d of %d obligations not proved" % (failed, total)
    tail = " ".join(r.out.strip().splitlines()[-3:])
    return 0, 0, r.wall, "tlapm rc=%s: %s" % (r.rc, tail[-300:])


def _apalache_jobs(specdir, module, jobs, tag):
    """jobs: list of (label, cfg_text, init, inv, length).  All run concurrently on one scratch copy.
    Returns list of (label, ok, wall, why)."""
    if shutil.which("apalache-mc") is None:
        return [(j[0], False, 0.0, "apalache-mc not installed") for j in jobs]
    d = vlib.scratch("unbounded-" + tag)
    shutil.copy(os.path.join(specdir, module + ".tla"), d)

    def one(i, job):
        label, cfg_text, init, inv, length = job
        cfg = "job%d.cfg" % i
        with open(os.path.join(d, cfg), "w") as fh:
            fh.write(cfg_text)
        cmd = ["apalache-mc", "check", "--config=" + cfg, "--init=" + init, "--inv=" + inv, "--length=%d" % length,
               "--out-dir=" + os.path.join(d, "out-%d" % i), module + ".tla"]
        r = vlib.run(cmd, cwd=d, timeout=APALACHE_TIMEOUT)
        m = re.search(r"APALACHE version: (\S+)", r.out)
        if m:
            _versions["apalache"] = m.group(1)
        if r.timed_out:
            return label, False, r.wall, "apalache exceeded %d s" % APALACHE_TIMEOUT
        if "The outcome is: NoError" in r.out and r.rc == 0:
            return label, True, r.wall, ""
        m = re.search(r"The outcome is: (\w+)", r.out)
        if m:
            v = re.search(r"State \d+: state invariant \d+ violated", r.out)
            return label, False, r.wall, "apalache outcome %s%s" % (m.group(1), (" (" + v.group(0) + ")") if v else "")
        tail = " ".join(r.out.strip().splitlines()[-3:])
        return label, False, r.wall, "apalache rc=%s: %s" % (r.rc, tail[-300:])

    with cf.ThreadPoolExecutor(max_workers=max(1, min(len(jobs), vlib.NCPU // 2))) as ex:
        futs = [ex.submit(one, i, j) for i, j in enumerate(jobs)]
        return [f.result() for f in futs]


# --------------------------------------------------------------------------
# (1) Matcher

MATCHER_DEFS = ["HasPrefix", "HasSuffix", "TrimPrefix", "TrimSuffix", "New", "IsMember", "IsSupersetOf"]


@_guard("matcher_law")
def matcher_proof(chk):
    """IsSupersetOf(New(p), New(q)) /\\ IsMember(New(q), h) => IsMember(New(p), h) for all finite
    sequences p, q, h over any alphabet (MatcherProof!RuleLaw, MatcherLaw, RuleReflexive)."""
    sd = os.path.join(vlib.SPEC, "Matcher")
    drift = _same_defs(os.path.join(sd, "Matcher.tla"), os.path.join(sd, "MatcherProof.tla"), MATCHER_DEFS)
    if drift:
        return _no(chk, "matcher_law", drift)
    proved, total, wall, why = _tlapm(sd, "MatcherProof", "matcher")
    if why or total == 0:
        return _no(chk, "matcher_law", why or "no obligations")
    return _ok(chk, "matcher_law", "tlapm", total, wall,
               theorem="MatcherProof!RuleLaw: for every set S and p, q, h in Seq(S): IsSupersetOf(New(p),New(q)) /\\ IsMember(New(q),h) => IsMember(New(p),h)",
               trusted="TLAPS SequenceTheorems (library, proved in its distribution); back-end provers; no axioms of our own")


# --------------------------------------------------------------------------
# (2) ClientIDMap

CIM_CAPS = [1, 2, 3, 4]
CIM_DEFS = ["Max", "Lookup", "Push"]


@_guard("clientidmap_inductive")
def clientidmap_inductive(chk):
    """Init => IndInv and IndInv /\\ Next => IndInv' for the ring machine with ids over Int,
    addresses over Int \\ {0}, capacity N = 1..4: the refinement mapping equals the abstract
    state and every Get is the abstract Lookup after any number of steps."""
    sd = os.path.join(vlib.SPEC, "ClientIDMap")
    drift = _same_defs(os.path.join(sd, "ClientIDMapAbs.tla"), os.path.join(sd, "ClientIDMapTyped.tla"), CIM_DEFS)
    if drift:
        return _no(chk, "clientidmap_inductive", drift)
    jobs = []
    for n in sorted(CIM_CAPS, reverse=True):     # longest first
        cfg = "CONSTANTS\n  N = %d\nINIT Init\nNEXT Next\n" % n
        jobs.append(("N=%d step" % n, cfg, "IndInit", "IndInv", 1))
        jobs.append(("N=%d base" % n, cfg, "Init", "IndInv", 0))
    t0 = time.time()
    res = _apalache_jobs(sd, "ClientIDMapTyped", jobs, "clientidmap")
    wall = time.time() - t0
    bad = ["%s: %s" % (lab, why) for lab, ok, _, why in res if not ok]
    if bad:
        return _no(chk, "clientidmap_inductive", "; ".join(bad))
    return _ok(chk, "clientidmap_inductive", "apalache", len(res), wall, capacities=CIM_CAPS,
               per_job_s={lab: round(w, 1) for lab, _, w, _ in res},
               statement="IndInv (TypeOK, Shape, WinIsWinBar, CurrentOK, GetOK, BoundedMemory) is inductive: ids over Int, addresses over Int\\{0}, unbounded run length")


# --------------------------------------------------------------------------
# (3) Metrics

METRICS_DEFS = ["NeverLower", "MultipleOf8", "AtMost7Above", "Lawful", "Published", "Ceil8", "ReadOK", "ReadOKFast"]
METRICS_TYPED_DEFS = ["NeverLower", "MultipleOf8", "AtMost7Above", "Lawful", "Ceil8"]


@_guard("metrics_law")
def metrics_law(chk):
    """Published(n) is lawful and equals Ceil8(n) for all naturals (tlapm); the "total" counter
    with 2 callers and unbounded Incs / reads is exact at quiescence and linearizable (Apalache)."""
    sd = os.path.join(vlib.SPEC, "Metrics")
    src = os.path.join(sd, "Metrics.tla")
    ok = True
    # (a) the sequential law
    drift = _same_defs(src, os.path.join(sd, "MetricsProof.tla"), METRICS_DEFS)
    if drift:
        ok = _no(chk, "metrics_law", drift)
    else:
        proved, total, wall, why = _tlapm(sd, "MetricsProof", "metrics")
        if why or total == 0:
            ok = _no(chk, "metrics_law", why or "no obligations")
        else:
            _ok(chk, "metrics_law", "tlapm", total, wall,
                theorem="MetricsProof!PublishedLaw: for every n in Nat: Published(n) >= n, Published(n) % 8 = 0, Published(n) - n <= 7, Published(n) = Ceil8(n); "
                        "WindowLemmaAll: ReadOK <=> ReadOKFast for all windows")
    # (b) the concurrent counter of /repo now
    typed = os.path.join(sd, "MetricsTotalTyped.tla")
    if os.path.exists(typed):
        _metrics_total(chk, sd, src, typed)
    return ok


@_guard("metrics_total_inductive")
def _metrics_total(chk, sd, src, typed):
    drift = _same_defs(src, typed, METRICS_TYPED_DEFS)
    if drift:
        return _no(chk, "metrics_total_inductive", drift)
    jobs = []
    for locked in ("FALSE", "TRUE"):
        cfg = "CONSTANTS\n  Locked = %s\nINIT Init\nNEXT Next\n" % locked
        jobs.append(("Locked=%s step" % locked, cfg, "IndInit", "IndInv", 1))
        jobs.append(("Locked=%s base" % locked, cfg, "Init", "IndInv", 0))
    t0 = time.time()
    res = _apalache_jobs(sd, "MetricsTotalTyped", jobs, "metrics-total")
    wall = time.time() - t0
    bad = ["%s: %s" % (lab, why) for lab, ok, _, why in res if not ok]
    if bad:
        return _no(chk, "metrics_total_inductive", "; ".join(bad))
    return _ok(chk, "metrics_total_inductive", "apalache", len(res), wall,
               statement="Alg = total, 2 callers, unbounded Incs / reads / counts: IndInv (incl. QuiescentExact, ReadsLinearizable with ghost witness, "
                         "ReadsNeverLow, ReadsMultiple, ReadsAtMost7, ReadsMonotone) is inductive, Locked in {FALSE, TRUE}")
