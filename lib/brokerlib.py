"""Shared pipeline of the broker checks (C02, C03, C04, C14, C19, C20-broker):
TLC model checking of spec/Broker, behaviour generation (tlc -simulate),
replay into the real handlers under the fake clock, trace validation by TLC."""
import json
import os
import random
import re

import vlib

SPECDIR = os.path.join(vlib.SPEC, "Broker")
RIG = sorted(os.path.join(vlib.HARNESS, "inpkg", "broker", f) for f in os.listdir(os.path.join(vlib.HARNESS, "inpkg", "broker"))
             if f.endswith("_verif_test.go"))

# The model describes the code as repaired by the "fix:" commits (DESIGN.md section 7, D1-D3).
D1_FIXED = os.environ.get("VERIF_BROKER_ASIS") != "1"
D2_FIXED = os.environ.get("VERIF_BROKER_ASIS") != "1"

ALLP = ["unrestricted", "restricted", "unknown"]
ALLC = ["unrestricted", "restricted", "unknown", "absent"]
ALLF = ["default", "b2", "unlisted"]

INVARIANTS = ["TypeOK", "NoCrossWire", "OneOfferPerPoll", "OnePollPerOffer", "ClaimsDisjoint", "RelayURLRight",
              "UnlistedNeverMatched", "NATCompatible", "NoGhost", "GaugeIsIdmap", "HeapsInIdmap", "GaugeCountsHeaps"]
# which property owns which invariant / which event kind of a rejected trace
INV_OWNER = {"NoCrossWire": "C02", "OneOfferPerPoll": "C02", "OnePollPerOffer": "C02", "ClaimsDisjoint": "C02",
             "RelayURLRight": "C02", "UnlistedNeverMatched": "C02", "NATCompatible": "C03", "MatchRight": "C03",
             "NoGhost": "C04", "GaugeIsIdmap": "C04", "HeapsInIdmap": "C04", "GaugeCountsHeaps": "C04", "TypeOK": "C04"}
EV_OWNER = {"add": "C03", "c.match": "C03",
            "c.offer": "C02", "c.sent": "C02", "w.offer": "C02", "w.forwarded": "C02", "p.got": "C02", "p.resp": "C02",
            "c.answer": "C02", "c.resp": "C02", "a.lookup": "C02",
            "w.timeout": "C04", "w.locked": "C04", "w.claimed": "C04", "c.timeout": "C04", "c.precleanup": "C04",
            "c.cleanup": "C04", "a.send": "C04", "a.sent": "C04", "a.dropped": "C04", "a.resp": "C04", "tick": "C04",
            "end": "C04", "reset": "C04", "metrics": "C19", "journal": "C19", "m.locked": "C20", "debug": "C04"}


def q(xs):
    return ", ".join('"%s"' % x for x in xs)


def cfg_text(P, C, A, strict, noties, loads, pnat, cnat, fp, unk, mode, props=(), d1=None, d2=None, pt=2, ct=2, bridges=("default", "b2"), dup=False, rejects=None):
    d1 = D1_FIXED if d1 is None else d1
    d2 = D2_FIXED if d2 is None else d2
    t = ["CONSTANTS",
         "  Proxies = {%s}" % q(P), "  Clients = {%s}" % q(C), "  Answers = {%s}" % q(A),
         "  PT = %d" % pt, "  CT = %d" % ct, "  Loads = {%s}" % ", ".join(map(str, loads)),
         "  NoTies = %s" % ("TRUE" if noties else "FALSE"), "  StrictTimers = %s" % ("TRUE" if strict else "FALSE"),
         "  D1Fixed = %s" % ("TRUE" if d1 else "FALSE"), "  D2Fixed = %s" % ("TRUE" if d2 else "FALSE"),
         "  PNatSet = {%s}" % q(pnat), "  CNatSet = {%s}" % q(cnat), "  FpSet = {%s}" % q(fp),
         "  UnknownTargets = %s" % ("TRUE" if unk else "FALSE"), "  Bridges = {%s}" % q(bridges),
         "  DupSids = %s" % ("TRUE" if dup else "FALSE"),
         "  Rejects = %s" % ("TRUE" if (rejects if rejects is not None else mode != "mc") else "FALSE"),
         "  MaxDebug = %d" % (1000000 if mode.startswith("trace") else (2 if mode == "gen" else 0)), "  None = None"]
    if mode == "mc":
        t += ["SPECIFICATION Spec", "VIEW view", "INVARIANTS " + " ".join(INVARIANTS), "PROPERTIES MatchRight " + " ".join(props)]
    elif mode == "gen":
        t += ["INIT Init", "NEXT Next", "CHECK_DEADLOCK FALSE"]
    elif mode.startswith("trace"):
        t += ["  RequireLocked = %s" % ("TRUE" if mode == "trace-locked" else "FALSE"),
              "INIT TInit", "NEXT TNext", "CONSTRAINT Mark", "POSTCONDITION Accepted", "CHECK_DEADLOCK FALSE",
              "INVARIANTS " + " ".join(INVARIANTS), "PROPERTIES MatchRight"]
    return "\n".join(t) + "\n"


def names(prefix, n):
    return ["%s%d" % (prefix, i) for i in range(1, n + 1)]


# model-checking configurations: name -> (cfg text, timeout)
def mc_configs(tier):
    c = {}
    c["MC_small"] = cfg_text(names("p", 1), names("c", 1), names("a", 1), False, False, [0, 8], ALLP, ALLC, ALLF, True, "mc",
                             props=["EveryRequestCompletes"], rejects=True)
    c["MC_core"] = cfg_text(names("p", 2), names("c", 2), names("a", 2), False, True, [0, 8], ["unrestricted"], ["restricted"],
                            ["default", "b2"], True, "mc")
    c["MC_repoll"] = cfg_text(names("p", 2), names("c", 1), names("a", 1), False, True, [0, 8], ["unrestricted"], ["restricted"],
                              ["default"], False, "mc", props=["EveryRequestCompletes"], dup=True)
    c["MC_match1"] = cfg_text(names("p", 3), names("c", 1), [], False, False, [0, 8], ALLP, ALLC, ["default"], False, "mc")
    if tier == "thorough":
        c["MC_match2"] = cfg_text(names("p", 2), names("c", 2), [], False, False, [0, 8], ALLP, ALLC, ["default"], False, "mc")
        c["MC_core_live"] = cfg_text(names("p", 2), names("c", 1), names("a", 2), False, True, [0, 8], ["unrestricted", "restricted"],
                                     ["restricted", "unrestricted"], ["default"], True, "mc", props=["EveryRequestCompletes"])
        c["MC_big"] = cfg_text(names("p", 3), names("c", 2), names("a", 2), False, True, [0, 8, 16], ["unrestricted"], ["restricted"],
                               ["default"], False, "mc")
    return c


# actions every exhaustive run must take at least once (per configuration family): vacuity guard
MUST_COVER = {"MC_small": ["ProxyRegister", "ProxyRejected", "OfferRendezvous", "WaiterForward", "WaiterTimerFire", "WaiterTimeoutLocked", "ProxyRespond",
                           "ClientMatch", "AnswerSend", "ClientGetAnswer", "ClientTimerFire", "ClientCleanup", "AnswerLookup", "Tick"],
              "MC_repoll": ["ProxyRepoll", "WaiterTimeoutLocked", "ClientCleanup"]}


def model_check(chk, tier, only=None):
    """Exhaustive TLC runs.  A violation here is a defect of the model or a
    candidate defect of the code; it is never a verdict by itself."""
    ok = True
    for name, text in mc_configs(tier).items():
        if only and name not in only:
            continue
        cover = name in MUST_COVER
        r = vlib.tlc(SPECDIR, "Broker", name + ".cfg", files={name + ".cfg": text}, timeout=2400, keep_prints=False, coverage=cover)
        chk.add_tlc(r)
        if cover and not r.error:
            zero = [a for a in MUST_COVER[name] if r.coverage.get(a, (0, 0))[1] == 0]
            chk.cov.setdefault("coverage_zero_actions", {})[name] = zero
            if zero:
                ok = False
                chk.fail("vacuity: %s never takes %s" % (name, zero))
        chk.note("TLC %s: %d distinct states, %d generated, error=%s (%.0fs)" % (name, r.distinct, r.generated, r.error, r.wall))
        if r.error and os.environ.get("VERIF_BROKER_ASIS") == "1":
            chk.note("as-is model (pinned code): %s violates %s, as expected; continuing with replay" % (name, r.error))
        elif r.error:
            ok = False
            chk.fail("model check %s: %s (the model, as repaired, must satisfy its properties)\n%s" % (name, r.error, r.out[-1500:]))
    return ok


def gen_configs():
    g = {}
    # self-reported client counts: any integers (the real proxy sends multiples of 8, others need not)
    # (a TLC configuration file cannot hold negative numbers: the model uses count + 5, see to_scenario)
    L = [0, 5, 8, 13, 20, 21, 28, 29]
    g["Gen_small"] = (cfg_text(names("p", 1), names("c", 1), names("a", 1), True, True, L, ALLP + ["absent"], ALLC, ALLF, True, "gen"), 40)
    g["Gen_core"] = (cfg_text(names("p", 2), names("c", 2), names("a", 2), True, True, L, ALLP, ALLC, ["default", "b2"], True, "gen"), 60)
    g["Gen_core_b2only"] = (cfg_text(names("p", 2), names("c", 2), names("a", 2), True, True, L, ALLP, ALLC, ALLF, True, "gen", bridges=["b2"]), 60)
    g["Gen_repoll"] = (cfg_text(names("p", 3), names("c", 2), names("a", 2), True, True, L, ["unrestricted", "restricted"],
                                ["restricted", "unrestricted"], ["default"], False, "gen", dup=True), 60)
    g["Gen_match"] = (cfg_text(names("p", 3), names("c", 2), names("a", 1), True, True, L, ALLP, ALLC, ["default"], False, "gen"), 60)
    g["Gen_big"] = (cfg_text(names("p", 3), names("c", 3), names("a", 3), True, True, L, ["unrestricted", "restricted"],
                             ["restricted", "unrestricted", "absent"], ["default", "b2"], True, "gen"), 90)
    return g


PTYPES = ["standalone", "webext", "badge", "iptproxy", "mystery"]
EXTREME_LOADS = [-9223372036854775808, -5000000000000000000, -4611686018427387905, -8, -5, 0, 3, 8, 15, 16, 23, 24,
                 2147483647, 2147483648, 4611686018427387904, 5000000000000000000, 9223372036854775807]


_POOL = None


def addr_pool():
    """Proxy addresses with the country the broker's own test GeoIP tables give them (scenario input:
    the tables are data of the repository, the country of an address is read off them, not computed by
    the code under test).  A few addresses per country, both families, and some the tables do not list."""
    global _POOL
    if _POOL is not None:
        return _POOL
    import ipaddress
    pool = []
    v4 = []
    with open(os.path.join(vlib.REPO, "broker", "test_geoip")) as fh:
        for line in fh:
            f = line.strip().split(",")
            if len(f) == 3 and f[0].isdigit():
                v4.append((int(f[0]), int(f[1]), f[2]))
    v6 = []
    with open(os.path.join(vlib.REPO, "broker", "test_geoip6")) as fh:
        for line in fh:
            f = line.strip().split(",")
            if len(f) == 3 and ":" in f[0]:
                v6.append((int(ipaddress.IPv6Address(f[0])), int(ipaddress.IPv6Address(f[1])), f[2]))

    def country(n, table):
        hits = set(c for lo, hi, c in table if lo <= n <= hi)
        return hits.pop() if len(hits) == 1 else ("??" if not hits else None)
    seen = {}
    for lo, hi, c in v4[::37]:
        if seen.get(c, 0) < 2 and len(seen) < 4 or (c in seen and seen[c] < 2):
            n = (lo + hi) // 2
            if country(n, v4) == c:
                pool.append((str(ipaddress.IPv4Address(n)), c))
                seen[c] = seen.get(c, 0) + 1
    seen6 = {}
    for lo, hi, c in v6[::53]:
        if len(seen6) < 3 and c not in seen6 and country(lo + 5, v6) == c:
            pool.append((str(ipaddress.IPv6Address(lo + 5)), c))
            seen6[c] = 1
    for a in ("192.0.2.1", "192.0.2.2"):
        if country(int(ipaddress.IPv4Address(a)), v4) == "??":
            pool.append((a, "??"))
    if country(int(ipaddress.IPv6Address("2001:db8::7")), v6) == "??":
        pool.append(("2001:db8::7", "??"))
    if len(pool) < 6:
        raise vlib.Inconclusive("cannot build an address pool from the repository's test GeoIP tables")
    _POOL = pool
    return pool


def to_scenario(sid, steps, rng, mode="replay", fresh=False):
    via, addr, ptype, cc = {}, {}, {}, {}
    for st in steps:
        items = st[1] if st[0] == "Wave" else [st]
        for it in items:
            if it[0] == "ClientMatch":
                choices = ["post", "amp"] + (["legacy"] if it[3] == "default" else [])
                via[it[1]] = rng.choice(choices)
            elif it[0] == "ProxyRegister":
                a, c = rng.choice(addr_pool())
                cc[a] = c
                addr[it[1]] = ("[%s]:%d" if ":" in a else "%s:%d") % (a, rng.randint(1024, 65000))
                ptype[it[1]] = rng.choice(PTYPES)
            elif it[0] == "ProxyRejected":
                ptype[it[1]] = rng.choice(PTYPES)
    norelay = {p: True for p in addr if rng.random() < 0.25}
    sc = {"id": sid, "mode": mode, "steps": steps, "via": via, "addr": addr, "ptype": ptype, "fresh": fresh,
          "norelayext": norelay, "rollover": rng.random() < 0.04, "cc": cc}
    # session ids that differ only in padding / case / white space (all of them distinct ids)
    sc["similarsids"] = rng.random() < 0.4
    # offers and answers with control characters, markup and runes outside the BMP (carried unchanged)
    sc["oddtext"] = rng.random() < 0.35
    # peers that hang up while their response is being written (the response writer fails after n bytes):
    # everything else about the request, and every later request, is unaffected
    if rng.random() < 0.2:
        names_ = sorted(via) + [p for p in sorted(addr) if rng.random() < 0.3]
        if names_:
            sc["abort"] = {n: rng.choice([0, 1, 17, 200, 700, 1500]) for n in rng.sample(names_, min(len(names_), rng.choice([1, 1, 2])))}
    # extreme self-reported counts: an order-preserving concretisation of the step's numbers
    if rng.random() < 0.3:
        loads = sorted(set(it[3] for st in steps for it in (st[1] if st[0] == "Wave" else [st]) if it[0] == "ProxyRegister"))
        if loads:
            pool = EXTREME_LOADS
            idx = sorted(rng.sample(range(len(pool)), min(len(loads), len(pool))))
            conc = {l: pool[idx[min(n, len(idx) - 1)]] for n, l in enumerate(loads)}
            sc["wireload"] = {it[1]: str(conc[it[3]]) for st in steps for it in (st[1] if st[0] == "Wave" else [st]) if it[0] == "ProxyRegister"}
    return sc


def generate_replays(chk, counts, seed):
    """counts: {gen config name: number of behaviours}.  Returns scenarios."""
    rng = random.Random(seed * 7919 + 1)
    scen = []
    gens = gen_configs()
    for name, num in counts.items():
        text, depth = gens[name]
        r, behs = vlib.simulate_behaviours(SPECDIR, "Broker", name + ".cfg", num, depth, seed, files={name + ".cfg": text})
        chk.add_tlc(r)
        for b in behs:
            steps = [s for s in b if s[0] != "Finished"]
            if steps:
                # model load L stands for the self-reported count L - 5 (order preserving): -5, 0, 3, 8, 15, 16, 23, 24
                sid_of, conv = {}, []
                for st in steps:
                    if st[0] == "ProxyRegister":
                        sid_of[st[1]] = st[4]
                        st = [st[0], st[1], st[2], st[3] - 5, st[4]]
                    elif st[0] == "ProxyRepoll":      # ProxyRepoll(p, nat, load, q): p polls with q's session id
                        sid_of[st[1]] = sid_of.get(st[4], st[4])
                        st = ["ProxyRegister", st[1], st[2], st[3] - 5, sid_of[st[1]]]
                    conv.append(st)
                steps = conv
                sc = to_scenario(len(scen) + 1, steps, rng)
                if name == "Gen_repoll":
                    if not any(st[0] == "ProxyRegister" and st[4] != st[1] for st in steps):
                        continue
                    # the hooks name a snowflake by its session id, so executions with a re-used id cannot be
                    # attributed event by event: they run un-gated and only their outcome is judged (every
                    # request returns, nothing is left behind - what MC_repoll establishes for the model)
                    sc["steps"] = [st for st in steps if st[0] in ("ProxyRegister", "ClientMatch", "AnswerLookup", "Tick")]
                    sc["mode"], sc["novalidate"] = "herd", True
                if name.endswith("_b2only"):
                    sc["bridges"] = ["b2"]
                scen.append(sc)
        chk.note("TLC -simulate %s: %d behaviours" % (name, len(behs)))
    return scen


def generate_herds(n, seed, first_id, debug_storm=False):
    """Un-gated same-instant herds: waves of requests released on tick boundaries,
    including exactly the instants at which proxy and client timeouts expire."""
    rng = random.Random(seed * 104729 + 3)
    scen = []
    for i in range(n):
        k = rng.choice([2, 3, 4, 6, 8, 12])
        pn, cn, an = 0, 0, 0
        steps = []
        registered = []
        for tick in range(5):
            wave = []
            if tick in (0, 1, 2):
                for _ in range(rng.randint(0, k) if tick else k):
                    pn += 1
                    nat = rng.choice(ALLP + ["unrestricted", "unrestricted", "absent"])
                    wave.append(["ProxyRegister", "p%d" % pn, nat, rng.choice([0, 0, 8, 16, 3, 15, 23, -5])])
                    registered.append("p%d" % pn)
                for _ in range(rng.choice([0, 0, 1, 2])):
                    pn += 1
                    wave.append(["ProxyRejected", "p%d" % pn])    # a poll the broker refuses (relay pattern)
            for _ in range(rng.randint(0, k)):
                cn += 1
                wave.append(["ClientMatch", "c%d" % cn, rng.choice(ALLC + ["restricted", "unknown"]), rng.choice(["default", "default", "b2", "unlisted"])])
            if tick >= 1 and registered:
                for _ in range(rng.randint(0, k)):
                    an += 1
                    wave.append(["AnswerLookup", "a%d" % an, rng.choice(registered + ["unknownSid"])])
            for _ in range(rng.choice([4, 6, 8]) if debug_storm else rng.choice([0, 0, 1, 2])):
                wave.append(["DebugPoll"])
            rng.shuffle(wave)
            if wave:
                steps.append(["Wave", wave])
            steps.append(["Tick"])
        sc = to_scenario(first_id + i, steps, rng, mode="herd")
        # every third herd runs in lock-step: all goroutines waiting at hook points are released together
        sc["barrier"] = (i % 3 == 1)
        scen.append(sc)
    return scen


def sameoffer_part(chk, owner, n, seed):
    """Herds in which all client polls are byte-identical (one offer text, one NAT type, one fingerprint,
    one encoding): each is still a request of its own.  They run in processes of their own (nothing they
    do can be attributed by content) and TLC judges the outcome counts (TOutcome of Broker_Trace)."""
    rng = random.Random(seed * 15485863 + 11)
    herds = generate_herds(n, seed + 5, 300001)
    for h in herds:
        via = rng.choice(["amp", "amp", "post", "legacy"])
        nat = rng.choice(["restricted", "unknown", "unrestricted"])
        for st in h["steps"]:
            for it in (st[1] if st[0] == "Wave" else [st]):
                if it[0] == "ClientMatch":
                    it[2], it[3] = nat, "default"
        h["via"] = {c: via for c in h["via"]}
        h["sameoffers"], h["oddtext"], h["rollover"], h["fresh"] = True, False, False, True
        h.pop("abort", None)      # a response that is not observed cannot be counted
        h["bridges"] = ["default", "b2"]
    by_sc, _ = run_rig(chk, herds, shards=min(4, max(1, n // 6)), tag="same", fresh_each=True)
    reduced = {}
    for sid, evs in by_sc.items():
        out = [e for e in evs if e["ev"] == "outcome"]
        end = [e for e in evs if e["ev"] == "end"]
        if not out or not end or end[0]["pending"]:
            continue       # hangs are reported by the ordinary herds (C04)
        reduced[sid] = [dict(e, fresh=True) for e in evs if e["ev"] == "reset"][:1] + out[:1]
    chk.cov["evaluations"] += len(herds)
    if len(reduced) < max(1, n // 2):
        raise vlib.Inconclusive("only %d of %d same-offer herds completed" % (len(reduced), n))
    findings, accepted = validate(chk, reduced)
    chk.cov["traces_validated_against_impl"] += accepted
    by_id = {h["id"]: h for h in herds}
    for sid, kind, ev in findings:
        if owner == "C02":
            chk.violation("C02/identical-polls:" + kind, "byte-identical client polls were not treated as separate requests: %s" % json.dumps(ev),
                          {"scenario": by_id[sid], "events": by_sc[sid]})
        else:
            chk.note("finding owned by C02 (not reported here): identical polls, %s" % kind)


def rollstorm_part(chk, owner, n, seed, iterations=150):
    """Herds during whose waves the measurement period ends `iterations` times in a row: every printed
    period must be consistent in itself (TMid of Broker_Trace), whatever the interleaving with the polls.
    They run in processes of their own; nothing else of them is judged."""
    herds = generate_herds(n, seed + 7, 400001)
    for h in herds:
        h["rollstorm"], h["rollover"], h["fresh"], h["barrier"] = iterations, False, True, False
        h["bridges"] = ["default", "b2"]
    by_sc, _ = run_rig(chk, herds, shards=min(8, max(1, n // 6)), tag="storm", fresh_each=True)
    reduced, mids = {}, 0
    for sid, evs in by_sc.items():
        mid = [e for e in evs if e["ev"] == "metrics-mid"]
        if not mid:
            continue
        mids += len(mid)
        reduced[sid] = [dict(e, fresh=True) for e in evs if e["ev"] == "reset"][:1] + mid
    chk.cov["evaluations"] += len(herds)
    chk.cov["periods_ended_under_load"] = chk.cov.get("periods_ended_under_load", 0) + mids
    if len(reduced) < max(1, n // 2) or mids < 2 * n:
        raise vlib.Inconclusive("period storms recorded only %d periods in %d herds" % (mids, len(reduced)))
    findings, accepted = validate(chk, reduced)
    chk.cov["traces_validated_against_impl"] += accepted
    by_id = {h["id"]: h for h in herds}
    for sid, kind, ev in findings:
        if owner == "C19":
            chk.violation("C19/period-figures-inconsistent", "a measurement period that ended while polls were being served printed figures that contradict "
                          "each other (per-country counts, per-type sets, NAT sets and total are updated in one critical section): %s" % json.dumps(ev)[:1500],
                          {"scenario": by_id[sid], "events": [e for e in by_sc[sid] if e["ev"] in ("reset", "metrics-mid")][:60]})
        else:
            chk.note("finding owned by C19 (not reported here): period figures, %s" % kind)


ORDER = []     # scenario ids in execution order (shard after shard) of the last run_rig call
CROSS = []     # shard inputs whose process died because a channel outlived its scenario (fake-clock bubble)
STUCK = []     # (scenario id, goroutine dump, shard input) of rig processes stopped by the watchdog
CRASHES = []   # (panic message, output tail, shard input file) of rig processes killed by a panic in broker code


_BIN = {}


def rig_binary(race=False):
    if race not in _BIN:
        _BIN[race] = vlib.go_test_compile_inpkg("broker", RIG, "broker-rig" + ("-race" if race else ""), go=vlib.GO_NEW, race=race)
    return _BIN[race]


def run_rig(chk, scenarios, race=False, shards=None, tag="rig", watchdog=None, fresh_each=False):
    """Execute scenarios on the real broker; returns {scenario id: [events]} and raw outputs."""
    binary = rig_binary(race)
    shards = shards or min(vlib.NCPU, max(1, len(scenarios) // 50))
    d = vlib.scratch(tag)
    # a shard is one broker process with one bridge-list configuration; scenarios without a
    # configuration of their own are spread over the configurations (2/3 default + b2, 1/3 b2 only)
    groups = {}
    for n, s_ in enumerate(scenarios):
        if s_.get("bridges") is None:
            s_["bridges"] = ["b2"] if (n % 3 == 2 and not fresh_each) else ["default", "b2"]
        groups.setdefault(tuple(s_["bridges"]), []).append(s_)
    parts = []
    for key, group in sorted(groups.items()):
        k = max(1, round(shards * len(group) / max(1, len(scenarios))))
        parts += [group[i::k] for i in range(k)]
    jobs = []
    for i, part in enumerate(parts):
        if not part:
            continue
        part = [dict(s) for s in part]
        part[0]["fresh"] = True
        if fresh_each:
            for s_ in part:
                s_["fresh"] = True
        inp, outp = os.path.join(d, "in-%d.ndjson" % i), os.path.join(d, "out-%d.ndjson" % i)
        vlib.write_ndjson(inp, part)

        def job(inp=inp, outp=outp):
            env = vlib.goenv({"VERIF_IN": inp, "VERIF_OUT": outp, "GODEBUG": "asynctimerchan=0", "VERIF_WATCHDOG": watchdog or "20s",
                                "VERIF_GEOIP": os.path.join(vlib.REPO, "broker")})
            r = vlib.run([binary, "-test.run", "TestVerifBrokerScenarios", "-test.timeout", "600s"], cwd=d, env=env, timeout=700)
            return r, outp
        jobs.append(job)
    by_sc = {}
    outputs = []
    del CROSS[:]
    ORDER.clear()
    for n, part in enumerate(parts):
        ORDER.extend(s_["id"] for s_ in part)
        for s_ in part:
            BRIDGES_OF[s_["id"]] = tuple(s_["bridges"])
            SHARD_OF[s_["id"]] = n
    for r, outp in vlib.run_parallel(jobs):
        outputs.append(r.out)
        if r.rc == 7 and os.path.exists(outp):
            # watchdog: nothing happened for 20 s of real time under the fake clock
            for ev in vlib.read_ndjson(outp):
                if ev.get("ev") == "stuck":
                    STUCK.append((ev["sc"], ev["stacks"], outp.replace("out-", "in-")))
        elif "synctest channel from outside bubble" in r.out or "from outside bubble" in r.out:
            # an object created during an earlier scenario (with its channels) is still in use:
            # this shard must be re-run with a new BrokerContext per scenario
            CROSS.append(outp.replace("out-", "in-"))
            continue
        elif r.timed_out or r.rc != 0:
            m = re.search(r"^(?:panic|fatal error): (.*)$", r.out, re.M)
            if m and "synctest" not in m.group(1) and product_crash(r.out[m.start():]):
                # a goroutine of the broker itself panicked: in production this terminates the broker
                CRASHES.append((m.group(1), r.out[-2500:], outp.replace("out-", "in-")))
            elif not (race and "WARNING: DATA RACE" in r.out):
                raise vlib.Inconclusive("broker rig failed (rc=%s timeout=%s):\n%s" % (r.rc, r.timed_out, r.out[-3000:]))
        if os.path.exists(outp):
            for ev in vlib.read_ndjson(outp):
                if ev.get("ev") != "stuck":
                    by_sc.setdefault(ev["sc"], []).append(ev)
    if CROSS and not fresh_each:
        redo = []
        for inp in CROSS:
            redo += vlib.read_ndjson(inp)
        chk.note("%d scenarios re-run with a new BrokerContext each (broker objects outlived their scenario)" % len(redo))
        for s_ in redo:
            by_sc.pop(s_["id"], None)
        order = list(ORDER)
        more, outs2 = run_rig(chk, redo, race=race, shards=shards, tag=tag + "-fresh", watchdog=watchdog, fresh_each=True)
        by_sc.update(more)
        outputs += outs2
        ORDER[:] = [i for i in order if i not in more] + [i for i in ORDER]
    return by_sc, outputs


def used_names(events):
    P, C, A = set(), set(), set()
    for ev in events:
        for k, S in (("p", P), ("c", C), ("a", A)):
            v = ev.get(k)
            if isinstance(v, str) and v and not v.startswith("?"):
                S.add(v)
        if ev.get("ev") == "c.match" and ev.get("root"):
            P.add(ev["root"])
        if ev.get("ev") == "p.resp" and ev.get("client"):
            C.add(ev["client"])
        if ev.get("ev") == "a.lookup" and ev.get("sid") and ev["sid"] != "unknownSid":
            P.add(ev["sid"])
    return sorted(P), sorted(C), sorted(A)


def product_crash(text):
    """text starts at the 'panic:' / 'fatal error:' line.  True when the innermost non-runtime frame of the
    goroutine that died is broker code (not rig code): the broker itself crashed."""
    stack = text.split("\n\n", 2)
    stack = stack[1] if len(stack) > 1 else ""
    for fn in re.findall(r"^(\S+)\(", stack, re.M):
        if fn.startswith(("runtime.", "runtime/", "internal/", "sync.", "sync/", "container/", "sort.", "reflect.", "panic")):
            continue
        name = fn.rsplit("/", 1)[-1]
        return name.startswith("broker.") and "vRig" not in name and ".v" not in name[:9] and "TestVerif" not in name
    return False


def stuck_signature(stacks):
    """From a goroutine dump: which broker functions wait for a mutex and which sit in a channel operation."""
    lock, chan = set(), set()
    for g in stacks.split("\n\n"):
        fns = re.findall(r"^(\S+)\(", g, re.M)
        broker = [f.rsplit("/", 1)[-1] for f in fns if "/broker." in f and "vRig" not in f and ".v" not in f.rsplit("/", 1)[-1][:9] and "TestVerif" not in f]
        if not broker:
            continue
        head = g.split("\n", 1)[0]
        if "sync.Mutex.Lock" in head or "semacquire" in head or any("sync.(*Mutex).Lock" in f for f in fns[:4]):
            lock.add(broker[0])
        elif "chan send" in head or "chan receive" in head or "select" in head:
            chan.add(broker[0])
    sig = "stuck:mutex-wait[%s]/chan-wait[%s]" % (",".join(sorted(lock)), ",".join(sorted(chan)))
    return sig, "goroutines waiting for a mutex: %s; goroutines in a channel operation: %s" % (sorted(lock), sorted(chan))


def hang_signature(events, pending):
    parts = []
    for n in pending:
        last = "start"
        for ev in events:
            if ev["ev"].endswith(".resp"):
                continue
            if n in (ev.get("c"), ev.get("a")) or (ev.get("p") == n and ev["ev"] in ("add", "p.got", "w.locked", "w.timeout", "w.offer", "w.forwarded", "w.claimed")):
                last = ev["ev"]
                if ev["ev"] == "w.locked":
                    last += "(popped)" if ev.get("popped") else "(waiting)"
        role = {"p": "poll", "c": "client", "a": "answer"}.get(n[0], n)
        parts.append("%s@%s" % (role, last))
    return "hang:" + "+".join(sorted(set(parts)))


VALIDATORS = 8    # trace-validation JVMs run in parallel
SHARD_OF = {}     # scenario id -> index of the shard (broker process) that executed it
BRIDGES_OF = {}   # scenario id -> configured bridge list of the shard that executed it


MAX_TRACE_EVENTS = 25000    # TLC handles behaviours of at most 65535 states; an event is one state plus up to two silent steps


def validate(chk, by_sc, locked=False, max_rounds=12, bridges=None, start_resync=False):
    """TLC trace validation of all scenarios in one JVM; returns a list of
    findings (scenario id, kind, detail) where kind is 'reject:<event>' or
    'inv:<Invariant>'.  Scenarios that fail are removed and the rest re-checked."""
    if bridges is None:
        # an event that names a session id, offer or answer nobody sent cannot be a behaviour of the model
        pre = []
        for sid in sorted(by_sc):
            for e in by_sc[sid]:
                if any(isinstance(e.get(k), str) and e[k].startswith("?") for k in ("p", "c", "a", "root", "client", "sid")):
                    pre.append((sid, "identity:" + e["ev"], e))
                    break
        if pre:
            by_sc = {k: v for k, v in by_sc.items() if k not in set(x[0] for x in pre)}
            f, a = validate(chk, by_sc, locked=locked, max_rounds=max_rounds)
            return pre + f, a
        # one TLC run per bridge-list configuration and per group of shards (shards are independent
        # executions, each starting with a new BrokerContext), several JVMs in parallel
        cfgs = {}
        for sid in by_sc:
            key = (tuple(BRIDGES_OF.get(sid, ("default", "b2"))), SHARD_OF.get(sid, 0) % VALIDATORS)
            cfgs.setdefault(key, {})[sid] = by_sc[sid]
        jobs = [(lambda key=key, part=part: validate(chk, part, locked=locked, max_rounds=max_rounds, bridges=list(key[0])))
                for key, part in sorted(cfgs.items())]
        findings, accepted = [], 0
        for f, a in vlib.run_parallel(jobs, workers=VALIDATORS):
            findings += f
            accepted += a
        return findings, accepted
    findings = []
    pos = {sid: n for n, sid in enumerate(ORDER)}
    ids = sorted(by_sc, key=lambda x: pos.get(x, x))
    if sum(len(by_sc[i]) for i in ids) > MAX_TRACE_EVENTS and len(ids) > 1:
        # too long for one behaviour: consecutive pieces, each starting with unknown counts
        # (the metrics of a piece's first scenarios are not judged until a new BrokerContext starts)
        accepted, piece, size, first = 0, {}, 0, True
        for i in ids + [None]:
            if i is None or (piece and size + len(by_sc[i]) > MAX_TRACE_EVENTS):
                f, a = validate(chk, piece, locked=locked, max_rounds=max_rounds, bridges=bridges, start_resync=start_resync or not first)
                findings += f
                accepted += a
                piece, size, first = {}, 0, False
            if i is not None:
                piece[i] = by_sc[i]
                size += len(by_sc[i])
        return findings, accepted
    accepted = 0
    resync = start_resync
    prev = None
    for _ in range(max_rounds):
        if not ids:
            break
        events = []
        for i in ids:
            evs = [dict(e) for e in by_sc[i]]
            # counts carried over from a scenario that is not part of this trace are unknown
            gap = prev is not None and pos.get(i, -1) != pos.get(prev, -2) + 1
            for e in evs:
                if e["ev"] == "reset":
                    e["resync"] = bool((resync or gap) and not e.get("fresh"))
                    e.setdefault("rollover", False)
            resync = False
            prev = i
            events += evs
        P, C, A = used_names(events)
        cfg = cfg_text(P or ["p1"], C or ["c1"], A or ["a1"], False, False, [0], ALLP, ALLC, ALLF, True,
                       "trace-locked" if locked else "trace", bridges=bridges)
        trace = "\n".join(json.dumps(e, separators=(",", ":")) for e in events) + "\n"
        r = vlib.tlc(SPECDIR, "Broker_Trace", "T.cfg", workers=1, files={"T.cfg": cfg, "trace.ndjson": trace},
                     timeout=600 if getattr(chk, "tier", "quick") == "quick" else 1800)   # normal: seconds (quick), minutes (thorough)
        chk.add_tlc(r)
        if r.error is None:
            accepted += len(ids)
            break
        bad = None
        if r.error == "postcondition" or any("rejected_at" in p for p in r.prints if isinstance(p, dict)):
            rej = [p for p in r.prints if isinstance(p, dict) and "rejected_at" in p]
            if not rej:
                raise vlib.Inconclusive("trace validation failed without a position:\n" + r.out[-2000:])
            ev = rej[-1]["event"]
            bad = ev["sc"]
            kind = "reject:" + ev["ev"]
            if ev["ev"] == "add":
                # a second registration under the name of a proxy that is already registered: the broker
                # took one session id for another (identities are C02's business, not the pool's)
                adds = [e for e in by_sc[bad] if e["ev"] == "add" and e.get("p") == ev.get("p")]
                if len(adds) > 1:
                    kind = "identity:add"
            findings.append((bad, kind, ev))
        elif r.error.startswith("invariant:") or r.error.startswith("actionprop:"):
            pos = [int(x) for x in re.findall(r"^/\\ l = (\d+)", r.out, re.M)]
            if not pos:
                raise vlib.Inconclusive("invariant violation without a position:\n" + r.out[-2000:])
            ev = events[min(max(pos) - 2, len(events) - 1)]
            bad = ev["sc"]
            findings.append((bad, "inv:" + r.error.split(":", 1)[1], ev))
        else:
            raise vlib.Inconclusive("trace validation: unexpected TLC result %s\n%s" % (r.error, r.out[-2000:]))
        accepted += ids.index(bad)
        ids = ids[ids.index(bad) + 1:]
        resync, prev = True, None
    return findings, accepted


def nontrivial(steps):
    """A behaviour is non-trivial when a timer expiry is adjacent to a racing
    step of another request, or it contains a late/duplicate answer."""
    flat = []
    for s in steps:
        flat.append(s[0])
    return any(x in flat for x in ("WaiterTimerFire", "ClientTimerFire", "Wave")) or flat.count("AnswerLookup") > 1


def pipeline(chk, owner, tier, seed, counts=None, herds=None, do_mc=True, mc_only=None, shards=None):
    """Run model checking, replays, herds and trace validation; report the
    findings that belong to property `owner` (C02 / C03 / C04)."""
    if do_mc:
        if not model_check(chk, tier, only=mc_only):
            return
    q_ = tier == "quick"
    counts = counts or ({"Gen_small": 200, "Gen_core": 500, "Gen_core_b2only": 150, "Gen_match": 300, "Gen_big": 350, "Gen_repoll": 200} if q_
                        else {"Gen_small": 800, "Gen_core": 4000, "Gen_core_b2only": 800, "Gen_match": 2000, "Gen_big": 4000, "Gen_repoll": 1500})
    scen = generate_replays(chk, counts, seed)
    nh = herds if herds is not None else (90 if q_ else 900)
    scen += generate_herds(nh, seed, len(scen) + 1)
    by_id = {s["id"]: s for s in scen}
    by_sc, _ = run_rig(chk, scen, shards=shards)
    chk.cov["evaluations"] += len(scen)
    distinct = set()
    for s in scen:
        if nontrivial(s["steps"]):
            distinct.add(json.dumps(s["steps"]))
    chk.cov["distinct_nontrivial"] += len(distinct)
    for s in scen[:1] + scen[-1:]:
        chk.sample({"scenario": s, "recorded_events": by_sc.get(s["id"], [])[:12]})
    if STUCK:
        sid, stacks, inp = STUCK[0]
        sig, what = stuck_signature(stacks)
        if owner == "C04":
            # confirm by an isolated re-run with a doubled limit
            del STUCK[:]
            sc = dict(by_id[sid], fresh=True)
            run_rig(chk, [sc], shards=1, tag="stuck-confirm", watchdog="40s")
            if STUCK:
                sig, what = stuck_signature(STUCK[0][1])
                chk.violation("C04/" + sig, "the broker made no progress for 40 s of real time under the fake clock: " + what, {"scenario": sc, "stacks": STUCK[0][1][:8000]})
                return
            raise vlib.Inconclusive("a stuck scenario (%s) did not reproduce in isolation" % sig)
        chk.note("the broker got stuck during replay (reported by C04): %s; continuing with what was recorded" % sig)
    if CRASHES:
        msg, tail, inp = CRASHES[0]
        if owner == "C04":
            chk.violation("C04/crash:" + re.sub(r"\[recovered\].*|0x[0-9a-f]+|\d+", "", msg).strip()[:80],
                          "a goroutine of the broker panicked (the process would terminate): %s" % msg,
                          {"shard": vlib.read_ndjson(inp) if os.path.exists(inp) else None, "output": tail})
            return
        chk.note("the broker crashed during replay (reported by C04): %s; continuing with what was recorded" % msg)
    # hangs and divergences are observed directly
    ok_sc = {}
    diverged = 0
    for sid, evs in sorted(by_sc.items()):
        end = [e for e in evs if e["ev"] == "end"]
        if not end:
            if CRASHES or STUCK:
                if not by_id[sid].get("novalidate"):
                    ok_sc[sid] = [e for e in evs if e["ev"] != "stuck"]   # the recorded prefix of the scenario that killed the process
                continue
            raise vlib.Inconclusive("scenario %s has no end event" % sid)
        if end[0].get("diverged"):
            diverged += 1
        if end[0]["pending"]:
            if owner == "C04":
                chk.violation("C04/" + hang_signature(evs, end[0]["pending"]) + ("/repolled-sid" if by_id[sid].get("novalidate") else ""),
                              "requests %s never returned (fake clock advanced 25 s past the last step)" % end[0]["pending"],
                              {"scenario": by_id[sid], "events": evs})
            if not by_id[sid].get("novalidate"):
                # what happened before the hang is still judged (C02 / C03 invariants on the recorded prefix)
                ok_sc[sid] = [e for e in evs if e["ev"] not in ("end", "metrics", "journal")]
            continue
        if by_id[sid].get("novalidate"):
            e = end[0]
            if owner == "C04" and (e["avail"] != 0 or e["gauge"] != 0 or e["heaps"] != 0 or any(k != "noproxies" for k in e["fresh"])):
                chk.violation("C04/ghost/repolled-sid", "registrations left behind after every request returned: /debug %s, gauge %s, heaps %s, fresh clients %s" % (
                    e["avail"], e["gauge"], e["heaps"], e["fresh"]), {"scenario": by_id[sid], "events": evs})
            continue
        ok_sc[sid] = evs
    missing = set(by_id) - set(by_sc)
    if missing and not CRASHES and not STUCK:
        raise vlib.Inconclusive("%d scenarios produced no trace" % len(missing))
    chk.cov["replay_divergences"] = diverged
    findings, accepted = validate(chk, ok_sc)
    chk.cov["traces_validated_against_impl"] += accepted
    for sid, kind, ev in findings:
        if kind.startswith("inv:"):
            own = INV_OWNER.get(kind[4:], "C04")
        elif kind.startswith("identity:"):
            own = "C02"    # the broker shows a session id, offer or answer that nobody sent: identities are C02's business
        else:
            own = EV_OWNER.get(kind[7:], "C04")
        if own == owner:
            chk.violation("%s/%s" % (owner, kind), "recorded execution is not a behaviour of spec/Broker: %s at event %s" % (kind, json.dumps(ev)),
                          {"scenario": by_id[sid], "events": by_sc[sid]})
        else:
            chk.note("finding owned by %s (not reported here): %s in scenario %s" % (own, kind, sid))
    if owner == "C02":
        sameoffer_part(chk, owner, 16 if q_ else 120, seed)
    if owner == "C19":
        rollstorm_part(chk, owner, 48 if q_ else 400, seed)
    chk.cov["rule"] = ("behaviours: tlc -simulate of spec/Broker generation configs (gated replay) plus seeded same-instant herds; "
                       "non-trivial = contains a proxy/client timer expiry or a herd wave or more than one answer; distinct by step list")
    chk.assumptions += ["fake clock of testing/synctest (go1.26.8, asynctimerchan=0): time advances only when every goroutine is blocked",
                        "session ids are pairwise distinct (property quantifier)",
                        "handlers are driven through ServeHTTP with a recorder, not over TCP"]


def replay(chk, owner, path):
    with open(path) as fh:
        rp = json.load(fh)["replay"]
    sc = dict(rp["scenario"])
    sc["fresh"] = True
    if sc.get("rollstorm"):
        # the interleaving of the period ends with the polls is the machine's: the scenario is repeated
        reps = [dict(json.loads(json.dumps(sc)), id=sc["id"] + n) for n in range(24)]
        by_sc, _ = run_rig(chk, reps, shards=4, tag="storm-replay", fresh_each=True)
        reduced = {sid: [dict(e, fresh=True) for e in evs if e["ev"] == "reset"][:1] + [e for e in evs if e["ev"] == "metrics-mid"]
                   for sid, evs in by_sc.items() if any(e["ev"] == "metrics-mid" for e in evs)}
        chk.cov["evaluations"] += len(reps)
        findings, accepted = validate(chk, reduced)
        chk.cov["traces_validated_against_impl"] += accepted
        for sid, kind, ev in findings[:1]:
            chk.violation("C19/period-figures-inconsistent", "a measurement period that ended while polls were being served printed figures that contradict each other: %s" % json.dumps(ev)[:1500],
                          {"scenario": sc, "events": [e for e in by_sc[sid] if e["ev"] in ("reset", "metrics-mid")][:60]})
        return
    by_sc, _ = run_rig(chk, [sc], shards=1)
    evs = by_sc.get(sc["id"], [])
    end = [e for e in evs if e["ev"] == "end"]
    chk.cov["evaluations"] += 1
    if end and end[0]["pending"]:
        if owner == "C04":
            chk.violation("C04/" + hang_signature(evs, end[0]["pending"]), "requests %s never returned" % end[0]["pending"], {"scenario": sc, "events": evs})
        return
    if sc.get("sameoffers"):
        # byte-identical client polls: only the outcome counts are judged (TOutcome)
        evs_full = evs
        evs = [dict(e, fresh=True) for e in evs if e["ev"] == "reset"][:1] + [e for e in evs if e["ev"] == "outcome"][:1]
        findings, accepted = validate(chk, {sc["id"]: evs})
        chk.cov["traces_validated_against_impl"] += accepted
        for sid, kind, ev in findings:
            chk.violation("C02/identical-polls:" + kind, "byte-identical client polls were not treated as separate requests: %s" % json.dumps(ev),
                          {"scenario": sc, "events": evs_full})
        return
    findings, accepted = validate(chk, {sc["id"]: evs})
    chk.cov["traces_validated_against_impl"] += accepted
    for sid, kind, ev in findings:
        chk.violation("%s/%s" % (owner, kind), "recorded execution is not a behaviour of spec/Broker: %s at %s" % (kind, json.dumps(ev)), {"scenario": sc, "events": evs})


def twin_equivalence(chk, prop, via, counts, seed):
    """The same gated behaviours executed twice: every client poll sent through
    encoding `via` ("amp" / "legacy") and as a versioned POST.  Replays are
    deterministic, so every response must be identical; a difference is a
    violation of the endpoint-equivalence clause of `prop`."""
    scen = generate_replays(chk, counts, seed)
    a_runs, b_runs = [], []
    for s_ in scen:
        a = json.loads(json.dumps(s_))
        a["rollover"] = False
        a["bridges"] = a.get("bridges") or ["default", "b2"]   # both runs of a pair use the same configuration
        fps = {}
        for st in s_["steps"]:
            if st[0] == "ClientMatch":
                fps[st[1]] = st[3]
        a["via"] = {c: (via if (via != "legacy" or fps.get(c) == "default") else "post") for c in s_["via"]}
        b = json.loads(json.dumps(a))
        b["id"] = a["id"] + 100000
        b["via"] = {c: "post" for c in s_["via"]}
        a_runs.append(a)
        b_runs.append(b)
    by_sc, _ = run_rig(chk, a_runs + b_runs)

    def responses(evs):
        out = {}
        for e in evs:
            if e["ev"].endswith(".resp"):
                out[e.get("c") or e.get("p") or e.get("a")] = {k: v for k, v in e.items() if k not in ("sc", "via")}
        return out
    n = 0
    for a in a_runs:
        ra, rb = responses(by_sc.get(a["id"], [])), responses(by_sc.get(a["id"] + 100000, []))
        if not any(v == via for v in a["via"].values()):
            continue
        n += 1
        for name in sorted(set(ra) | set(rb)):
            if ra.get(name) != rb.get(name):
                chk.violation("%s/equivalence:%s/%s" % (prop, via, (ra.get(name) or rb.get(name) or {}).get("kind", "?")),
                              "the same exchange answers differently when client polls use the %s encoding: %s, versioned POST: %s" % (
                                  via, json.dumps(ra.get(name)), json.dumps(rb.get(name))),
                              {"scenario": a, "events": by_sc.get(a["id"]), "twin_events": by_sc.get(a["id"] + 100000)})
                break
    chk.cov["evaluations"] += 2 * n
    chk.cov["distinct_nontrivial"] += n
    chk.note("%s twin runs (%s vs POST): %d behaviours compared" % (prop, via, n))
    return n
