----------------------------- MODULE BrokerHTTP -----------------------------
(* The HTTP layer of the broker: broker/http.go, broker/amp.go and the route
   table of main().  A request is a record of abstract classes; Expected(req)
   is the response the protocol documents for it (status code, class of the
   body, whether the request waits for the 10 s protocol timeout first, and
   whether it leaves a registration behind while it waits).

   The contract of C14: EVERY request gets a response record - there is no
   class for which Expected is undefined - and a request that is refused
   (status >= 400, or an error body) leaves the matching state untouched.
   LegacyEquivalent: the legacy client format maps the outcome of its
   versioned twin onto status codes (answer -> 200 raw answer, no proxies ->
   503, timed out -> 504, any other error -> 400).

   Cases are enumerated as TLC initial states; Emit prints them with the
   expected response.  The Go rig concretises the classes, calls the real
   handlers through ServeHTTP under the fake clock (and, in the thorough tier,
   the real binary over TCP) and reports what it observed. *)
EXTENDS Integers, Sequences, FiniteSets, TLC, Json

Endpoints == {"proxy", "client", "answer", "amp", "debug", "metrics", "prometheus", "robots"}
Methods == {"GET", "POST", "OPTIONS", "PUT", "HEAD"}

ProxyBodies == {"empty", "valid", "validNoRelayField", "rejectedPattern", "missingSid", "badVersion", "invalidNAT",
                "unknownType", "negativeClients", "notJSON", "jsonArray", "random", "atLimit", "overLimit"}
ClientBodies == {"empty", "valid", "validB2", "badVersion", "noNewline", "noOffer", "badFingerprint", "shortFingerprint",
                 "unlistedFingerprint", "invalidNAT", "notJSON", "legacy", "legacyGarbage", "random", "atLimit", "overLimit"}
AnswerBodies == {"empty", "validUnknownSid", "missingAnswer", "missingSid", "badVersion", "notJSON", "random", "atLimit", "overLimit"}
AmpPaths == {"valid", "validPadded", "validSlashes", "badBase64", "missingVersion", "wrongVersion", "emptyPath",
             "pollBadVersion", "pollInvalidNAT", "pollUnlistedFingerprint", "noPrefix"}
NatHeaders == {"absent", "unknown", "restricted", "unrestricted", "empty", "bogus"}
MetricsFiles == {"none", "present", "missing"}
Framings == {"length", "chunked"}   \* Content-Length known, or Transfer-Encoding: chunked / HTTP/2 without a length (ContentLength = -1)

Bodies(e) == CASE e = "proxy" -> ProxyBodies [] e = "client" -> ClientBodies [] e = "answer" -> AnswerBodies
               [] e = "amp" -> AmpPaths [] OTHER -> {"empty", "random"}

VARIABLE req
vars == <<req>>

Requests ==
  {[ep |-> e, method |-> m, body |-> b, nat |-> h, mfile |-> f, framing |-> fr] :
      e \in Endpoints, m \in Methods, b \in ProxyBodies \cup ClientBodies \cup AnswerBodies \cup AmpPaths \cup {"empty", "random"},
      h \in NatHeaders, f \in MetricsFiles, fr \in Framings}

Relevant(r) ==
  /\ r.body \in Bodies(r.ep)
  /\ (r.nat # "absent" => r.ep = "client")                   \* the header only matters to /client
  /\ (r.mfile # "none" => r.ep = "metrics")
  /\ (r.framing = "chunked" => (r.ep \in {"proxy", "client", "answer"} /\ r.method \in {"POST", "PUT"} /\ r.nat \in {"absent", "bogus"}))
  /\ (r.ep = "metrics" => r.body = "empty")
  /\ (r.ep \in {"debug", "prometheus", "robots"} => r.body = "empty" \/ r.method = "POST")

Init == req \in {r \in Requests : Relevant(r)}
Next == UNCHANGED vars

R(status, body, waits, registers) == [status |-> status, body |-> body, waits |-> waits, registers |-> registers]

ClientOutcome(b) ==   \* outcome class of a versioned client poll with no proxy waiting
  CASE b \in {"valid", "validB2", "atLimit"} -> "noproxies"
    [] b \in {"empty", "badVersion", "noNewline", "random"} -> "err:version"
    [] b = "noOffer" -> "err:offer"
    [] b \in {"badFingerprint", "shortFingerprint"} -> "err:fingerprint"
    [] b = "invalidNAT" -> "err:nat"
    [] b = "notJSON" -> "err:json"
    [] b = "unlistedFingerprint" -> "internal"
    [] OTHER -> "err:other"

(* Legacy: body starts with '{'; the offer is the whole body, the NAT type
   comes from the header, the bridge is the default one. *)
LegacyOutcome(h) == IF h \in {"bogus"} THEN "err:nat" ELSE "noproxies"
LegacyStatus(outcome) ==
  CASE outcome = "answer" -> 200 [] outcome = "noproxies" -> 503 [] outcome = "timeout" -> 504 [] OTHER -> 400

Expected(r) ==
  IF r.ep \in {"proxy", "client", "answer", "amp", "debug", "metrics"} /\ r.method = "OPTIONS" THEN R(200, "empty", FALSE, FALSE)
  ELSE CASE r.ep = "proxy" ->
         (CASE r.body \in {"valid", "validNoRelayField", "unknownType", "negativeClients", "atLimit"} -> R(200, "nomatch", TRUE, TRUE)
            [] r.body = "rejectedPattern" -> R(200, "status:incorrect relay pattern", FALSE, FALSE)
            [] OTHER -> R(400, "empty", FALSE, FALSE))
    [] r.ep = "client" ->
         (IF r.body = "overLimit" THEN R(400, "empty", FALSE, FALSE)
          ELSE IF r.body \in {"legacy", "legacyGarbage"}
          THEN R(LegacyStatus(LegacyOutcome(r.nat)), "empty", FALSE, FALSE)
          ELSE IF ClientOutcome(r.body) = "internal" THEN R(500, "empty", FALSE, FALSE)
          ELSE R(200, ClientOutcome(r.body), FALSE, FALSE))
    [] r.ep = "answer" ->
         (IF r.body \in {"validUnknownSid", "atLimit"} THEN R(200, "gone", FALSE, FALSE) ELSE R(400, "empty", FALSE, FALSE))
    [] r.ep = "amp" ->
         (CASE r.body \in {"valid", "validPadded", "validSlashes"} -> R(200, "amp:noproxies", FALSE, FALSE)
            [] r.body \in {"badBase64", "missingVersion", "wrongVersion", "emptyPath"} -> R(200, "amp:err:path", FALSE, FALSE)
            [] r.body = "pollBadVersion" -> R(200, "amp:err:version", FALSE, FALSE)
            [] r.body = "pollInvalidNAT" -> R(200, "amp:err:nat", FALSE, FALSE)
            [] r.body = "pollUnlistedFingerprint" -> R(500, "empty", FALSE, FALSE)
            [] r.body = "noPrefix" -> R(500, "empty", FALSE, FALSE))
    [] r.ep = "debug" -> R(200, "debug", FALSE, FALSE)
    [] r.ep = "metrics" -> (IF r.mfile = "present" THEN R(200, "metricsfile", FALSE, FALSE) ELSE R(404, "any", FALSE, FALSE))
    [] r.ep = "prometheus" -> R(200, "any", FALSE, FALSE)
    [] r.ep = "robots" -> R(200, "robots", FALSE, FALSE)

(* C14 on the model: the response record is total and well-formed. *)
Total == Expected(req).status \in 100..599
RefusedTouchesNothing == Expected(req).status >= 400 => ~Expected(req).registers
LegacyEquivalent ==   \* the legacy status is a function of the versioned twin's outcome
  (req.ep = "client" /\ req.body = "legacy" /\ req.method # "OPTIONS") =>
     Expected(req).status = LegacyStatus(IF req.nat = "bogus" THEN ClientOutcome("invalidNAT") ELSE ClientOutcome("valid"))

Emit == PrintT(ToJson([req |-> req, expect |-> Expected(req)]))
=============================================================================
