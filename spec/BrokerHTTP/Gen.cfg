INIT Init
NEXT Next
INVARIANTS Total RefusedTouchesNothing LegacyEquivalent Emit
CHECK_DEADLOCK FALSE
