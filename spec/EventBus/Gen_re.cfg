CONSTANTS
  Listeners = {1, 4, 5, 6}
  Kind <- KindStd
  Dispatchers = {1, 2}
  MaxDispatch = 2
  Mutators = {11}
  MaxMutate = 3
  MaxLen = 3
  Mut = "none"
SPECIFICATION GenSpec
INVARIANTS TypeOK LockOK LockedStable DeliveryLaw RegistrationOrder
CHECK_DEADLOCK FALSE
