CONSTANTS
  Listeners = {1, 2, 3}
  Kind <- KindStd
  Dispatchers = {1, 2}
  MaxDispatch = 1
  Mutators = {11}
  MaxMutate = 3
  MaxLen = 3
  Mut = "none"
SPECIFICATION GenSpec
INVARIANTS TypeOK LockOK LockedStable DeliveryLaw RegistrationOrder PanicReleasesLock NoStuck
CHECK_DEADLOCK FALSE
