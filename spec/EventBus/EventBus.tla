------------------------------ MODULE EventBus ------------------------------
(* common/event/bus.go: the event dispatcher used by the client (client/lib
   Transport -> WebRTCDialer -> every WebRTCPeer) and by the proxy
   (SnowflakeProxy.EventDispatcher -> every webRTCConn).

     eventBus{lock *sync.Mutex, listeners []SnowflakeEventReceiver}
       OnNewSnowflakeEvent(e)           Lock; defer Unlock; for _, v := range listeners { v.OnNewSnowflakeEvent(e) }
       AddSnowflakeEventListener(r)     Lock; defer Unlock; listeners = append(listeners, r)
       RemoveSnowflakeEventListener(r)  Lock; defer Unlock; listeners = every element != r

   Processes: dispatcher goroutines (in the client: connectLoop, pion's OnOpen
   / OnError callbacks, checkForStaleness; in the proxy: pion's OnClose
   callback of every connection - several at once), mutator goroutines calling
   Add / Remove (client/snowflake.go and proxy/main.go call Add once, before
   the first event; library users may call both at any time through
   Transport.Add/RemoveSnowflakeEventListener), and the listeners' callbacks,
   which run ON THE DISPATCHER'S GOROUTINE WHILE IT HOLDS THE LOCK.

   Kind[x] says what listener x does in its callback:
     "plain"       records the event and returns      (ptEventLogger, logEventLogger)
     "gated"       records, then takes a while (environment step Release) - a
                   slow pt.Log; the interface says "MUST not block": it returns
     "panic"       records, then panics (ptEventLogger on an event whose
                   String() panics): the deferred Unlock runs, the panic goes
                   to the dispatcher's caller, later listeners are skipped
     "reAdd" | "reRemove" | "reDispatch"
                   records, then calls Add / Remove / OnNewSnowflakeEvent of the
                   SAME bus from inside the callback.  sync.Mutex is not
                   re-entrant: the goroutine parks in Lock for ever while
                   holding the lock - the bus is wedged for every later caller
                   (Go's runtime only reports "all goroutines are asleep" when
                   really every goroutine is blocked).  No listener in the
                   repository does this; the what-if configurations document it
                   and the replay confirms it on the real code.

   What the code promises (and this module states):
   * mutual exclusion: the listener list is read and written under the lock
     only, and callbacks of different events never overlap (LockOK);
   * an event is delivered to exactly the listeners registered when its
     dispatcher acquired the lock - which is the registration throughout the
     dispatch, because nobody can change it meanwhile (LockedStable) - one
     delivery per registration, in registration order (DeliveryLaw,
     RegistrationOrder; a receiver added twice is called twice);
     [the interface comment says "the order each listener is called is
      undefined"; the implementation is registration order and the work
      package asks for it, so it is stated - as a property of bus.go, not of
      the interface]
   * Add appends; Remove deletes every registration of the receiver and is a
     no-op for an unknown one (RemoveLaw, by construction of MDo);
   * a panicking listener does not wedge the bus (PanicReleasesLock);
   * for the usage patterns of the repository (kinds plain / gated / panic)
     every call returns: DispatchReturns, MutateReturns under WF of every step,
     SF of the lock acquisitions (sync.Mutex does not starve) and the
     listeners' obligation to return; safety shadow NoStuck;
   * NoWedge (no goroutine parked in Lock inside a callback) holds for those
     kinds and is violated by the re-entrant ones.

   What-if constant Mut (vacuity guards; "none" = the code):
     "nolock"       OnNewSnowflakeEvent without the lock
     "snapshot"     copy the list under the lock, unlock, then call
     "prepend"      Add puts the receiver in front
     "removefirst"  Remove deletes only the first registration
     "nodefer"      Unlock after the loop instead of defer (a panic wedges the bus)
     "dedupe"       Add ignores a receiver that is already registered

   Don't-care regions: which waiter gets the lock next (sync.Mutex is not
   FIFO); what a listener does with the event; equality of receivers is Go
   interface equality (the model has identities; two distinct pointers to
   zero-size structs may compare equal in Go - the harness uses non-empty
   structs). *)
EXTENDS Integers, Sequences, FiniteSets, TLC

CONSTANTS
  Listeners,     \* identities of the receivers, e.g. {1, 2, 3}
  Kind,          \* [Listeners -> kinds]
  Dispatchers,   \* identities of the dispatching goroutines, e.g. {1, 2}
  MaxDispatch,   \* events per dispatcher
  Mutators,      \* identities of the goroutines calling Add / Remove
  MaxMutate,     \* calls per mutator
  MaxLen,        \* bound on the number of registrations (guard of Add calls)
  Mut

Kinds == {"plain", "gated", "panic", "reAdd", "reRemove", "reDispatch"}
ReKinds == {"reAdd", "reRemove", "reDispatch"}
ASSUME Kind \in [Listeners -> Kinds]
ASSUME Mut \in {"none", "nolock", "snapshot", "prepend", "removefirst", "nodefer", "dedupe"}
ASSUME Dispatchers \cap Mutators = {}       \* goroutine identities (lock holders)

VARIABLES
  regs,      \* e.listeners: sequence of [x |-> receiver, t |-> stamp of its Add]
  stamp,     \* number of Add calls that have appended so far (history)
  lock,      \* 0 = free, otherwise the goroutine holding e.lock
  dpc, dcount, snap, idx, got,   \* dispatchers: pc, events started, the slice being ranged over, position, receivers called for the current event
  mpc, mop, mcount               \* mutators: pc, pending operation, calls made

vars == <<regs, stamp, lock, dpc, dcount, snap, idx, got, mpc, mop, mcount>>

DPcs == {"idle", "lock", "iter", "incb", "selflock", "panicked"}
MPcs == {"idle", "lock"}
Reg == [x : Listeners, t : Nat]
NoOp == [op |-> "none", x |-> 0]

Xs(s) == [i \in DOMAIN s |-> s[i].x]       \* the receivers of a registration sequence
Range(s) == {s[i] : i \in DOMAIN s}

TypeOK ==
  /\ regs \in Seq(Reg) /\ stamp \in Nat
  /\ lock \in {0} \cup Dispatchers \cup Mutators
  /\ dpc \in [Dispatchers -> DPcs] /\ dcount \in [Dispatchers -> 0..MaxDispatch]
  /\ snap \in [Dispatchers -> Seq(Reg)] /\ idx \in [Dispatchers -> Nat] /\ got \in [Dispatchers -> Seq(Listeners)]
  /\ mpc \in [Mutators -> MPcs] /\ mcount \in [Mutators -> 0..MaxMutate]
  /\ \A m \in Mutators : mop[m] = NoOp \/ (mop[m].op \in {"add", "remove"} /\ mop[m].x \in Listeners)

Init ==
  /\ regs = <<>> /\ stamp = 0 /\ lock = 0
  /\ dpc = [d \in Dispatchers |-> "idle"] /\ dcount = [d \in Dispatchers |-> 0]
  /\ snap = [d \in Dispatchers |-> <<>>] /\ idx = [d \in Dispatchers |-> 0] /\ got = [d \in Dispatchers |-> <<>>]
  /\ mpc = [m \in Mutators |-> "idle"] /\ mop = [m \in Mutators |-> NoOp] /\ mcount = [m \in Mutators |-> 0]

UM == UNCHANGED <<mpc, mop, mcount>>
UD == UNCHANGED <<dpc, dcount, snap, idx, got>>

-----------------------------------------------------------------------------
(* OnNewSnowflakeEvent *)

DSet(d, pc) == dpc' = [dpc EXCEPT ![d] = pc]

DCall(d) ==         \* environment: a producer hands the bus its next event
  /\ dpc[d] = "idle" /\ dcount[d] < MaxDispatch
  /\ dcount' = [dcount EXCEPT ![d] = @ + 1] /\ DSet(d, "lock")
  /\ UNCHANGED <<regs, stamp, lock, snap, idx, got>> /\ UM

DLock(d) ==         \* e.lock.Lock(); `range e.listeners` evaluates the slice once
  /\ dpc[d] = "lock" /\ (lock = 0 \/ Mut = "nolock")
  /\ lock' = (IF Mut \in {"nolock", "snapshot"} THEN lock ELSE d)
  /\ snap' = [snap EXCEPT ![d] = regs] /\ idx' = [idx EXCEPT ![d] = 1] /\ got' = [got EXCEPT ![d] = <<>>]
  /\ DSet(d, "iter")
  /\ UNCHANGED <<regs, stamp, dcount>> /\ UM

Cur(d) == snap[d][idx[d]].x

DDeliver(d) ==      \* v.OnNewSnowflakeEvent(event): the callback is entered (and records the event)
  /\ dpc[d] = "iter" /\ idx[d] <= Len(snap[d])
  /\ got' = [got EXCEPT ![d] = Append(@, Cur(d))]
  /\ (CASE Kind[Cur(d)] = "plain" -> idx' = [idx EXCEPT ![d] = @ + 1] /\ DSet(d, "iter") /\ lock' = lock
        [] Kind[Cur(d)] = "gated" -> idx' = idx /\ DSet(d, "incb") /\ lock' = lock
        [] Kind[Cur(d)] = "panic" -> idx' = idx /\ DSet(d, "panicked") /\ lock' = (IF lock = d /\ Mut # "nodefer" THEN 0 ELSE lock)
        [] OTHER                  -> idx' = idx /\ DSet(d, "selflock") /\ lock' = lock)
  /\ UNCHANGED <<regs, stamp, dcount, snap>> /\ UM

DRelease(d) ==      \* environment: the slow callback returns
  /\ dpc[d] = "incb"
  /\ idx' = [idx EXCEPT ![d] = @ + 1] /\ DSet(d, "iter")
  /\ UNCHANGED <<regs, stamp, lock, dcount, snap, got>> /\ UM

DUnlock(d) ==       \* the loop is over; deferred Unlock; return
  /\ dpc[d] = "iter" /\ idx[d] > Len(snap[d])
  /\ lock' = (IF lock = d THEN 0 ELSE lock) /\ DSet(d, "idle")
  /\ UNCHANGED <<regs, stamp, dcount, snap, idx, got>> /\ UM

(* a re-entrant callback of a bus that does NOT hold the lock during callbacks
   (what-ifs "nolock", "snapshot") gets through: the inner call is not modelled
   further, the dispatcher goes on *)
DSelfThrough(d) ==
  /\ dpc[d] = "selflock" /\ lock = 0 /\ Mut \in {"nolock", "snapshot"}
  /\ idx' = [idx EXCEPT ![d] = @ + 1] /\ DSet(d, "iter")
  /\ UNCHANGED <<regs, stamp, lock, dcount, snap, got>> /\ UM

-----------------------------------------------------------------------------
(* Add / Remove *)

MCall(m, op, x) ==  \* environment
  /\ mpc[m] = "idle" /\ mcount[m] < MaxMutate
  /\ op = "add" => Len(regs) + Cardinality({n \in Mutators : mpc[n] = "lock" /\ mop[n].op = "add"}) < MaxLen
  /\ mcount' = [mcount EXCEPT ![m] = @ + 1]
  /\ mop' = [mop EXCEPT ![m] = [op |-> op, x |-> x]] /\ mpc' = [mpc EXCEPT ![m] = "lock"]
  /\ UNCHANGED <<regs, stamp, lock>> /\ UD

Added(x) ==
  IF Mut = "dedupe" /\ x \in Range(Xs(regs)) THEN regs
  ELSE IF Mut = "prepend" THEN <<[x |-> x, t |-> stamp + 1]>> \o regs
  ELSE Append(regs, [x |-> x, t |-> stamp + 1])

FirstAt(x) == CHOOSE i \in DOMAIN regs : regs[i].x = x /\ \A j \in 1..(i - 1) : regs[j].x # x
Removed(x) ==
  IF Mut = "removefirst" /\ x \in Range(Xs(regs))
    THEN SubSeq(regs, 1, FirstAt(x) - 1) \o SubSeq(regs, FirstAt(x) + 1, Len(regs))
    ELSE SelectSeq(regs, LAMBDA r : r.x # x)

(* Lock; change the list; Unlock - nothing inside can block and nobody can look
   meanwhile, so the critical section is one step *)
MDo(m) ==
  /\ mpc[m] = "lock" /\ lock = 0
  /\ (IF mop[m].op = "add"
        THEN regs' = Added(mop[m].x) /\ stamp' = stamp + 1
        ELSE regs' = Removed(mop[m].x) /\ stamp' = stamp)
  /\ mpc' = [mpc EXCEPT ![m] = "idle"] /\ mop' = [mop EXCEPT ![m] = NoOp]
  /\ UNCHANGED <<lock, mcount>> /\ UD

-----------------------------------------------------------------------------
DeliverNext == \E d \in Dispatchers : DDeliver(d)
SilentCode  == (\E d \in Dispatchers : DLock(d) \/ DUnlock(d) \/ DSelfThrough(d)) \/ (\E m \in Mutators : MDo(m))
CodeNext    == DeliverNext \/ SilentCode

EnvNext ==
  \/ (\E d \in Dispatchers : DCall(d) \/ DRelease(d))
  \/ (\E m \in Mutators, op \in {"add", "remove"}, x \in Listeners : MCall(m, op, x))

Next == CodeNext \/ EnvNext

Fairness ==
  /\ \A d \in Dispatchers : SF_vars(DLock(d)) /\ WF_vars(DDeliver(d)) /\ WF_vars(DUnlock(d)) /\ WF_vars(DRelease(d)) /\ WF_vars(DSelfThrough(d))
  /\ \A m \in Mutators : SF_vars(MDo(m))

Spec == Init /\ [][Next]_vars /\ Fairness

(* Generation grain (gated replay): commands only when every goroutine is at rest *)
Quiescent == ~ENABLED CodeNext
GDispatch(d)    == Quiescent /\ DCall(d)
GRelease(d)     == Quiescent /\ DRelease(d)
GAdd(m, x)      == Quiescent /\ MCall(m, "add", x)
GRemove(m, x)   == Quiescent /\ MCall(m, "remove", x)
GenNext ==
  \/ (\E d \in Dispatchers : DLock(d) \/ DDeliver(d) \/ DUnlock(d) \/ DSelfThrough(d))
  \/ (\E m \in Mutators : MDo(m))
  \/ (\E d \in Dispatchers : GDispatch(d) \/ GRelease(d))
  \/ (\E m \in Mutators, x \in Listeners : GAdd(m, x) \/ GRemove(m, x))
GenSpec == Init /\ [][GenNext]_vars

-----------------------------------------------------------------------------
(* Properties *)

Holding(d) == dpc[d] \in {"iter", "incb", "selflock"}

(* the lock is held by whoever is inside a dispatch, and by nobody else *)
LockOK ==
  /\ \A d \in Dispatchers : Holding(d) => lock = d
  /\ lock # 0 => (lock \in Dispatchers /\ Holding(lock))

(* while an event is being dispatched the registration does not change *)
LockedStable == \A d \in Dispatchers : Holding(d) => snap[d] = regs

(* the receivers called so far for the current event are the registrations at
   lock time, one call per registration, in order *)
Called(d) == IF dpc[d] \in {"incb", "selflock", "panicked"} THEN idx[d] ELSE idx[d] - 1
DeliveryLaw ==
  \A d \in Dispatchers : dpc[d] \in {"iter", "incb", "selflock", "panicked"} =>
    got[d] = SubSeq(Xs(snap[d]), 1, Called(d))

(* registrations are kept in the order of their Add calls *)
RegistrationOrder == \A i, j \in DOMAIN regs : i < j => regs[i].t < regs[j].t

(* Remove deletes every registration of the receiver, touches nothing else,
   and is a no-op for an unknown receiver; Add appends exactly one *)
RemoveLaw ==
  [][\A m \in Mutators : (mpc[m] = "lock" /\ mpc'[m] = "idle") =>
       IF mop[m].op = "remove"
         THEN regs' = SelectSeq(regs, LAMBDA r : r.x # mop[m].x)
         ELSE Len(regs') = Len(regs) + 1 /\ regs'[Len(regs')].x = mop[m].x /\ SubSeq(regs', 1, Len(regs)) = regs]_vars

PanicReleasesLock == \A d \in Dispatchers : dpc[d] = "panicked" => lock # d

NoWedge == \A d \in Dispatchers : dpc[d] # "selflock"

DispatchReturns == \A d \in Dispatchers : (dpc[d] = "lock") ~> (dpc[d] \in {"idle", "panicked"})
MutateReturns   == \A m \in Mutators : (mpc[m] = "lock") ~> (mpc[m] = "idle")

(* safety shadow for the replay: at rest, with no callback in progress (and no
   wedge - that is NoWedge's business), nobody is parked at the lock *)
NoStuck ==
  (Quiescent /\ \A d \in Dispatchers : dpc[d] \notin {"incb", "selflock"}) =>
     (\A d \in Dispatchers : dpc[d] \in {"idle", "panicked"}) /\ (\A m \in Mutators : mpc[m] = "idle")
=============================================================================
