CONSTANTS
  Listeners = {1, 2, 3}
  Kind <- KindStd
  Dispatchers = {1, 2}
  MaxDispatch = 2
  Mutators = {11, 12}
  MaxMutate = 3
  MaxLen = 3
  Mut = "none"
SPECIFICATION GenSpec
INVARIANTS TypeOK LockOK LockedStable DeliveryLaw RegistrationOrder PanicReleasesLock NoStuck
CHECK_DEADLOCK FALSE
