CONSTANTS
  Listeners = {1, 2}
  Kind <- KindStd
  Dispatchers = {1, 2}
  MaxDispatch = 1
  Mutators = {11}
  MaxMutate = 2
  MaxLen = 2
  Mut = "none"
SPECIFICATION Spec
INVARIANTS TypeOK LockOK LockedStable DeliveryLaw RegistrationOrder PanicReleasesLock NoWedge NoStuck
PROPERTIES RemoveLaw DispatchReturns MutateReturns
CHECK_DEADLOCK FALSE
