CONSTANTS
  Listeners = {1, 2, 3, 4, 5, 6}
  Kind <- KindStd
  Dispatchers = {1, 2, 3}
  MaxDispatch = 3
  Mutators = {11, 12}
  MaxMutate = 4
  MaxLen = 4
  Mut = "none"
SPECIFICATION GenSpec
INVARIANTS TypeOK LockOK LockedStable DeliveryLaw RegistrationOrder PanicReleasesLock
CHECK_DEADLOCK FALSE
