--------------------------- MODULE EventBus_Trace ---------------------------
(* Trace specification for EventBus (DESIGN 2.2 item 4).

   traces.ndjson: one JSON object per line, a trace recorded by
   harness/cmd/eventbusdrv from the REAL dispatcher through its exported API
   (event.NewSnowflakeEventDispatcher, Add/RemoveSnowflakeEventListener,
   OnNewSnowflakeEvent):  {"id": n, "events": [e1, e2, ...]}

   Events
     kinds{k}          the kinds of the receivers the driver built, by identity
                       (must be the table of MC_EventBus)
     Dispatch{d}       dispatcher d calls OnNewSnowflakeEvent with its next event -> DCall(d)
     Add{m,x}          mutator m calls AddSnowflakeEventListener(receiver x)      -> MCall(m,"add",x)
     Remove{m,x}       ... RemoveSnowflakeEventListener(receiver x)               -> MCall(m,"remove",x)
     Release{d}        the driver lets the slow callback dispatcher d is in return -> DRelease(d)
     Deliver{d,n,x}    written by receiver x at the start of its callback, i.e. on
                       dispatcher d's goroutine while it holds the bus lock: the
                       n-th event of d reached x                                  -> DDeliver(d)
     RetDispatch{d,res}  (herds) the call returned ("ok") or panicked ("panic")
     RetMutate{m}        (herds) the Add / Remove call returned
     obs               (gated replay) taken once every goroutine had come to rest:
                       where each dispatcher / mutator is parked - at the lock
                       ("lock"), inside a slow callback ("incb"), at the lock
                       INSIDE a callback ("selflock": re-entrancy) - or that it
                       returned / panicked, and how many calls it has made
   Call records are written before the call, return records after the return,
   all records under one recorder mutex; lock acquisitions, unlocks and the
   list changes are silent steps.  An observation is explained by a state that
   is quiescent in the model too and agrees on everything observed.  The
   receivers a call reaches are therefore compared one by one, in order, with
   the registration the model holds at that moment. *)
EXTENDS MC_EventBus, Json, TLCExt

VARIABLES tr, l

tvars == <<vars, tr, l>>

Traces == ndJsonDeserialize("traces.ndjson")
NT == Len(Traces)
Events(t) == Traces[t].events

TInit ==
  /\ tr \in 1..NT
  /\ l = 1
  /\ Init
  /\ TLCSet(tr, 1)

HasNext == l <= Len(Events(tr))
E == Events(tr)[l]
IsEv(n) == HasNext /\ E.ev = n
Adv == l' = l + 1 /\ tr' = tr

TKinds    == IsEv("kinds") /\ (\A x \in Listeners : x <= Len(E.k) /\ E.k[x] = Kind[x]) /\ UNCHANGED vars /\ Adv
TDispatch == IsEv("Dispatch") /\ E.d \in Dispatchers /\ DCall(E.d) /\ Adv
TRelease  == IsEv("Release") /\ E.d \in Dispatchers /\ DRelease(E.d) /\ Adv
TAdd      == IsEv("Add") /\ E.m \in Mutators /\ E.x \in Listeners /\ MCall(E.m, "add", E.x) /\ Adv
TRemove   == IsEv("Remove") /\ E.m \in Mutators /\ E.x \in Listeners /\ MCall(E.m, "remove", E.x) /\ Adv

TDeliver ==
  /\ IsEv("Deliver") /\ E.d \in Dispatchers
  /\ dpc[E.d] = "iter" /\ idx[E.d] <= Len(snap[E.d]) /\ Cur(E.d) = E.x /\ dcount[E.d] = E.n
  /\ DDeliver(E.d) /\ Adv

TRetDispatch ==
  /\ IsEv("RetDispatch") /\ E.d \in Dispatchers
  /\ dpc[E.d] = (IF E.res = "ok" THEN "idle" ELSE "panicked")
  /\ UNCHANGED vars /\ Adv

TRetMutate ==
  /\ IsEv("RetMutate") /\ E.m \in Mutators
  /\ mpc[E.m] = "idle"
  /\ UNCHANGED vars /\ Adv

TSilent == HasNext /\ SilentCode /\ UNCHANGED <<tr, l>>

DMatch(d, o) ==
  /\ dcount[d] = o.n
  /\ \/ o.st = "idle"     /\ dpc[d] = "idle"
     \/ o.st = "lock"     /\ dpc[d] = "lock"
     \/ o.st = "incb"     /\ dpc[d] = "incb"
     \/ o.st = "selflock" /\ dpc[d] = "selflock"
     \/ o.st = "panic"    /\ dpc[d] = "panicked"

MMatch(m, o) ==
  /\ mcount[m] = o.n
  /\ \/ o.st = "idle" /\ mpc[m] = "idle"
     \/ o.st = "lock" /\ mpc[m] = "lock"

(* dispatchers are 1.., mutators 11.. : o.ms[i] is mutator 10 + i *)
ObsMatch(o) ==
  /\ \A d \in 1..Len(o.ds) : d \in Dispatchers /\ DMatch(d, o.ds[d])
  /\ \A i \in 1..Len(o.ms) : (10 + i) \in Mutators /\ MMatch(10 + i, o.ms[i])

TObs ==
  /\ IsEv("obs")
  /\ Quiescent
  /\ ObsMatch(E)
  /\ UNCHANGED vars /\ Adv

TNext == TKinds \/ TDispatch \/ TRelease \/ TAdd \/ TRemove \/ TDeliver \/ TRetDispatch \/ TRetMutate \/ TSilent \/ TObs

TSpec == TInit /\ [][TNext]_tvars

Mark == (IF l > TLCGet(tr) THEN TLCSet(tr, l) ELSE TRUE)

Rejected == {t \in 1..NT : TLCGet(t) # Len(Events(t)) + 1}

Post ==
  PrintT(ToJson([nt |-> NT, rejected |-> {<<Traces[t].id, TLCGet(t)>> : t \in Rejected}]))

(* the property invariants on every state of every explained execution; NoWedge
   is not among them: traces with re-entrant receivers are explained BY the
   wedge - that the real bus wedges there is what those traces document *)
TLockOK == LockOK
TLockedStable == LockedStable
TDeliveryLaw == DeliveryLaw
TRegistrationOrder == RegistrationOrder
TPanicReleasesLock == PanicReleasesLock
TNoStuck == NoStuck
=============================================================================
