CONSTANTS
  Listeners = {1, 2}
  Kind <- KindStd
  Dispatchers = {1, 2}
  MaxDispatch = 2
  Mutators = {11}
  MaxMutate = 3
  MaxLen = 2
  Mut = "none"
SPECIFICATION GenSpec
INVARIANTS TypeOK LockOK LockedStable DeliveryLaw RegistrationOrder PanicReleasesLock NoStuck
CHECK_DEADLOCK FALSE
