CONSTANTS
  AsIs_NilFailed = TRUE
SPECIFICATION Spec
INVARIANTS Emit
POSTCONDITION Post
CHECK_DEADLOCK FALSE
