---------------------------- MODULE MC_EventBus ----------------------------
(* Constant definitions for the configurations of EventBus (a .cfg file cannot
   write a function).  Dispatchers are 1.., mutators 11.. (goroutine identities
   must be disjoint).

   One table of receiver kinds for every configuration, the replay harness and
   the trace specification (harness/cmd/eventbusdrv builds receiver x with kind
   KindOf(x); lib/checks/c15_eventbus.py carries the same table and every trace
   starts with a "kinds" event that is compared with it):
     1 plain   2 gated   3 panic        - the usage patterns of the repository:
                                          ptEventLogger / logEventLogger return,
                                          possibly slowly; ptEventLogger panics
                                          when an event's String() panics
     4 reAdd   5 reRemove   6 reDispatch - what-if: re-entrant receivers
     7 plain   8 gated *)
EXTENDS EventBus

KindOf(x) == CASE x = 1 -> "plain" [] x = 2 -> "gated" [] x = 3 -> "panic"
               [] x = 4 -> "reAdd" [] x = 5 -> "reRemove" [] x = 6 -> "reDispatch"
               [] x = 7 -> "plain" [] x = 8 -> "gated"
KindStd == [x \in Listeners |-> KindOf(x)]
=============================================================================
