---------------------------- MODULE EventStrings ----------------------------
(* common/event/interface.go: the five event structs and their String()
   methods, and the places in the repository that produce events.

   Part 1 (input-enumerating): every event value over its documented field
   classes -
     Error field        nil | plain (a message) | addr (a message containing an
                        IP address with port) | empty (errors.New(""))
     description field  nil | non-nil (a pointer to webrtc.SessionDescription; String()
                        never looks at it)
     traffic counters   0 | 1 | 1048576 | -1
   with the result String() must give (Contract): the text, with the error
   message scrubbed by safelog.Scrub (the address becomes "[scrubbed]"), or a
   panic.  Tokens: ADDR (an address, concretised by the driver), SCRUBBED
   ("[scrubbed]"), UP / DOWN (the two arrows of the proxy summary, which are not
   ASCII).  harness/cmd/eventbusdrv `strings` builds the real struct, calls
   String() under recover and compares.

   AsIs_NilFailed = TRUE is the pinned code: EventOnSnowflakeConnectionFailed
   .String() calls e.Error.Error() without looking - a nil Error panics (and the
   client binary's ptEventLogger calls String() on the producer's goroutine
   with no recover: the client dies).  The other two String() methods with an
   Error field test it first.

   Part 2 (producers): sites.ndjson is written by `eventbusdrv sites` from the
   REAL source tree - every composite literal of an event type outside the test
   files, with the provenance of its Error field:
     na | absent         the type has no Error field | the literal does not set it
     nil                 the literal says Error: nil
     new                 errors.New / fmt.Errorf, directly or by the last
                         assignment to the variable before the literal
     checked             the literal is inside `if err != nil { ... }`
     callback:<Name>     the variable is the parameter of a function literal
                         registered with <Name>(...) - OnError: pion calls the
                         handler only with a non-nil error (datachannel.go
                         readLoop; trusted, see SafeProv)
     maybe               anything else: may be nil
   SiteSafe: a site is safe when String() of its type is total on a nil Error,
   or the provenance excludes nil.  ProducibleTotal: String() does not panic on
   any value some site can produce (NotTotal is the set of counterexamples; the
   configuration prints it instead of stopping at the first).  Post prints the
   unsafe sites and how the
   sites differ from the table of the pinned tree (ExpectedSites; a difference
   is information, not a verdict).

   On the unchanged tree: the three producers of EventOnSnowflakeConnectionFailed
   (checkForStaleness, the DataChannel timeout in connect, the OnError callback)
   cannot emit a nil Error; the two producers that can emit nil
   (EventOnOfferCreated, EventOnBrokerRendezvous in connect - nil means success)
   have String() methods that test it. *)
EXTENDS Integers, Sequences, FiniteSets, TLC, Json

CONSTANTS AsIs_NilFailed

Offer == "EventOnOfferCreated"
Rendezvous == "EventOnBrokerRendezvous"
Connected == "EventOnSnowflakeConnected"
Failed == "EventOnSnowflakeConnectionFailed"
Over == "EventOnProxyConnectionOver"
Types == {Offer, Rendezvous, Connected, Failed, Over}
HasError(t) == t \in {Offer, Rendezvous, Failed}
HasDesc(t)  == t \in {Offer, Rendezvous}

ErrClasses == {"nil", "plain", "addr", "empty"}
Counters == {0, 1, 1048576, -1}

Msg(e) == CASE e = "plain" -> <<"timeout waiting for DataChannel.OnOpen">>
            [] e = "addr"  -> <<"dial tcp ", "ADDR", ": connect: connection refused">>
            [] OTHER       -> <<>>
Scrubbed(m) == [i \in DOMAIN m |-> IF m[i] = "ADDR" THEN "SCRUBBED" ELSE m[i]]

Cases ==
  {[type |-> t, err |-> e, desc |-> d, inb |-> 0, outb |-> 0] : t \in {Offer, Rendezvous}, e \in ErrClasses, d \in BOOLEAN}
  \cup {[type |-> Failed, err |-> e, desc |-> FALSE, inb |-> 0, outb |-> 0] : e \in ErrClasses}
  \cup {[type |-> Connected, err |-> "na", desc |-> FALSE, inb |-> 0, outb |-> 0]}
  \cup {[type |-> Over, err |-> "na", desc |-> FALSE, inb |-> i, outb |-> o] : i \in Counters, o \in Counters}

Ok(text) == [result |-> "ok", text |-> text]
Panic == [result |-> "panic", text |-> <<>>]

Contract(c) ==
  CASE c.type = Offer      -> IF c.err = "nil" THEN Ok(<<"offer created">>) ELSE Ok(<<"offer creation failure ">> \o Scrubbed(Msg(c.err)))
    [] c.type = Rendezvous -> IF c.err = "nil" THEN Ok(<<"broker rendezvous peer received">>) ELSE Ok(<<"broker failure ">> \o Scrubbed(Msg(c.err)))
    [] c.type = Connected  -> Ok(<<"connected">>)
    [] c.type = Failed     -> IF c.err = "nil" /\ AsIs_NilFailed THEN Panic
                              ELSE IF c.err = "nil" THEN Ok(<<"trying a new proxy">>)     \* what a repaired String() could say (not compared: never produced)
                              ELSE Ok(<<"trying a new proxy: ">> \o Scrubbed(Msg(c.err)))
    [] c.type = Over       -> Ok(<<"Proxy connection closed (", "UP", " ", ToString(c.inb), ", ", "DOWN", " ", ToString(c.outb), ")">>)

VARIABLE c
Init == c \in Cases
Next == FALSE /\ c' = c
Spec == Init /\ [][Next]_c

Emit == PrintT(ToJson([type |-> c.type, err |-> c.err, msg |-> Msg(c.err), desc |-> c.desc, inb |-> c.inb, outb |-> c.outb,
                       expect |-> Contract(c)]))

-----------------------------------------------------------------------------
(* producers *)

Sites == ndJsonDeserialize("sites.ndjson")
SiteSet == {Sites[i] : i \in DOMAIN Sites}

SafeProv == {"new", "checked", "callback:OnError"}
CanBeNil(prov) == prov \notin SafeProv

StringTotalOnNil(t) == Contract([type |-> t, err |-> "nil", desc |-> FALSE, inb |-> 0, outb |-> 0]).result = "ok"

SiteSafe(s) == ~HasError(s.type) \/ StringTotalOnNil(s.type) \/ ~CanBeNil(s.prov)

(* a case is producible when some site of its type can give its Error class
   (non-nil classes: any site of the type; nil: a site whose provenance allows
   nil); types without an Error field: any site of the type *)
Producible(k) ==
  \E s \in SiteSet : s.type = k.type /\ (k.err = "nil" => CanBeNil(s.prov))

ProducibleTotal == Producible(c) => Contract(c).result = "ok"
NotTotal == {k \in Cases : Producible(k) /\ Contract(k).result # "ok"}

ExpectedSites == {
  [file |-> "client/lib/webrtc.go", func |-> "checkForStaleness",           type |-> Failed,     prov |-> "new"],
  [file |-> "client/lib/webrtc.go", func |-> "connect",                     type |-> Offer,      prov |-> "maybe"],
  [file |-> "client/lib/webrtc.go", func |-> "connect",                     type |-> Rendezvous, prov |-> "maybe"],
  [file |-> "client/lib/webrtc.go", func |-> "connect",                     type |-> Failed,     prov |-> "new"],
  [file |-> "client/lib/webrtc.go", func |-> "preparePeerConnection/func",  type |-> Connected,  prov |-> "absent"],
  [file |-> "client/lib/webrtc.go", func |-> "preparePeerConnection/func",  type |-> Failed,     prov |-> "callback:OnError"],
  [file |-> "proxy/lib/snowflake.go", func |-> "makePeerConnectionFromOffer/func/func", type |-> Over, prov |-> "absent"] }

Strip(s) == [file |-> s.file, func |-> s.func, type |-> s.type, prov |-> s.prov]
Found == {Strip(s) : s \in SiteSet}

Post ==
  PrintT(ToJson([unsafe  |-> {s \in SiteSet : ~SiteSafe(s)},
                 nottotal |-> {[type |-> k.type, err |-> k.err] : k \in NotTotal},
                 missing |-> ExpectedSites \ Found,
                 extra   |-> Found \ ExpectedSites,
                 nsites  |-> Cardinality(SiteSet)]))
=============================================================================
