CONSTANTS
  Listeners = {1, 2, 3, 4, 5, 6, 7, 8}
  Kind <- KindStd
  Dispatchers = {1, 2, 3, 4}
  MaxDispatch = 12
  Mutators = {11, 12, 13}
  MaxMutate = 16
  MaxLen = 12
  Mut = "none"
SPECIFICATION TSpec
CONSTRAINT Mark
POSTCONDITION Post
INVARIANTS TLockOK TLockedStable TDeliveryLaw TRegistrationOrder TPanicReleasesLock TNoStuck
CHECK_DEADLOCK FALSE
