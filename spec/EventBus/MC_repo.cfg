CONSTANTS
  Listeners = {1, 2, 3}
  Kind <- KindStd
  Dispatchers = {1, 2}
  MaxDispatch = 2
  Mutators = {11}
  MaxMutate = 3
  MaxLen = 3
  Mut = "none"
SPECIFICATION Spec
INVARIANTS TypeOK LockOK LockedStable DeliveryLaw RegistrationOrder PanicReleasesLock NoWedge NoStuck
PROPERTIES RemoveLaw DispatchReturns MutateReturns
CHECK_DEADLOCK FALSE
