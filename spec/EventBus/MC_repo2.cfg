CONSTANTS
  Listeners = {1, 2}
  Kind <- KindStd
  Dispatchers = {1, 2}
  MaxDispatch = 2
  Mutators = {11, 12}
  MaxMutate = 2
  MaxLen = 3
  Mut = "none"
SPECIFICATION Spec
INVARIANTS TypeOK LockOK LockedStable DeliveryLaw RegistrationOrder PanicReleasesLock NoWedge NoStuck
PROPERTIES RemoveLaw
CHECK_DEADLOCK FALSE
