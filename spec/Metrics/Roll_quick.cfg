CONSTANTS
  Mode = "roll"
  Ns = {0}
  BigQs = {}
  IncMax = 0
  RollNs = {0, 1, 7, 8, 9, 16, 17}
  Callers = {"a"}
  IncsPer = 1
  Reads = 1
  Start = {0}
  Alg = "total"
  Locked = FALSE
INIT InitRoll
NEXT Stutter
INVARIANT Emit
CHECK_DEADLOCK FALSE
