---------------------------- MODULE MetricsProof ----------------------------
(* UNBOUNDED argument for the sequential rounding law of spec/Metrics/Metrics.tla
   (C19), checked by the TLA+ proof system (tlapm, SMT arithmetic).

     THEOREM PublishedLaw   \A n \in Nat : Lawful(n, Published(n))     (never lower than
                            n, a multiple of 8, at most 7 above) /\ Published(n) = Ceil8(n)
     LEMMA   LawfulUnique   the three clauses leave exactly one figure (LawDetermines)
     THEOREM WindowLemmaAll ReadOK(lo, hi, obs) <=> ReadOKFast(lo, hi, obs) for ALL naturals
                            lo, hi and integers obs (Metrics!WindowLemma is checked by
                            TLC for lo, hi <= 17 only; ReadOKFast is what judges the herd
                            reads of the real counter)

   Metrics.tla checks the law with TLC for n in 0..25, the 8-boundaries up to
   2^31 - 32 and a scaled form beyond.  The definitions below are restated from
   Metrics.tla verbatim (lib/unbounded.py compares the text).  Published is the
   CHOOSE of the property statement, so the proof also shows that the CHOOSE is
   well defined (a lawful figure exists in n..n+7). *)
EXTENDS Integers, TLAPS

NeverLower(n, p)  == p >= n
MultipleOf8(n, p) == p % 8 = 0
AtMost7Above(n, p) == p - n <= 7
Lawful(n, p) == NeverLower(n, p) /\ MultipleOf8(n, p) /\ AtMost7Above(n, p)

Published(n) == CHOOSE p \in n..(n + 7) : Lawful(n, p)
Ceil8(n) == ((n + 7) \div 8) * 8

LEMMA Ceil8Lawful == \A n \in Nat : Ceil8(n) \in n..(n + 7) /\ Lawful(n, Ceil8(n))
  BY SMT DEF Ceil8, Lawful, NeverLower, MultipleOf8, AtMost7Above

LEMMA LawfulUnique == \A n \in Nat : \A p1, p2 \in Int : Lawful(n, p1) /\ Lawful(n, p2) => p1 = p2
  BY SMT DEF Lawful, NeverLower, MultipleOf8, AtMost7Above

THEOREM PublishedLaw == \A n \in Nat : Lawful(n, Published(n)) /\ Published(n) = Ceil8(n) /\ Published(n) \in Nat
<1> TAKE n \in Nat
<1>1. Ceil8(n) \in n..(n + 7) /\ Lawful(n, Ceil8(n))  BY Ceil8Lawful
<1>2. Published(n) \in n..(n + 7) /\ Lawful(n, Published(n))  BY <1>1 DEF Published
<1>3. Published(n) \in Int /\ Ceil8(n) \in Int BY <1>1, <1>2
<1>4. Published(n) = Ceil8(n)  BY <1>1, <1>2, <1>3, LawfulUnique
<1> QED BY <1>2, <1>4, <1>1

(* Observations of a concurrent counter: the window form used to judge herd reads. *)
ReadOK(lo, hi, obs) == \E k \in lo..hi : obs = Published(k)
ReadOKFast(lo, hi, obs) == lo <= hi /\ obs % 8 = 0 /\ Published(lo) <= obs /\ obs <= Published(hi)

LEMMA Ceil8Window ==
  \A lo, hi \in Nat : \A obs \in Int :
     (\E k \in lo..hi : obs = Ceil8(k)) <=> (lo <= hi /\ obs % 8 = 0 /\ Ceil8(lo) <= obs /\ obs <= Ceil8(hi))
<1> TAKE lo, hi \in Nat
<1> TAKE obs \in Int
<1>1. ASSUME NEW k \in lo..hi, obs = Ceil8(k)
      PROVE  lo <= hi /\ obs % 8 = 0 /\ Ceil8(lo) <= obs /\ obs <= Ceil8(hi)
  BY <1>1, SMT DEF Ceil8
<1>2. ASSUME lo <= hi, obs % 8 = 0, Ceil8(lo) <= obs, obs <= Ceil8(hi)
      PROVE  \E k \in lo..hi : obs = Ceil8(k)
  <2>1. CASE obs = Ceil8(lo)  BY <1>2, <2>1
  <2>2. CASE obs # Ceil8(lo) /\ obs <= hi
    <3>1. obs \in lo..hi  BY <1>2, <2>2, SMT DEF Ceil8
    <3>2. obs = Ceil8(obs)  BY <1>2, SMT DEF Ceil8
    <3> QED BY <3>1, <3>2
  <2>3. CASE obs # Ceil8(lo) /\ obs > hi
    <3>1. obs = Ceil8(hi)  BY <1>2, <2>3, SMT DEF Ceil8
    <3>2. hi \in lo..hi  BY <1>2
    <3> QED BY <3>1, <3>2
  <2> QED BY <2>1, <2>2, <2>3
<1> QED BY <1>1, <1>2

THEOREM WindowLemmaAll ==
  \A lo, hi \in Nat : \A obs \in Int : ReadOK(lo, hi, obs) <=> ReadOKFast(lo, hi, obs)
<1> TAKE lo, hi \in Nat
<1> TAKE obs \in Int
<1>1. \A k \in lo..hi : k \in Nat  OBVIOUS
<1>2. \A k \in lo..hi : Published(k) = Ceil8(k)  BY <1>1, PublishedLaw
<1>3. Published(lo) = Ceil8(lo) /\ Published(hi) = Ceil8(hi)  BY PublishedLaw
<1>4. ReadOK(lo, hi, obs) <=> (\E k \in lo..hi : obs = Ceil8(k))  BY <1>2 DEF ReadOK
<1>5. ReadOKFast(lo, hi, obs) <=> (lo <= hi /\ obs % 8 = 0 /\ Ceil8(lo) <= obs /\ obs <= Ceil8(hi))  BY <1>3 DEF ReadOKFast
<1> QED BY <1>4, <1>5, Ceil8Window
=============================================================================
