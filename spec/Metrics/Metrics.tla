------------------------------ MODULE Metrics ------------------------------
(* broker/metrics.go binCount / printMetrics / zeroMetrics and
   broker/prometheus.go roundedCounter: "every event count the broker
   publishes equals the true number of events rounded up to the next multiple
   of 8: never lower than the truth, never a non-multiple, never more than 7
   above it" (C19).

   The module has four parts.
   1. The sequential law.  Published(n) is DEFINED by the three clauses of the
      property statement (a CHOOSE over the candidates), not by a formula; the
      closed form Ceil8 is checked against it (LawIsCeil8), so the expected
      values that are emitted are the property's, not an implementation's.
      Cases are enumerated as TLC initial states and printed by Emit.
      Counts beyond TLC's 32-bit integers are represented as n = 8*q + r.
   2. The measurement period of the metrics log: events are counted in a log
      counter that printMetrics publishes and zeroMetrics resets, and in a
      rounded Prometheus counter that is never reset.
   3. The rounded counter as a CONCURRENT OBJECT: Inc at the grain of its
      memory operations, 2-3 concurrent callers, a concurrent reader (Write,
      i.e. a /prometheus scrape, which takes no lock).  Alg selects the
      algorithm:
        "pinned"  commit d004416:  atomic.AddUint64(&total, 1);
                                   if total > value  (two PLAIN reads, either order)
                                       atomic.AddUint64(&value, 8)
                                   Write publishes a plain read of value
        "total"   /repo now:       Inc = atomic.AddUint64(&total, 1)
                                   Write publishes Ceil8(atomic.LoadUint64(&total))
      Locked = TRUE models the call sites that hold Metrics.lock around Inc
      (every site in broker/ipc.go except the "matched" proxy poll, ipc.go:133,
      which calls Inc with no lock, so two polls matched at the same time are
      two concurrent Incs of the same counter); the reader never locks.
      Memory is sequentially consistent here; the pinned code's plain reads
      race with atomic writes, which the Go memory model does not even promise
      (so the pinned code may only be worse than its model).
   4. What a herd on the real counter may observe (ReadOK / QuietOK), used by
      the invariants of part 3 and, through Metrics_Trace, to judge the
      observations recorded from the real code.

   What linearizability allows, exactly: a read that overlaps an Inc may or
   may not count it.  With  lo = number of Incs that had RETURNED when the
   read was invoked  and  hi = number of Incs that had been INVOKED when the
   read returned, the read must publish Ceil8(k) for some lo <= k <= hi.  At
   quiescence lo = hi = total.  Nothing else is demanded (in particular no
   relation between reads of different readers that overlap). *)
EXTENDS Integers, Sequences, FiniteSets, TLC, Json

CONSTANTS
  Ns,        \* law: counts checked directly (each < 2^31 - 8)
  BigQs,     \* law: q of the counts 8*q + r beyond TLC's integers
  IncMax,    \* law: counts up to IncMax are also replayed by calling Inc n times
  RollNs,    \* roll: events per period
  Callers,   \* conc: concurrent callers of Inc
  IncsPer,   \* conc: Incs per caller
  Reads,     \* conc: reads of the concurrent reader
  Start,     \* conc: set of quiescent starting counts
  Alg,       \* conc: "pinned" | "total"
  Locked     \* conc: callers hold Metrics.lock around Inc

None == "none"
NoRead == [lo |-> -1, hi |-> -1, obs |-> 0]   \* "no read has finished yet"

-----------------------------------------------------------------------------
(* 1. The law. *)

(* The three clauses of the property statement for a published figure p of a
   true count n. *)
NeverLower(n, p)  == p >= n
MultipleOf8(n, p) == p % 8 = 0
AtMost7Above(n, p) == p - n <= 7
Lawful(n, p) == NeverLower(n, p) /\ MultipleOf8(n, p) /\ AtMost7Above(n, p)

(* The published figure is the value the three clauses leave (they leave
   exactly one: LawDetermines). *)
Published(n) == CHOOSE p \in n..(n + 7) : Lawful(n, p)
Ceil8(n) == ((n + 7) \div 8) * 8

LawDetermines(n) == Cardinality({p \in (IF n > 16 THEN n - 16 ELSE 0)..(n + 16) : Lawful(n, p)}) = 1
LawIsCeil8(n) == Published(n) = Ceil8(n)

(* Counts written n = 8*q + r, 0 <= r < 8, published figure 8*pq: the same
   three clauses in scaled arithmetic (8*pq is a multiple by construction,
   8*pq - n = 8*(pq - q) - r must lie in 0..7). *)
LawfulQ(q, r, pq) == LET d == 8 * (pq - q) - r IN d >= 0 /\ d <= 7
PublishedQ(q, r) == CHOOSE pq \in q..(q + 1) : LawfulQ(q, r, pq)

-----------------------------------------------------------------------------
(* 4. Observations of a concurrent counter. *)

ReadOK(lo, hi, obs) == \E k \in lo..hi : obs = Published(k)
(* The same without enumerating lo..hi (a Gather of the real registry overlaps
   thousands of Incs in a herd): Published is monotone and takes every multiple
   of 8 from Published(lo) to Published(hi).  WindowLemma is checked by TLC on
   all small windows in the run that judges a trace (Trace.cfg). *)
ReadOKFast(lo, hi, obs) == lo <= hi /\ obs % 8 = 0 /\ Published(lo) <= obs /\ obs <= Published(hi)
WindowLemma == \A lo \in 0..17 : \A hi \in 0..17 : \A obs \in 0..26 : ReadOK(lo, hi, obs) <=> ReadOKFast(lo, hi, obs)
QuietOK(n, obs) == obs = Published(n)
(* consequences of ReadOK, named after the clauses of the statement *)
ReadNeverLow(lo, hi, obs) == obs >= lo
ReadMultiple(lo, hi, obs) == obs % 8 = 0
ReadAtMost7(lo, hi, obs)  == obs - hi <= 7

-----------------------------------------------------------------------------
VARIABLES
  kind,                       \* "law" | "roll" | "conc": what this behaviour is about
  q, r, n,                    \* law case (n = -1 when only q, r are meaningful)
  n1, n2,                     \* roll case: events in period 1 and in period 2
  total, value,               \* conc: the two words of the counter
  pc, pend, tr, vr, left,     \* conc: per caller: control, pending plain reads, registers, Incs left
  lock,                       \* conc: holder of Metrics.lock or None
  started, completed,         \* conc: ghost: Incs invoked / returned (what a harness can count)
  rpc, rlo, robs, rleft,      \* conc: the reader
  last, prev                  \* conc: last finished read [lo, hi, obs] and the obs before it

lawvars  == <<q, r, n>>
rollvars == <<n1, n2>>
concvars == <<total, value, pc, pend, tr, vr, left, lock, started, completed, rpc, rlo, robs, rleft, last, prev>>
vars == <<kind, lawvars, rollvars, concvars>>

IdleConc ==
  /\ total = 0 /\ value = 0 /\ pc = [c \in Callers |-> "idle"] /\ pend = [c \in Callers |-> {}]
  /\ tr = [c \in Callers |-> 0] /\ vr = [c \in Callers |-> 0] /\ left = [c \in Callers |-> 0]
  /\ lock = None /\ started = 0 /\ completed = 0
  /\ rpc = "idle" /\ rlo = 0 /\ robs = 0 /\ rleft = 0 /\ last = NoRead /\ prev = 0

(* -- law cases -- *)
InitLaw ==
  /\ kind = "law"
  /\ \/ (n \in Ns /\ q = n \div 8 /\ r = n % 8)
     \/ (n = -1 /\ q \in BigQs /\ r \in {0, 1, 7})
  /\ n1 = 0 /\ n2 = 0 /\ IdleConc

LawHolds ==
  kind = "law" =>
    /\ (n >= 0 => LawDetermines(n) /\ LawIsCeil8(n) /\ Published(n) = 8 * PublishedQ(q, r))
    /\ LawfulQ(q, r, PublishedQ(q, r))
    /\ \A pq \in (q - 1)..(q + 2) : LawfulQ(q, r, pq) => pq = PublishedQ(q, r)

(* -- measurement periods --
   Period 1 sees n1 events, then printMetrics + zeroMetrics, then period 2
   sees n2 events and is printed.  The log restarts, Prometheus does not. *)
InitRoll ==
  /\ kind = "roll" /\ n1 \in RollNs /\ n2 \in RollNs
  /\ q = 0 /\ r = 0 /\ n = 0 /\ IdleConc

InitCases == InitLaw \/ InitRoll

RollExpect(a, b) ==
  [log1 |-> Published(a), prom1 |-> Published(a),
   logzero |-> Published(0),          \* printed right after zeroMetrics
   log2 |-> Published(b), prom2 |-> Published(a + b)]

-----------------------------------------------------------------------------
(* 3. The concurrent object. *)

InitConc ==
  /\ kind = "conc"
  /\ q = 0 /\ r = 0 /\ n = 0 /\ n1 = 0 /\ n2 = 0
  /\ total \in Start /\ value = Published(total)       \* a quiescent state after `total` sequential Incs
  /\ started = total /\ completed = total
  /\ pc = [c \in Callers |-> "idle"] /\ pend = [c \in Callers |-> {}]
  /\ tr = [c \in Callers |-> 0] /\ vr = [c \in Callers |-> 0]
  /\ left = [c \in Callers |-> IncsPer]
  /\ lock = None
  /\ rpc = "idle" /\ rlo = 0 /\ robs = 0 /\ rleft = Reads /\ last = NoRead /\ prev = 0

UnchangedReader == UNCHANGED <<rpc, rlo, robs, rleft, last, prev>>
UnchangedCase == UNCHANGED <<kind, lawvars, rollvars>>

(* Inc is invoked (the harness counts it as started before it runs). *)
Call(c) ==
  /\ pc[c] = "idle" /\ left[c] > 0
  /\ started' = started + 1
  /\ pc' = [pc EXCEPT ![c] = IF Locked THEN "lock" ELSE "add"]
  /\ UNCHANGED <<total, value, pend, tr, vr, left, lock, completed>> /\ UnchangedReader /\ UnchangedCase

Acquire(c) ==
  /\ pc[c] = "lock" /\ lock = None
  /\ lock' = c /\ pc' = [pc EXCEPT ![c] = "add"]
  /\ UNCHANGED <<total, value, pend, tr, vr, left, started, completed>> /\ UnchangedReader /\ UnchangedCase

(* atomic.AddUint64(&c.total, 1) *)
AddTotal(c) ==
  /\ pc[c] = "add"
  /\ total' = total + 1
  /\ IF Alg = "pinned"
     THEN pc' = [pc EXCEPT ![c] = "rd"] /\ pend' = [pend EXCEPT ![c] = {"t", "v"}]
     ELSE pc' = [pc EXCEPT ![c] = "ret"] /\ UNCHANGED pend
  /\ UNCHANGED <<value, tr, vr, left, lock, started, completed>> /\ UnchangedReader /\ UnchangedCase

AfterRead(c, p, t, v) == IF p # {} THEN "rd" ELSE IF t > v THEN "addv" ELSE "ret"

(* the plain read of c.total in `c.total > c.value` (Go does not fix the
   order of the two operand reads) *)
ReadTotal(c) ==
  /\ pc[c] = "rd" /\ "t" \in pend[c]
  /\ tr' = [tr EXCEPT ![c] = total]
  /\ pend' = [pend EXCEPT ![c] = @ \ {"t"}]
  /\ pc' = [pc EXCEPT ![c] = AfterRead(c, pend'[c], total, vr[c])]
  /\ UNCHANGED <<total, value, vr, left, lock, started, completed>> /\ UnchangedReader /\ UnchangedCase

ReadValue(c) ==
  /\ pc[c] = "rd" /\ "v" \in pend[c]
  /\ vr' = [vr EXCEPT ![c] = value]
  /\ pend' = [pend EXCEPT ![c] = @ \ {"v"}]
  /\ pc' = [pc EXCEPT ![c] = AfterRead(c, pend'[c], tr[c], value)]
  /\ UNCHANGED <<total, value, tr, left, lock, started, completed>> /\ UnchangedReader /\ UnchangedCase

(* atomic.AddUint64(&c.value, 8) *)
AddValue(c) ==
  /\ pc[c] = "addv"
  /\ value' = value + 8
  /\ pc' = [pc EXCEPT ![c] = "ret"]
  /\ UNCHANGED <<total, pend, tr, vr, left, lock, started, completed>> /\ UnchangedReader /\ UnchangedCase

(* Inc returns (and the caller unlocks); the harness counts it as completed. *)
Return(c) ==
  /\ pc[c] = "ret"
  /\ completed' = completed + 1
  /\ left' = [left EXCEPT ![c] = @ - 1]
  /\ pc' = [pc EXCEPT ![c] = "idle"]
  /\ lock' = (IF Locked THEN None ELSE lock)
  /\ UNCHANGED <<total, value, pend, tr, vr, started>> /\ UnchangedReader /\ UnchangedCase

(* The reader: notes how many Incs have returned, performs Write (one memory
   read in both algorithms), notes how many Incs have been invoked. *)
ReadBegin ==
  /\ rpc = "idle" /\ rleft > 0
  /\ rlo' = completed /\ rpc' = "mem"
  /\ UNCHANGED <<total, value, pc, pend, tr, vr, left, lock, started, completed, robs, rleft, last, prev>> /\ UnchangedCase

ReadMem ==
  /\ rpc = "mem"
  /\ robs' = (IF Alg = "pinned" THEN value ELSE Ceil8(total))
  /\ rpc' = "end"
  /\ UNCHANGED <<total, value, pc, pend, tr, vr, left, lock, started, completed, rlo, rleft, last, prev>> /\ UnchangedCase

ReadEnd ==
  /\ rpc = "end"
  /\ last' = [lo |-> rlo, hi |-> started, obs |-> robs]
  /\ prev' = (IF last = NoRead THEN 0 ELSE last.obs)
  /\ rleft' = rleft - 1 /\ rpc' = "idle"
  /\ UNCHANGED <<total, value, pc, pend, tr, vr, left, lock, started, completed, rlo, robs>> /\ UnchangedCase

NextConc ==
  \/ \E c \in Callers : Call(c) \/ Acquire(c) \/ AddTotal(c) \/ ReadTotal(c) \/ ReadValue(c) \/ AddValue(c) \/ Return(c)
  \/ ReadBegin \/ ReadMem \/ ReadEnd

Stutter == UNCHANGED vars
SpecConc == InitConc /\ [][NextConc]_vars

TypeOK ==
  kind = "conc" =>
    /\ total \in Nat /\ value \in Nat /\ started \in Nat /\ completed \in Nat
    /\ pc \in [Callers -> {"idle", "lock", "add", "rd", "addv", "ret"}]
    /\ pend \in [Callers -> SUBSET {"t", "v"}]
    /\ lock \in Callers \cup {None}
    /\ rpc \in {"idle", "mem", "end"}
    /\ completed <= total /\ total <= started

Quiescent == (\A c \in Callers : pc[c] = "idle") /\ rpc = "idle"
PublishedNow == IF Alg = "pinned" THEN value ELSE Ceil8(total)

(* C19 on the concurrent object. *)
ReadsLinearizable == (kind = "conc" /\ last # NoRead) => ReadOK(last.lo, last.hi, last.obs)
ReadsNeverLow     == (kind = "conc" /\ last # NoRead) => ReadNeverLow(last.lo, last.hi, last.obs)
ReadsMultiple     == (kind = "conc" /\ last # NoRead) => ReadMultiple(last.lo, last.hi, last.obs)
ReadsAtMost7      == (kind = "conc" /\ last # NoRead) => ReadAtMost7(last.lo, last.hi, last.obs)
ReadsMonotone     == (kind = "conc" /\ last # NoRead) => last.obs >= prev
QuiescentExact    == (kind = "conc" /\ Quiescent) => (total = completed /\ QuietOK(total, PublishedNow))
(* the two words of the pinned counter never drift apart by more than the
   Incs in flight (what "rounded value tracks ceil8(true)" means between reads) *)
ValueTracksTotal  == (kind = "conc" /\ Alg = "pinned") => \E k \in completed..started : value = Published(k)

-----------------------------------------------------------------------------
(* Case emission (NEXT Stutter, one worker). *)
Emit ==
  IF kind = "law"
  THEN PrintT(ToJson([kind |-> "law", n |-> n, q |-> q, r |-> r, pq |-> PublishedQ(q, r),
                      expect |-> (IF n >= 0 THEN Published(n) ELSE -1),
                      inc |-> (n >= 0 /\ n <= IncMax)]))
  ELSE IF kind = "roll"
  THEN PrintT(ToJson([kind |-> "roll", n1 |-> n1, n2 |-> n2, expect |-> RollExpect(n1, n2)]))
  ELSE TRUE
=============================================================================
