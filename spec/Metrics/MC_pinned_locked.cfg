CONSTANTS
  Ns = {0}
  BigQs = {}
  IncMax = 0
  RollNs = {0}
  Callers = {"a", "b"}
  IncsPer = 2
  Reads = 2
  Start = {0, 6, 7, 8}
  Alg = "pinned"
  Locked = TRUE
SPECIFICATION SpecConc
INVARIANTS TypeOK ReadsLinearizable ReadsNeverLow ReadsMultiple ReadsAtMost7 ReadsMonotone QuiescentExact ValueTracksTotal
CHECK_DEADLOCK FALSE
