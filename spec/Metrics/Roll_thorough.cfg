CONSTANTS
  Mode = "roll"
  Ns = {0}
  BigQs = {}
  IncMax = 0
  RollNs = {0, 1, 2, 3, 4, 5, 6, 7, 8, 9, 10, 11, 12, 13, 14, 15, 16, 17, 18, 19, 20, 21, 22, 23, 24, 25}
  Callers = {"a"}
  IncsPer = 1
  Reads = 1
  Start = {0}
  Alg = "total"
  Locked = FALSE
INIT InitRoll
NEXT Stutter
INVARIANT Emit
CHECK_DEADLOCK FALSE
