CONSTANTS
  Ns = {0}
  BigQs = {}
  IncMax = 0
  RollNs = {0}
  Callers = {"a", "b", "c"}
  IncsPer = 1
  Reads = 3
  Start = {0, 6, 7, 8}
  Alg = "total"
  Locked = TRUE
SPECIFICATION SpecConc
INVARIANTS TypeOK ReadsLinearizable ReadsNeverLow ReadsMultiple ReadsAtMost7 ReadsMonotone QuiescentExact ValueTracksTotal
CHECK_DEADLOCK FALSE
