-------------------------- MODULE MetricsTotalTyped --------------------------
(* UNBOUNDED-RUN argument for part 3 of spec/Metrics/Metrics.tla, Alg = "total"
   (the rounded counter of /repo now: Inc = atomic add on `total`, Write
   publishes Ceil8(atomic load of total)): a typed restatement for Apalache
   with an inductive invariant.  2 concurrent callers, each performing ANY
   number of Incs (Metrics!left / IncsPer dropped), a reader performing ANY
   number of reads (rleft dropped), starting from ANY quiescent natural count
   (Metrics!Start is a small set), counts unbounded integers.
   Locked = TRUE | FALSE as in Metrics.tla (cfg written by lib/unbounded.py).

   Ghost variables rk / lastk hold the value of `total` that the reader's one
   memory read returned: they are the witness k of ReadOK(lo, hi, obs) ==
   \E k \in lo..hi : obs = Published(k), which Apalache cannot quantify over
   an unbounded window.  Published(k) = Ceil8(k) and "Lawful(k, obs) determines
   obs" are MetricsProof!PublishedLaw / LawfulUnique (tlapm), so
   ReadsLinearizable here is Metrics!ReadsLinearizable, QuiescentExact here is
   Metrics!QuiescentExact.  The pinned algorithm (D13) is not restated: it
   violates the property and TLC shows that. *)
EXTENDS Integers, FiniteSets, Apalache

CONSTANT
  \* @type: Bool;
  Locked

Callers == {"a", "b"}
None == "none"
NoRead == [lo |-> -1, hi |-> -1, obs |-> 0]

VARIABLES
  \* @type: Int;
  total,
  \* @type: Str -> Str;
  pc,
  \* @type: Str;
  lock,
  \* @type: Int;
  started,
  \* @type: Int;
  completed,
  \* @type: Str;
  rpc,
  \* @type: Int;
  rlo,
  \* @type: Int;
  robs,
  \* @type: Int;
  rk,
  \* @type: {lo: Int, hi: Int, obs: Int};
  last,
  \* @type: Int;
  lastk,
  \* @type: Int;
  prev

NeverLower(n, p)  == p >= n
MultipleOf8(n, p) == p % 8 = 0
AtMost7Above(n, p) == p - n <= 7
Lawful(n, p) == NeverLower(n, p) /\ MultipleOf8(n, p) /\ AtMost7Above(n, p)
Ceil8(n) == ((n + 7) \div 8) * 8

Init ==
  /\ total \in Nat
  /\ started = total /\ completed = total
  /\ pc = [c \in Callers |-> "idle"]
  /\ lock = None
  /\ rpc = "idle" /\ rlo = 0 /\ robs = 0 /\ rk = 0 /\ last = NoRead /\ lastk = 0 /\ prev = 0

UnchangedReader == UNCHANGED <<rpc, rlo, robs, rk, last, lastk, prev>>

Call(c) ==
  /\ pc[c] = "idle"
  /\ started' = started + 1
  /\ pc' = [pc EXCEPT ![c] = IF Locked THEN "lock" ELSE "add"]
  /\ UNCHANGED <<total, lock, completed>> /\ UnchangedReader

Acquire(c) ==
  /\ pc[c] = "lock" /\ lock = None
  /\ lock' = c /\ pc' = [pc EXCEPT ![c] = "add"]
  /\ UNCHANGED <<total, started, completed>> /\ UnchangedReader

AddTotal(c) ==
  /\ pc[c] = "add"
  /\ total' = total + 1
  /\ pc' = [pc EXCEPT ![c] = "ret"]
  /\ UNCHANGED <<lock, started, completed>> /\ UnchangedReader

Return(c) ==
  /\ pc[c] = "ret"
  /\ completed' = completed + 1
  /\ pc' = [pc EXCEPT ![c] = "idle"]
  /\ lock' = (IF Locked THEN None ELSE lock)
  /\ UNCHANGED <<total, started>> /\ UnchangedReader

ReadBegin ==
  /\ rpc = "idle"
  /\ rlo' = completed /\ rpc' = "mem"
  /\ UNCHANGED <<total, pc, lock, started, completed, robs, rk, last, lastk, prev>>

ReadMem ==
  /\ rpc = "mem"
  /\ robs' = Ceil8(total) /\ rk' = total
  /\ rpc' = "end"
  /\ UNCHANGED <<total, pc, lock, started, completed, rlo, last, lastk, prev>>

ReadEnd ==
  /\ rpc = "end"
  /\ last' = [lo |-> rlo, hi |-> started, obs |-> robs]
  /\ lastk' = rk
  /\ prev' = (IF last = NoRead THEN 0 ELSE last.obs)
  /\ rpc' = "idle"
  /\ UNCHANGED <<total, pc, lock, started, completed, rlo, robs, rk>>

Next ==
  \/ \E c \in Callers : Call(c) \/ Acquire(c) \/ AddTotal(c) \/ Return(c)
  \/ ReadBegin \/ ReadMem \/ ReadEnd

Quiescent == (\A c \in Callers : pc[c] = "idle") /\ rpc = "idle"

(* C19 on the concurrent object *)
QuiescentExact    == Quiescent => (total = completed /\ total = started /\ Lawful(total, Ceil8(total)))
ReadsLinearizable == last # NoRead => (last.lo <= lastk /\ lastk <= last.hi /\ last.obs = Ceil8(lastk) /\ Lawful(lastk, last.obs))
ReadsNeverLow     == last # NoRead => last.obs >= last.lo
ReadsMultiple     == last # NoRead => last.obs % 8 = 0
ReadsAtMost7      == last # NoRead => last.obs - last.hi <= 7
ReadsMonotone     == last # NoRead => last.obs >= prev
Property == QuiescentExact /\ ReadsLinearizable /\ ReadsNeverLow /\ ReadsMultiple /\ ReadsAtMost7 /\ ReadsMonotone

(* the inductive invariant *)
InFlight(S) == Cardinality({c \in Callers : pc[c] \in S})
TypeOK ==
  /\ DOMAIN pc = Callers
  /\ \A c \in Callers : pc[c] \in {"idle", "lock", "add", "ret"}
  /\ lock \in Callers \cup {None}
  /\ (~Locked => \A c \in Callers : pc[c] # "lock")
  /\ rpc \in {"idle", "mem", "end"}
  /\ completed >= 0
Counting ==
  /\ total = completed + InFlight({"ret"})
  /\ started = total + InFlight({"lock", "add"})
Reader ==
  /\ (rpc = "mem" => (0 <= rlo /\ rlo <= completed))
  /\ (rpc = "end" => (0 <= rlo /\ rlo <= rk /\ rk <= total /\ robs = Ceil8(rk)))
  /\ ((rpc = "end" /\ last # NoRead) => lastk <= rk)
LastRead ==
  /\ (last = NoRead => prev = 0)
  /\ (last # NoRead => (0 <= last.lo /\ last.lo <= lastk /\ lastk <= last.hi /\ last.hi <= started
                        /\ lastk <= total /\ last.obs = Ceil8(lastk) /\ 0 <= prev /\ prev <= last.obs))
IndInv == TypeOK /\ Counting /\ Reader /\ LastRead /\ Property

IndInit ==
  /\ total = Gen(1) /\ pc = Gen(2) /\ lock = Gen(1) /\ started = Gen(1) /\ completed = Gen(1)
  /\ rpc = Gen(1) /\ rlo = Gen(1) /\ robs = Gen(1) /\ rk = Gen(1) /\ last = Gen(1) /\ lastk = Gen(1) /\ prev = Gen(1)
  /\ IndInv
=============================================================================
