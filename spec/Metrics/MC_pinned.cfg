CONSTANTS
  Ns = {0}
  BigQs = {}
  IncMax = 0
  RollNs = {0}
  Callers = {"a", "b"}
  IncsPer = 1
  Reads = 1
  Start = {8}
  Alg = "pinned"
  Locked = FALSE
SPECIFICATION SpecConc
INVARIANTS TypeOK ReadsLinearizable ReadsNeverLow ReadsMultiple ReadsAtMost7 ReadsMonotone QuiescentExact
CHECK_DEADLOCK FALSE
