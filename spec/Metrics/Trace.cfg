CONSTANTS
  Ns = {0}
  BigQs = {}
  IncMax = 0
  RollNs = {0}
  Callers = {"a"}
  IncsPer = 1
  Reads = 1
  Start = {0}
  Alg = "total"
  Locked = FALSE
INIT TInit
NEXT Stutter
INVARIANTS WindowLemma Judge
CHECK_DEADLOCK FALSE
