--------------------------- MODULE Metrics_Trace ---------------------------
(* Judges what readers of the REAL rounded counter observed during a herd
   (harness/inpkg/broker/metrics_verif_test.go, vMHerd).  One line per event:

     {"ev":"read",  "herd":h, "mode":m, "ctr":c, "reader":r, "lo":a, "hi":b, "obs":v, "prev":p}
         a Gather that was invoked when `a` Incs had returned and returned
         when `b` Incs had been invoked published v; the same reader's
         previous read had published p
     {"ev":"quiet", "herd":h, "mode":m, "ctr":c, "n":n, "obs":v}
         after all n Incs had returned, Gather published v

   An event is explained iff Metrics!ReadOK / QuietOK holds for it (and a
   reader never sees the counter go down).  There is no abstract state to
   carry from one event to the next - lo and hi bracket everything a read may
   depend on - so the log is judged in one state; Judge prints, for every
   clause that fails, the first event that fails it. *)
EXTENDS Metrics

TraceLog == ndJsonDeserialize("herd.ndjson")

Clause(e) ==
  IF e.ev = "read" THEN
    IF ~ReadMultiple(e.lo, e.hi, e.obs) THEN "non-multiple"
    ELSE IF ~ReadNeverLow(e.lo, e.hi, e.obs) THEN "too-low"
    ELSE IF ~ReadAtMost7(e.lo, e.hi, e.obs) THEN "too-high"
    ELSE IF ~ReadOKFast(e.lo, e.hi, e.obs) THEN "outside-window"
    ELSE IF e.obs < e.prev THEN "not-monotone"
    ELSE "ok"
  ELSE IF e.ev = "quiet" THEN
    IF QuietOK(e.n, e.obs) THEN "ok"
    ELSE IF e.obs > Published(e.n) THEN "quiescent-too-high" ELSE "quiescent-too-low"
  ELSE "unknown-event"

Judge ==
  LET log == TraceLog
      bad == {i \in DOMAIN log : Clause(log[i]) # "ok"}
      failing == {<<log[i].herd, Clause(log[i])>> : i \in bad}
      Of(p) == {i \in bad : log[i].herd = p[1] /\ Clause(log[i]) = p[2]}
      First(p) == CHOOSE i \in Of(p) : \A j \in Of(p) : i <= j
  IN /\ \A p \in failing : PrintT(ToJson([rejected_at |-> First(p), herd |-> p[1], clause |-> p[2], event |-> log[First(p)],
                                             count |-> Cardinality(Of(p))]))
     /\ PrintT(ToJson([judged |-> Len(log), failing |-> Cardinality(bad)]))
     /\ bad = {}

TInit == kind = "trace" /\ IdleConc /\ q = 0 /\ r = 0 /\ n = 0 /\ n1 = 0 /\ n2 = 0
=============================================================================
