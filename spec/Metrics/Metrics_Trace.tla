--------------------------- MODULE Metrics_Trace ---------------------------
(* Judges what readers of the REAL rounded counter observed during a herd
   (harness/inpkg/broker/metrics_verif_test.go, vMHerd).  One line per event:

     {"ev":"read",  "herd":h, "mode":m, "ctr":c, "reader":r, "lo":a, "hi":b, "obs":v, "prev":p}
         a Gather that was invoked when `a` Incs had returned and returned
         when `b` Incs had been invoked published v; the same reader's
         previous read had published p
     {"ev":"quiet", "herd":h, "mode":m, "ctr":c, "n":n, "obs":v}
         after all n Incs had returned, Gather published v

   An event is explained iff Metrics!ReadOK / QuietOK holds for it (and a
   reader never sees the counter go down).  There is no abstract state to
   carry from one event to the next - lo and hi bracket everything a read may
   depend on - so the log is judged in one state; Judge prints, for every
   clause that fails, the first event that fails it. *)
EXTENDS Metrics

TraceLog == ndJsonDeserialize("herd.ndjson")

Clause(e) ==
  IF e.ev = "read" THEN
    IF ~ReadMultiple(e.lo, e.hi, e.obs) THEN "non-multiple"
    ELSE IF ~ReadNeverLow(e.lo, e.hi, e.obs) THEN "too-low"
    ELSE IF ~ReadAtMost7(e.lo, e.hi, e.obs) THEN "too-high"
    ELSE IF ~ReadOK(e.lo, e.hi, e.obs) THEN "outside-window"
    ELSE IF e.obs < e.prev THEN "not-monotone"
    ELSE "ok"
  ELSE IF e.ev = "quiet" THEN
    IF QuietOK(e.n, e.obs) THEN "ok"
    ELSE IF e.obs > Published(e.n) THEN "quiescent-too-high" ELSE "quiescent-too-low"
  ELSE "unknown-event"

Clauses == {"non-multiple", "too-low", "too-high", "outside-window", "not-monotone",
            "quiescent-too-high", "quiescent-too-low", "unknown-event"}

FirstBad(c) ==
  LET bad == {i \in DOMAIN TraceLog : Clause(TraceLog[i]) = c}
  IN IF bad = {} THEN 0 ELSE CHOOSE i \in bad : \A j \in bad : i <= j

Judge ==
  LET firsts == {<<c, FirstBad(c)>> : c \in Clauses}
      failing == {p \in firsts : p[2] > 0}
  IN /\ \A p \in failing : PrintT(ToJson([rejected_at |-> p[2], clause |-> p[1], event |-> TraceLog[p[2]]]))
     /\ PrintT(ToJson([judged |-> Len(TraceLog), failing |-> Cardinality(failing)]))
     /\ failing = {}

TInit == IdleConc /\ q = 0 /\ r = 0 /\ n = 0 /\ n1 = 0 /\ n2 = 0
=============================================================================
