CONSTANTS
  Ns = {0, 1, 2, 3, 4, 5, 6, 7, 8, 9, 10, 11, 12, 13, 14, 15, 16, 17, 18, 19, 20, 21, 22, 23, 24, 25, 31, 32, 33, 63, 64, 65, 127, 128, 129, 255, 256, 257, 1023, 1024, 1025, 65535, 65536, 65537, 16777215, 16777216, 16777217, 1073741823, 1073741824, 1073741825, 2147483608, 2147483615, 2147483616}
  BigQs = {268435455, 268435456, 536870911, 536870912}
  IncMax = 1025
  RollNs = {0, 1, 7, 8, 9, 16, 17}
  Callers = {"a"}
  IncsPer = 1
  Reads = 1
  Start = {0}
  Alg = "total"
  Locked = FALSE
INIT InitCases
NEXT Stutter
INVARIANTS LawHolds Emit
CHECK_DEADLOCK FALSE
