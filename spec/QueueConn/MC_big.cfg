CONSTANTS
  NAddr = 2
  T = 2
  QCap = 2
  MaxNow = 4
  MaxPkts = 3
  MaxH = 3
  Mode = "mc"
  H = 1
  N = 0
  PerRecordSweep = FALSE
  SnapshotSweep = FALSE
  Target = "all"
SPECIFICATION Spec
INVARIANTS TypeOK Consistent FIFO
PROPERTIES DequeueIsHead NoCrossTalk NeverDiscardEarly KeptWhileSeen SweepComplete OpsFailAfterClose
CHECK_DEADLOCK FALSE
