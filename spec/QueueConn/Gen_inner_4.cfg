CONSTANTS
  NAddr = 2
  T = 2
  QCap = 8
  MaxNow = 100
  MaxPkts = 0
  MaxH = 0
  Mode = "gen"
  H = 1
  N = 4
  PerRecordSweep = FALSE
  SnapshotSweep = FALSE
  Target = "inner"
SPECIFICATION Spec
INVARIANTS Emit
CHECK_DEADLOCK FALSE
