CONSTANTS
  T = 300000
  H = 150000
  Slack = 300000
  NClients = 10
SPECIFICATION Spec
CONSTRAINT Mark
POSTCONDITION Accepted
CHECK_DEADLOCK FALSE
